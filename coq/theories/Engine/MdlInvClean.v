(** Preservation of [MInv] by [clean_query] (with and without the rebuild of the transitive
    firewall callees) and by the clearing of the pending mark. *)
From QV Require Import Common.Prelude Engine.Model Engine.Core Engine.CoreSpec Engine.CoreInvBase
  Engine.CoreInvSem Engine.Fw Engine.FwBase Engine.FwMono Engine.FwInv Engine.FwInvClean Engine.MdlSpec Engine.MdlSem
  Engine.MdlBase Engine.MdlInv Engine.MdlInvState Engine.MdlInvExec.
Open Scope Z_scope.

Lemma clean_fold_we : forall cleaned s n,
  s_world (clean_fold n cleaned s) = s_world s /\ s_ext (clean_fold n cleaned s) = s_ext s.
Proof.
  unfold clean_fold. induction cleaned as [|c r IH]; intros s n; cbn [fold_left]; [auto|].
  destruct (IH (set_dirty s (eremove (n, c) (s_dirty s))) n) as (H1 & H2). rewrite H1, H2. auto.
Qed.
Lemma clean_query_world : forall s n cl nt, s_world (clean_query s n cl nt) = s_world s.
Proof.
  intros. unfold clean_query. destruct (get_info s n); [|reflexivity]. cbn [put_info set_nodes s_world].
  apply (clean_fold_we cl s n).
Qed.
Lemma clean_query_ext : forall s n cl nt, s_ext (clean_query s n cl nt) = s_ext s.
Proof.
  intros. unfold clean_query. destruct (get_info s n); [|reflexivity]. cbn [put_info set_nodes s_ext].
  apply (clean_fold_we cl s n).
Qed.

Section Clean.
Variable p : program.
Variable rk : node -> nat.
Variable s0 : state.
Hypothesis Hrk : forall n e d, alookup p n = Some e -> In d (expr_reads e) -> (rk d < rk n)%nat.

Lemma MInv_clean : forall X inp s n i cl nt,
  MInv p rk s0 X inp s -> get_info s n = Some i -> ~ sverified s n ->
  (forall d, In d cl -> In d (old_fwd s n) /\ (nkind d = KInput \/ sverified s d)) ->
  (forall d, In d (old_fwd s n) ->
     edgeokV s i d /\ (nkind d = KFirewall -> sverified s d) /\ (thru d -> MSolid s d)) ->
  (nt = None -> forall d, In d (old_fwd s n) -> edgeok s n d) ->
  (forall t, nt = Some t -> t = new_tfc_of s i /\ Stale s n /\ ~ In n X) ->
  MInv p rk s0 X inp (clean_query s n cl nt) /\ MKeeps s (clean_query s n cl nt).
Proof.
  intros X inp s n i cl nt HI Hi Hnv Hcl Hall Hsync Hnt.
  set (s' := clean_query s n cl nt).
  set (ni := cq_info s i nt).
  assert (Hget : forall m, get_info s' m = if node_eqb n m then Some ni else get_info s m)
    by (intro m; apply clean_query_get; exact Hi).
  assert (Hgetne : forall m, m <> n -> get_info s' m = get_info s m).
  { intros m Hm. rewrite Hget. destruct (node_eqb_spec n m); [congruence|reflexivity]. }
  assert (Hgetn : get_info s' n = Some ni) by (rewrite Hget, node_eqb_refl; reflexivity).
  assert (Hts : s_ts s' = s_ts s) by apply clean_query_ts.
  assert (Hd : forall a b, sdirty s' a b <-> sdirty s a b /\ ~ (a = n /\ In b cl))
    by (intros; eapply clean_query_dirty; eauto).
  assert (Hfwd : forall m, old_fwd s' m = old_fwd s m).
  { intro m. unfold old_fwd. rewrite Hget. destruct (node_eqb_spec n m) as [<-|Hne]; [|reflexivity].
    rewrite Hi. reflexivity. }
  assert (Hcal : forall y, callers_of s' y = callers_of s y) by (intro y; apply clean_query_callers).
  assert (Hfrk : forall d, In d (old_fwd s n) -> d <> n).
  { intros d Hdn ->. pose proof (mfwd_rk _ _ Hrk _ _ _ _ _ _ _ HI Hdn). lia. }
  assert (Hpath : forall a b, tpath s' a b <-> tpath s a b).
  { intros a b. split; intro K.
    - eapply tpath_frame_inv; [exact K|]. intros; apply Hfwd.
    - eapply tpath_frame; [exact K|]. intros; apply Hfwd. }
  assert (Hreach : forall a F, mreach s' a F <-> mreach s a F).
  { intros a F. unfold mreach. split; intros [x (A & B & C)]; exists x.
    - split; [apply Hpath; exact A|]. rewrite <- Hfwd. auto.
    - split; [apply Hpath; exact A|]. rewrite Hfwd. auto. }
  assert (Hver : forall m, m <> n -> (sverified s' m <-> sverified s m)).
  { intros m Hm. unfold sverified. rewrite (Hgetne m Hm), Hts. reflexivity. }
  assert (Hvern : sverified s' n).
  { exists ni. split; [exact Hgetn|]. unfold ni, cq_info. cbn [i_verified]. rewrite Hts. reflexivity. }
  assert (Hver1 : forall m, sverified s m -> sverified s' m).
  { intros m Hm. destruct (node_eq_dec m n) as [->|Hne]; [exact Hvern|]. apply Hver; assumption. }
  assert (Hobs : forall d, alookup (i_obs ni) d =
            match nt with
            | None => alookup (i_obs i) d
            | Some _ => match alookup (i_obs i) d with
                        | Some (v, t) => Some (v, if kind_eqb (nkind d) KFirewall then t
                                                  else match get_info s d with Some xi => i_tfc xi | None => t end)
                        | None => None end
            end).
  { intro d. unfold ni, cq_info. cbn [i_obs]. destruct nt; [apply refresh_obs_lookup|reflexivity]. }
  assert (HnStale : nt <> None -> Stale s n /\ ~ In n X).
  { intro K. destruct nt as [t|]; [|congruence]. apply (Hnt t eq_refl). }
  (* the edges of n *)
  assert (Hedge_n : forall d, In d (old_fwd s n) -> edgeok s' n d).
  { intros d Hdn. pose proof (Hfrk d Hdn) as Hne. destruct nt as [t|] eqn:Ent.
    - destruct (Hall d Hdn) as [(j & v & t0 & A & B & C) _].
      exists ni, j, v. eexists. split; [exact Hgetn|]. split; [rewrite (Hgetne d Hne); exact A|].
      split; [rewrite Hobs, B; reflexivity|]. split; [exact C|]. intros Kd x.
      assert (Ek : kind_eqb (nkind d) KFirewall = false).
      { destruct (kind_eqb (nkind d) KFirewall) eqn:E0; [apply kind_eqb_eq in E0; contradiction|reflexivity]. }
      rewrite Ek, A. reflexivity.
    - destruct (Hsync eq_refl d Hdn) as (i0 & j & v & t0 & A & B & C & D & E).
      assert (i0 = i) by congruence. subst i0.
      exists ni, j, v, t0. split; [exact Hgetn|]. split; [rewrite (Hgetne d Hne); exact B|].
      split; [rewrite Hobs; exact C|]. auto. }
  (* an edge of another node is kept; an edge into n needs n's transitive firewall callees unchanged *)
  assert (Hedge_o : forall y z, y <> n -> edgeok s y z -> (z = n -> thru n -> nt = None) -> edgeok s' y z).
  { intros y z Hyn (iy & j & v & t & A & B & C & D & E) Hz.
    destruct (node_eq_dec z n) as [->|Hzn].
    - exists iy, ni, v, t. split; [rewrite (Hgetne y Hyn); exact A|]. split; [exact Hgetn|].
      split; [exact C|]. assert (j = i) by congruence. subst j.
      split; [unfold ni, cq_info; cbn [i_value]; exact D|].
      intro Kn. unfold ni, cq_info. cbn [i_tfc]. rewrite (Hz eq_refl Kn). apply E. exact Kn.
    - exists iy, j, v, t. rewrite (Hgetne y Hyn), (Hgetne z Hzn). auto. }
  (* consistency is kept *)
  assert (HGk : forall x, MGood s x -> MGood s' x).
  { intros x HG. eapply MGood_frame; [exact HG|intros; apply Hfwd|].
    intros y z Hy Hz Hyz. destruct (node_eq_dec y n) as [->|Hyn]; [apply Hedge_n; exact Hz|].
    apply Hedge_o; [exact Hyn|exact Hyz|]. intros -> Kn. destruct nt as [t1|] eqn:Ent; [|reflexivity].
    exfalso. destruct HnStale as [HS _]; [congruence|].
    eapply Stale_not_MGood; [exact HS| |exact HG]. eapply tpath_snoc; eauto. }
  assert (HGXk : forall x, MGoodX X s x -> MGoodX X s' x).
  { intros x HG y Hy. apply Hpath in Hy. destruct (HG y Hy) as [K|K]; [left; exact K|].
    destruct (in_dec node_eq_dec y X) as [Hin|Hin]; [left; exact Hin|right].
    intros z Hz. rewrite Hfwd in Hz. destruct (node_eq_dec y n) as [->|Hyn]; [apply Hedge_n; exact Hz|].
    apply Hedge_o; [exact Hyn|apply K; exact Hz|]. intros -> Kn. destruct nt as [t1|] eqn:Ent; [|reflexivity].
    exfalso. destruct HnStale as [HS HX]; [congruence|].
    eapply Stale_not_MGoodX; [exact HS|exact HX| |exact HG]. eapply tpath_snoc; eauto. }
  assert (HfS : forall d v, In d (old_fwd s n) -> obsV i d v -> MSpecI p inp d v).
  { intros d v Hdn [t Ho]. destruct (Hall d Hdn) as [(j & v0 & t0 & A & B & C) [Kf Ks]].
    assert (v0 = v) by congruence. subst v0. subst v.
    destruct (fw_or_thru d) as [Kd|Kd].
    - destruct (Kf Kd) as [j' [J1 J2]]. assert (j' = j) by congruence. subst j'. eapply mi_V; eauto.
    - eapply (MSolid_value _ _ Hrk _ _ _ _ _ HI (S (rk d))); eauto. }
  split.
  { split.
  - (* mi_kind *)
    intros m j Hj. rewrite Hget in Hj. destruct (node_eqb_spec n m) as [<-|Hne]; [|eapply mi_kind; eauto].
    inversion Hj. subst j. destruct (mi_kind _ _ _ _ _ _ _ HI n i Hi) as [(K1 & K2 & K3 & K4 & K5)|(K1 & e & l & Ke & Kev & Kr)].
    + left. unfold ni, cq_info. cbn [i_fwd i_obs i_tfc i_value]. rewrite K3, K4.
      repeat split; auto; destruct nt as [t|]; try reflexivity.
      destruct (Hnt t eq_refl) as [-> [[cal [Hc _]] _]]. unfold old_fwd in Hc. rewrite Hi, K2 in Hc. destruct Hc.
    + right. split; [exact K1|]. exists e, l. split; [exact Ke|]. split; [|exact Kr].
      unfold ni at 2. unfold cq_info. cbn [i_value].
      eapply evr_mono; [exact Kev|]. intros d x _ [t Hx]. unfold obsV. rewrite Hobs, Hx.
      destruct nt; eexists; reflexivity.
  - (* mi_obs *)
    intros m j d Hj Hdm. rewrite Hget in Hj. destruct (node_eqb_spec n m) as [<-|Hne]; [|eapply mi_obs; eauto].
    inversion Hj. subst j. unfold ni, cq_info in Hdm. cbn [i_fwd] in Hdm.
    destruct (mi_obs _ _ _ _ _ _ _ HI n i d Hi Hdm) as [[v t] Ho]. rewrite Hobs, Ho. destruct nt; eexists; reflexivity.
  - (* mi_obs_fwd *)
    intros m j d o Hj Ho. rewrite Hget in Hj. destruct (node_eqb_spec n m) as [<-|Hne]; [|eapply mi_obs_fwd; eauto].
    inversion Hj. subst j. rewrite Hobs in Ho. unfold ni, cq_info. cbn [i_fwd].
    destruct (alookup (i_obs i) d) as [[v t]|] eqn:Eo; [|destruct nt; discriminate].
    eapply mi_obs_fwd; eauto.
  - (* mi_target *)
    intros m d Hdm. rewrite Hfwd in Hdm. rewrite Hget. destruct (node_eqb n d); [discriminate|].
    eapply mi_target; eauto.
  - (* mi_bwd *)
    intros m d. rewrite Hcal, Hfwd. apply (mi_bwd _ _ _ _ _ _ _ HI).
  - (* mi_dirty_edge *)
    intros a b K. rewrite Hfwd. apply Hd in K. eapply mi_dirty_edge; [exact HI|]. tauto.
  - (* mi_ts *)
    intros m j Hj. rewrite Hget in Hj. rewrite Hts. destruct (node_eqb_spec n m) as [<-|Hne]; [|eapply mi_ts; eauto].
    inversion Hj. unfold ni, cq_info. cbn [i_verified]. lia.
  - (* mi_tfc *)
    intros m j d v t Hj Ho. rewrite Hget in Hj. destruct (node_eqb_spec n m) as [<-|Hne]; [|eapply mi_tfc; eauto].
    inversion Hj. subst j. rewrite Hobs in Ho. destruct nt as [t1|] eqn:Ent.
    + destruct (alookup (i_obs i) d) as [[v0 t0]|] eqn:Eo; [|discriminate].
      destruct (Hnt t1 eq_refl) as [-> _].
      assert (Hdf : In d (all_callees (i_fwd i))) by (eapply mi_obs_fwd; eauto).
      assert (Hdn : In d (old_fwd s n)) by (unfold old_fwd; rewrite Hi; exact Hdf).
      destruct (get_info s d) as [jd|] eqn:Hjd; [|exfalso; eapply (mi_target _ _ _ _ _ _ _ HI); eauto].
      assert (Et : t = (if kind_eqb (nkind d) KFirewall then t0 else i_tfc jd)) by congruence.
      unfold ni, cq_info. cbn [i_tfc]. split.
      * intro Kd. apply new_tfc_In. exists d, jd. split; [exact Hdf|]. split; [exact Hjd|].
        unfold tfc_contribution. rewrite Kd. left. reflexivity.
      * intros Kd F HF.
        assert (Ek : kind_eqb (nkind d) KFirewall = false) by (destruct Kd as [Kd|Kd]; rewrite Kd; reflexivity).
        rewrite Ek in Et. subst t.
        apply new_tfc_In. exists d, jd. split; [exact Hdf|]. split; [exact Hjd|].
        unfold tfc_contribution. destruct Kd as [Kd|Kd]; rewrite Kd; exact HF.
    + unfold ni, cq_info. cbn [i_tfc]. eapply mi_tfc; eauto.
  - (* mi_tfc_ex *)
    intros m j F Hj HF. rewrite Hget in Hj. destruct (node_eqb_spec n m) as [<-|Hne]; [|eapply mi_tfc_ex; eauto].
    inversion Hj. subst j. unfold ni, cq_info in HF. cbn [i_tfc] in HF. destruct nt as [t1|] eqn:Ent.
    + destruct (Hnt t1 eq_refl) as [-> _]. apply new_tfc_In in HF. destruct HF as [x [xi (A & B & C)]].
      destruct (mi_obs _ _ _ _ _ _ _ HI n i x Hi A) as [[v0 t0] Ho].
      exists x, v0. eexists. split; [rewrite Hobs, Ho; reflexivity|].
      unfold tfc_contribution in C. unfold tkind. rewrite B.
      destruct (nkind x) eqn:Kx; cbn [kind_eqb]; try destruct C as [<-|[]]; try destruct C; auto.
    + unfold ni, cq_info. cbn [i_obs]. eapply mi_tfc_ex; eauto.
  - (* mi_tfc_rk *)
    intros m j F Hj HF. rewrite Hget in Hj. destruct (node_eqb_spec n m) as [<-|Hne]; [|eapply mi_tfc_rk; eauto].
    inversion Hj. subst j. unfold ni, cq_info in HF. cbn [i_tfc] in HF. destruct nt as [t1|] eqn:Ent.
    + destruct (Hnt t1 eq_refl) as [-> _]. apply new_tfc_In in HF. destruct HF as [x [xi (A & B & C)]].
      assert (Hxn : In x (old_fwd s n)) by (unfold old_fwd; rewrite Hi; exact A).
      pose proof (mfwd_rk _ _ Hrk _ _ _ _ _ _ _ HI Hxn) as R1.
      unfold tfc_contribution in C. destruct (nkind x) eqn:Kx; try destruct C as [<-|[]]; try destruct C; try exact R1.
      * pose proof (mi_tfc_rk _ _ _ _ _ _ _ HI x xi F B C). lia.
      * pose proof (mi_tfc_rk _ _ _ _ _ _ _ HI x xi F B C). lia.
    + eapply mi_tfc_rk; eauto.
  - (* mi_tfc_fw *)
    intros m j F Hj HF. rewrite Hget in Hj. destruct (node_eqb_spec n m) as [<-|Hne]; [|eapply mi_tfc_fw; eauto].
    inversion Hj. subst j. unfold ni, cq_info in HF. cbn [i_tfc] in HF. destruct nt as [t1|] eqn:Ent.
    + destruct (Hnt t1 eq_refl) as [-> _]. apply new_tfc_In in HF. destruct HF as [x [xi (A & B & C)]].
      unfold tfc_contribution in C. destruct (nkind x) eqn:Kx; try destruct C as [<-|[]]; try destruct C; try exact Kx.
      * eapply (mi_tfc_fw _ _ _ _ _ _ _ HI x xi F B C).
      * eapply (mi_tfc_fw _ _ _ _ _ _ _ HI x xi F B C).
    + eapply mi_tfc_fw; eauto.
  - (* mi_C *)
    intros a b Hab Hclean. rewrite Hfwd in Hab. destruct (node_eq_dec a n) as [->|Hne].
    + split; [apply Hedge_n; exact Hab|]. intro Hnf. apply MGood_GoodX. apply HGk. apply (proj2 (proj2 (Hall b Hab)) Hnf).
    + assert (Hcl0 : ~ sdirty s a b).
      { intro K. apply Hclean. apply Hd. split; [exact K|]. intros [E _]. contradiction. }
      destruct (mi_C _ _ _ _ _ _ _ HI a b Hab Hcl0) as [Eab Gb]. split; [|intro K; apply HGXk; auto].
      apply Hedge_o; [exact Hne|exact Eab|]. intros -> Kn. destruct nt as [t1|] eqn:Ent; [|reflexivity].
      exfalso. destruct HnStale as [HS HX]; [congruence|]. apply Hcl0. eapply Stale_callers_dirty; eauto.
  - (* mi_G *)
    intros x Hx. destruct (node_eq_dec x n) as [->|Hne].
    + apply MGood_intro. intros d Hdn. rewrite Hfwd in Hdn. split; [apply Hedge_n; exact Hdn|].
      intro Hnf. apply HGk. apply (proj2 (proj2 (Hall d Hdn)) Hnf).
    + apply HGk. apply (mi_G _ _ _ _ _ _ _ HI). apply Hver; assumption.
  - (* mi_T *)
    intros x F Hx HR. apply Hreach in HR. apply Hver1. destruct (node_eq_dec x n) as [->|Hne].
    + destruct HR as [y (A & B & C)]. inversion A; subst.
      * apply (proj1 (proj2 (Hall F B))). exact C.
      * apply (proj2 (proj2 (Hall d H)) H0). exists y. auto.
    + eapply (mi_T _ _ _ _ _ _ _ HI); [|exact HR]. apply Hver; assumption.
  - (* mi_V *)
    intros m j Hj Hv. rewrite Hget in Hj. destruct (node_eqb_spec n m) as [<-|Hne].
    + inversion Hj. subst j. unfold ni, cq_info. cbn [i_value].
      destruct (mi_kind _ _ _ _ _ _ _ HI n i Hi) as [(K1 & _ & _ & _ & K5)|(K1 & e & l & Ke & Kev & Kr)].
      * apply MSpecI_leaf; assumption.
      * eapply MSpecI_exec; eauto. eapply evr_msev; [exact Kev|]. intros d x _ Hx. apply HfS; [|exact Hx].
        destruct Hx as [t Hx]. unfold old_fwd. rewrite Hi. eapply mi_obs_fwd; eauto.
    + eapply mi_V; eauto. congruence.
  - (* mi_PV *)
    intros x Hx. unfold s' in Hx. rewrite clean_query_visited in Hx. right.
    destruct (mi_PV _ _ _ _ _ _ _ HI x Hx) as [[]|[K|[Kin K]]]; [left; apply Hver1; exact K|].
    destruct (in_dec node_eq_dec x cl) as [Hc|Hc].
    + left. apply Hver1. destruct (proj2 (Hcl x Hc)) as [Ki|Kv]; [contradiction|exact Kv].
    + right. split; [exact Kin|]. intros c Hcx. rewrite Hcal in Hcx. destruct (K c Hcx) as [K1 K2]. split.
      * apply Hd. split; [exact K1|]. intros [_ K3]. contradiction.
      * intro Hn. unfold s'. rewrite clean_query_visited. auto.
  - (* mi_X *)
    intros x Hx. destruct (mi_X _ _ _ _ _ _ _ HI x Hx) as [K1 K2]. split; [exact K1|].
    destruct (node_eq_dec x n) as [->|Hne]; [left; exact Hvern|].
    destruct K2 as [K2|(cal & i0 & ci & v0 & t & A & B & C & D & E)]; [left; apply Hver1; exact K2|right].
    assert (Hcn : cal <> n) by (intros ->; apply Hnv; exists ci; auto).
    exists cal, i0, ci, v0, t. rewrite (Hgetne x Hne), (Hgetne cal Hcn), Hts. auto.
  - (* mi_J *)
    intros m Hm. unfold s' in Hm. rewrite clean_query_log in Hm. eapply mi_J; eauto.
  - (* mi_U *)
    intro m. destruct (node_eq_dec m n) as [->|Hne]; [left; exact Hvern|].
    rewrite (Hgetne m Hne). destruct (mi_U _ _ _ _ _ _ _ HI m) as [K|K]; [left; apply Hver1; exact K|right; exact K].
  - (* mi_O *)
    intros m j Hj. unfold s'. rewrite clean_query_log. rewrite Hget in Hj. destruct (node_eqb_spec n m) as [<-|Hne].
    + inversion Hj. subst j. destruct (mi_O _ _ _ _ _ _ _ HI n i Hi) as [K|[i0 [K1 K2]]]; [left; exact K|right].
      exists i0. split; [exact K1|]. intros d x. rewrite <- K2. unfold obsV. rewrite Hobs.
      destruct nt; [|reflexivity]. destruct (alookup (i_obs i) d) as [[v t]|].
      * split; intros [t1 E]; inversion E; eauto.
      * split; intros [t1 E]; discriminate.
    + eapply mi_O; eauto.
  - (* mi_W *)
    intros k Hk0. unfold s' in *. rewrite Hget in Hk0. destruct (node_eqb n (ext_node k)); [discriminate|].
    unfold world_get. rewrite clean_query_world. apply (mi_W _ _ _ _ _ _ _ HI). exact Hk0.
  - (* mi_ext *)
    intros e He0. unfold s' in He0. rewrite clean_query_ext in He0. eapply mi_ext; eauto. }
  (* MKeeps *)
  intros d j Hj [HG _]. destruct (node_eq_dec d n) as [->|Hne].
  - assert (j = i) by congruence. subst j. exists ni. split; [exact Hgetn|].
    destruct nt as [t|] eqn:Ent.
    + exfalso. destruct HnStale as [HS _]; [congruence|]. eapply Stale_not_MGood; [exact HS| |exact HG]. constructor.
    + repeat split.
  - exists j. split; [rewrite (Hgetne d Hne); exact Hj|repeat split].
Qed.

(** * the pending mark is not looked at *)
Lemma MInv_pending : forall Ex X inp s n i i',
  MInvE p rk s0 Ex X inp s -> get_info s n = Some i -> sverified s n -> sbp i i' ->
  MInvE p rk s0 Ex X inp (put_info s n i') /\ MKeeps s (put_info s n i').
Proof.
  intros Ex X inp s n i i' HI Hi Hvn Hs.
  set (s' := put_info s n i').
  assert (Hget : forall m, get_info s' m = if node_eqb n m then Some i' else get_info s m) by (intro m; apply get_put).
  assert (Hfw : forall m j, get_info s m = Some j -> exists j', get_info s' m = Some j' /\ sbp j j').
  { intros m j Hj. rewrite Hget. destruct (node_eqb_spec n m) as [<-|Hne].
    - exists i'. assert (j = i) by congruence. subst j. auto.
    - exists j. split; [exact Hj|apply sbp_refl]. }
  assert (Hbw : forall m j', get_info s' m = Some j' -> exists j, get_info s m = Some j /\ sbp j j').
  { intros m j' Hj. rewrite Hget in Hj. destruct (node_eqb_spec n m) as [<-|Hne].
    - exists i. inversion Hj. subst. auto.
    - exists j'. split; [exact Hj|apply sbp_refl]. }
  assert (Hf : forall m, old_fwd s' m = old_fwd s m).
  { intro m. unfold old_fwd. destruct (get_info s m) as [j|] eqn:Hj.
    - destruct (Hfw m j Hj) as [j' [Hj' (_ & _ & _ & F & _)]]. rewrite Hj', F. reflexivity.
    - destruct (get_info s' m) as [j'|] eqn:Hj'; [|reflexivity]. destruct (Hbw m j' Hj') as [j [K _]]. congruence. }
  assert (He : forall a b, edgeok s' a b <-> edgeok s a b).
  { intros a b. split.
    - intros (ia & jb & v & t & A & B & C & D & E).
      destruct (Hbw a ia A) as [ia0 [A0 (_ & _ & _ & _ & O)]]. destruct (Hbw b jb B) as [jb0 [B0 (_ & V & T & _)]].
      exists ia0, jb0, v, t. split; [exact A0|]. split; [exact B0|]. split; [rewrite <- O; exact C|].
      split; [congruence|]. intros K x. rewrite <- T. apply E. exact K.
    - intros (ia & jb & v & t & A & B & C & D & E).
      destruct (Hfw a ia A) as [ia0 [A0 (_ & _ & _ & _ & O)]]. destruct (Hfw b jb B) as [jb0 [B0 (_ & V & T & _)]].
      exists ia0, jb0, v, t. split; [exact A0|]. split; [exact B0|]. split; [rewrite O; exact C|].
      split; [congruence|]. intros K x. rewrite T. apply E. exact K. }
  assert (Hp : forall a b, tpath s' a b <-> tpath s a b).
  { intros a b. split; intro K.
    - eapply tpath_frame_inv; [exact K|]. intros; apply Hf.
    - eapply tpath_frame; [exact K|]. intros; apply Hf. }
  assert (HG : forall a, MGood s' a <-> MGood s a).
  { intro a. unfold MGood. split; intros H x Hx d Hdx.
    - apply He. apply H; [apply Hp; exact Hx|rewrite Hf; exact Hdx].
    - apply He. apply H; [apply Hp; exact Hx|rewrite <- Hf; exact Hdx]. }
  assert (HGX : forall a, MGoodX X s a -> MGoodX X s' a).
  { intros a H x Hx. destruct (H x (proj1 (Hp a x) Hx)) as [K|K]; [left; exact K|right].
    intros d Hd. apply He. apply K. rewrite <- Hf. exact Hd. }
  assert (HR : forall a F, mreach s' a F <-> mreach s a F).
  { intros a F. unfold mreach. split; intros [x (A & B & C)]; exists x.
    - split; [apply Hp; exact A|]. rewrite <- Hf. auto.
    - split; [apply Hp; exact A|]. rewrite Hf. auto. }
  assert (Hv : forall m, sverified s' m <-> sverified s m).
  { intro m. unfold sverified. split.
    - intros [j' [A B]]. destruct (Hbw m j' A) as [j [A0 (V & _)]]. exists j. split; [exact A0|]. rewrite <- V. exact B.
    - intros [j [A B]]. destruct (Hfw m j A) as [j' [A0 (V & _)]]. exists j'. split; [exact A0|]. rewrite V. exact B. }
  split.
  { destruct HI. split.
  - intros m j' Hj. destruct (Hbw m j' Hj) as [j [A (_ & V & T & F & O)]].
    destruct (mi_kind m j A) as [(K1 & K2 & K3 & K4 & K5)|(K1 & e & l & Ke & Kev & Kr)].
    + left. rewrite F, O, T, V. auto.
    + right. split; [exact K1|]. exists e, l. split; [exact Ke|]. rewrite V, F. split; [|exact Kr].
      eapply evr_mono; [exact Kev|]. intros d x _ [t Hx]. exists t. rewrite O. exact Hx.
  - intros m j' d Hj Hd. destruct (Hbw m j' Hj) as [j [A (_ & _ & _ & F & O)]]. rewrite O. rewrite F in Hd. eauto.
  - intros m j' d o Hj Ho. destruct (Hbw m j' Hj) as [j [A (_ & _ & _ & F & O)]]. rewrite F. rewrite O in Ho. eauto.
  - intros m d Hd. rewrite Hf in Hd. intro K. apply (mi_target m d Hd).
    destruct (get_info s d) as [j|] eqn:Hj; [|reflexivity]. destruct (Hfw d j Hj) as [j' [K' _]]. congruence.
  - intros m d. rewrite Hf. apply mi_bwd.
  - intros a b K. rewrite Hf. apply mi_dirty_edge. exact K.
  - intros m j' Hj. destruct (Hbw m j' Hj) as [j [A (V & _)]]. rewrite V. apply (mi_ts m j A).
  - intros m j' d v t Hj Ho. destruct (Hbw m j' Hj) as [j [A (_ & _ & T & _ & O)]]. rewrite T. rewrite O in Ho. eauto.
  - intros m j' F Hj HF. destruct (Hbw m j' Hj) as [j [A (_ & _ & T & _ & O)]]. rewrite T in HF. rewrite O. eauto.
  - intros m j' F Hj HF. destruct (Hbw m j' Hj) as [j [A (_ & _ & T & _)]]. rewrite T in HF. eauto.
  - intros m j' F Hj HF. destruct (Hbw m j' Hj) as [j [A (_ & _ & T & _)]]. rewrite T in HF. eauto.
  - intros m d Hd Hc. rewrite Hf in Hd. destruct (mi_C m d Hd Hc) as [A B]. split; [apply He; exact A|].
    intro K. apply HGX. auto.
  - intros m Hm. apply HG. apply mi_G. apply Hv. exact Hm.
  - intros m F Hm HF. apply Hv. eapply mi_T; [apply Hv; exact Hm|apply HR; exact HF].
  - intros m j' Hj Hvj. destruct (Hbw m j' Hj) as [j [A (V & W & _)]]. rewrite W. apply (mi_V m j A). rewrite <- V. exact Hvj.
  - intros x Hx. destruct (mi_PV x Hx) as [K|[K|K]]; [left; exact K|right; left; apply Hv; exact K|right; right; exact K].
  - intros x Hx. destruct (mi_X x Hx) as [K1 K2]. split; [exact K1|].
    destruct K2 as [K2|(cal & i0 & ci & v0 & t & A & B & C & D & E)]; [left; apply Hv; exact K2|right].
    destruct (Hfw x i0 A) as [i0' [A' (_ & _ & _ & _ & O)]]. destruct (Hfw cal ci C) as [ci' [C' (V & W & _)]].
    exists cal, i0', ci', v0, t. split; [exact A'|]. split; [rewrite O; exact B|]. split; [exact C'|].
    split; [rewrite V; exact D|]. rewrite W. exact E.
  - intros m Hm. apply mi_J. exact Hm.
  - intro m. rewrite Hget. destruct (node_eqb_spec n m) as [<-|Hne]; [|destruct (mi_U m) as [K|K]; [left; apply Hv; exact K|right; exact K]].
    left. apply Hv. exact Hvn.
  - intros m j' Hj. destruct (Hbw m j' Hj) as [j [A (_ & _ & _ & _ & O)]].
    destruct (mi_O m j A) as [K|[i0 [K1 K2]]]; [left; exact K|right]. exists i0. split; [exact K1|].
    intros d x. rewrite <- K2. unfold obsV. rewrite O. reflexivity.
  - intros k Hk0. apply mi_W. destruct (get_info s (ext_node k)) as [j|] eqn:Hj; [|reflexivity].
    destruct (Hfw _ _ Hj) as [j' [K' _]]. change (get_info s' (ext_node k) = None) in Hk0. rewrite K' in Hk0. discriminate.
  - exact mi_ext. }
  intros d j Hj _. destruct (Hfw d j Hj) as [j' [A B]]. exists j'. split; [exact A|]. apply sbp_same_sem. exact B.
Qed.
End Clean.
