(** Executable sequential model of the qbice engine (crates/qbice/src/engine/
    computation_graph*: query_for / fast_path / repair / slow_path / dirty_worker /
    backward_projection / input_session / computing / database), over interpreted query
    programs.  One function per routine of the code; every state change is a change of
    the persisted columns ([s_nodes], [s_bwd], [s_dirty], [s_ts], [s_ext]) or of the two
    volatile per-epoch items ([s_visited] = dirtied_queries, [s_stat] = statistic).
    Fingerprints are the values themselves (H-hash).  Concurrency inside one request
    (TFC repair, unordered groups, backward projections run as parallel tasks in the
    code) is sequentialised in list order; the correspondence check compares results,
    the multiset of executor invocations per operation and the dirtied-edge statistic.

    The harness (harness/src/prog.rs, hist.rs) interprets the same program table with
    five query types, one per [kind]. *)
From QV Require Import Common.Prelude.
Open Scope Z_scope.

Inductive kind := KInput | KNormal | KFirewall | KProjection | KExternal.
Record node := mkNode { nkind : kind; nidx : N }.

Definition kind_eqb (a b : kind) : bool :=
  match a, b with
  | KInput, KInput | KNormal, KNormal | KFirewall, KFirewall
  | KProjection, KProjection | KExternal, KExternal => true
  | _, _ => false
  end.
Definition kind_code (k : kind) : N :=
  match k with KInput => 0 | KNormal => 1 | KFirewall => 2 | KProjection => 3 | KExternal => 4 end%N.
Definition node_eqb (a b : node) : bool := kind_eqb (nkind a) (nkind b) && (nidx a =? nidx b)%N.
Definition node_code (n : node) : N := (kind_code (nkind n) + 8 * nidx n)%N.
Definition node_leb (a b : node) : bool := (node_code a <=? node_code b)%N.

Inductive expr :=
| EConst (z : Z)
| ERead (n : node)
| EAdd (a b : expr)
| EMul (a b : expr)
| EMod (a : expr) (m : Z)
| ELt (a b : expr)
| EIf (c a b : expr)
| EGroup (ns : list node).

Definition program := list (node * expr).

Inductive dep := DSingle (n : node) | DUnordered (ns : list node).
Definition dep_nodes (d : dep) : list node := match d with DSingle n => [n] | DUnordered ns => ns end.
Definition all_callees (o : list dep) : list node := flat_map dep_nodes o.

(** * small finite-map / set helpers on association lists *)
Section Assoc.
Context {V : Type}.
Fixpoint alookup (m : list (node * V)) (k : node) : option V :=
  match m with [] => None | (k', v) :: r => if node_eqb k' k then Some v else alookup r k end.
Fixpoint aset (m : list (node * V)) (k : node) (v : V) : list (node * V) :=
  match m with
  | [] => [(k, v)]
  | (k', v') :: r => if node_eqb k' k then (k, v) :: r else (k', v') :: aset r k v
  end.
End Assoc.
Definition nmem (n : node) (l : list node) : bool := existsb (node_eqb n) l.
Definition nadd (n : node) (l : list node) : list node := if nmem n l then l else l ++ [n].
Definition nremove (n : node) (l : list node) : list node := filter (fun x => negb (node_eqb x n)) l.
Definition nunion (a b : list node) : list node := fold_left (fun acc x => nadd x acc) b a.
(** sets are compared as sets *)
Definition nsubset (a b : list node) : bool := forallb (fun x => nmem x b) a.
Definition nset_eqb (a b : list node) : bool := nsubset a b && nsubset b a.
Definition edge_eqb (a b : node * node) : bool := node_eqb (fst a) (fst b) && node_eqb (snd a) (snd b).
Definition emem (e : node * node) (l : list (node * node)) : bool := existsb (edge_eqb e) l.
Definition eadd (e : node * node) (l : list (node * node)) : list (node * node) := if emem e l then l else e :: l.
Definition eremove (e : node * node) (l : list (node * node)) := filter (fun x => negb (edge_eqb x e)) l.

(** * persisted state *)
Definition observation := (Z * list node)%type.   (* seen value fp, seen tfc fp (= the set) *)
Record info := mkInfo {
  i_verified : N;
  i_value : Z;
  i_tfc : list node;
  i_fwd : list dep;
  i_obs : list (node * observation);
  i_pending : option N;
}.
Record state := mkState {
  s_nodes : list (node * info);
  s_bwd : list (node * list node);
  s_dirty : list (node * node);      (* (caller, callee) *)
  s_ts : N;
  s_ext : list node;                 (* external-input queries computed so far *)
  s_visited : list node;             (* dirtied_queries: per epoch, volatile *)
  s_stat : N;                        (* dirtied edge count: volatile *)
  s_world : list (N * Z);            (* what the outside world answers (harness World.ext) *)
  s_log : list node;                 (* executor invocations, most recent first *)
}.
Definition init_state : state := mkState [] [] [] 0 [] [] 0 [] [].

Definition set_nodes s x := mkState x (s_bwd s) (s_dirty s) (s_ts s) (s_ext s) (s_visited s) (s_stat s) (s_world s) (s_log s).
Definition set_bwd s x := mkState (s_nodes s) x (s_dirty s) (s_ts s) (s_ext s) (s_visited s) (s_stat s) (s_world s) (s_log s).
Definition set_dirty s x := mkState (s_nodes s) (s_bwd s) x (s_ts s) (s_ext s) (s_visited s) (s_stat s) (s_world s) (s_log s).
Definition set_ts s x := mkState (s_nodes s) (s_bwd s) (s_dirty s) x (s_ext s) (s_visited s) (s_stat s) (s_world s) (s_log s).
Definition set_ext s x := mkState (s_nodes s) (s_bwd s) (s_dirty s) (s_ts s) x (s_visited s) (s_stat s) (s_world s) (s_log s).
Definition set_visited s x := mkState (s_nodes s) (s_bwd s) (s_dirty s) (s_ts s) (s_ext s) x (s_stat s) (s_world s) (s_log s).
Definition set_stat s x := mkState (s_nodes s) (s_bwd s) (s_dirty s) (s_ts s) (s_ext s) (s_visited s) x (s_world s) (s_log s).
Definition set_world s x := mkState (s_nodes s) (s_bwd s) (s_dirty s) (s_ts s) (s_ext s) (s_visited s) (s_stat s) x (s_log s).
Definition set_log s x := mkState (s_nodes s) (s_bwd s) (s_dirty s) (s_ts s) (s_ext s) (s_visited s) (s_stat s) (s_world s) x.

Definition get_info (s : state) (n : node) : option info := alookup (s_nodes s) n.
Definition put_info (s : state) (n : node) (i : info) : state := set_nodes s (aset (s_nodes s) n i).
Definition callers_of (s : state) (n : node) : list node :=
  match alookup (s_bwd s) n with Some l => l | None => [] end.
Definition bwd_add (s : state) (callee caller : node) : state :=
  set_bwd s (aset (s_bwd s) callee (nadd caller (callers_of s callee))).
Definition bwd_remove (s : state) (callee caller : node) : state :=
  set_bwd s (aset (s_bwd s) callee (nremove caller (callers_of s callee))).
Definition world_get (s : state) (i : N) : Z :=
  match find (fun '(k, _) => (k =? i)%N) (s_world s) with Some (_, v) => v | None => 0 end.

Definition scc_default (k : kind) : Z :=
  match k with KNormal => -1 | KFirewall => -2 | KProjection => -3 | _ => 0 end.

(** * results *)
Inductive res (A : Type) :=
| Ok (a : A)
| OutOfFuel
| Panic (code : N)      (* 1 executor panic, 2 missing observation, 3 projection reads a non-firewall,
                           4 no executor for an input, 5 external input calls a query *)
| Stuck.                (* the code would wait for ever (a root request meets a computing query) *)
Arguments Ok {A} a.
Arguments OutOfFuel {A}.
Arguments Panic {A} code.
Arguments Stuck {A}.
Notation "'let*' x ':=' e 'in' k" :=
  (match e with Ok x => k | OutOfFuel => OutOfFuel | Panic c => Panic c | Stuck => Stuck end)
  (at level 200, x pattern, e at level 100, k at level 200, right associativity).

(** * callers and the volatile computing entry of the running query *)
Inductive caller :=
| CUser
| CQuery (by_ : node) (require_value pedantic : bool) (prev : list (node * list node))
    (* prev: the callees observed by the previous run, with the tfc set accounted for each *)
| CRepairFirewall
| CBPP.      (* BackwardProjectionPropagation *)

Record frame := mkFrame {
  fr_order : list dep;                                (* callee order, oldest first *)
  fr_unordered : bool;                                (* inside start/end_unordered_callee_group *)
  fr_callees : list (node * option observation);      (* registered callees and what was observed *)
  fr_tfc : list node;
  fr_scc : bool;
}.
Definition empty_frame : frame := mkFrame [] false [] [] false.

Fixpoint push_unordered (o : list dep) (n : node) : list dep :=
  match o with
  | [] => [DUnordered [n]]                        (* cannot happen: a group was started *)
  | [DUnordered ns] => [DUnordered (ns ++ [n])]
  | [d] => [d; DUnordered [n]]
  | d :: r => d :: push_unordered r n
  end.
Definition fr_register (fr : frame) (n : node) : frame :=
  match alookup (fr_callees fr) n with
  | Some _ => fr
  | None =>
      mkFrame (if fr_unordered fr then push_unordered (fr_order fr) n else fr_order fr ++ [DSingle n])
              (fr_unordered fr) (fr_callees fr ++ [(n, None)]) (fr_tfc fr) (fr_scc fr)
  end.
Definition fr_observe (fr : frame) (n : node) (o : observation) (tfc_add : list node) : frame :=
  mkFrame (fr_order fr) (fr_unordered fr) (aset (fr_callees fr) n (Some o)) (nunion (fr_tfc fr) tfc_add) (fr_scc fr).
Definition fr_mark_scc (fr : frame) : frame :=
  mkFrame (fr_order fr) (fr_unordered fr) (fr_callees fr) (fr_tfc fr) true.
Definition fr_set_unordered (fr : frame) (b : bool) : frame :=
  mkFrame (if b then fr_order fr ++ [DUnordered []] else fr_order fr) b (fr_callees fr) (fr_tfc fr) (fr_scc fr).
(** clear_dependencies: callee table and order are emptied; tfc and the scc flag stay *)
Definition fr_clear (fr : frame) : frame := mkFrame [] false [] (fr_tfc fr) (fr_scc fr).
Definition fr_observations (fr : frame) : list (node * observation) :=
  flat_map (fun '(n, o) => match o with Some x => [(n, x)] | None => [] end) (fr_callees fr).

Definition is_fw_or_proj (k : kind) : bool := match k with KFirewall | KProjection => true | _ => false end.

(** * dirty propagation (dirty_worker.rs): worklist with the per-epoch visited set *)
Fixpoint mark_callers (s : state) (x : node) (cs : list node) (work : list node) : state * list node :=
  match cs with
  | [] => (s, work)
  | c :: r =>
      let s1 := set_stat (set_dirty s (eadd (c, x) (s_dirty s))) (s_stat s + 1)%N in
      mark_callers s1 x r (if is_fw_or_proj (nkind c) then work else work ++ [c])
  end.
Fixpoint propagate (fuel : nat) (s : state) (work : list node) : res state :=
  match fuel with
  | O => OutOfFuel
  | S f =>
      match work with
      | [] => Ok s
      | x :: r =>
          if nmem x (s_visited s) then propagate f s r
          else
            let s1 := set_visited s (x :: s_visited s) in
            let '(s2, work') := mark_callers s1 x (callers_of s1 x) r in
            propagate f s2 work'
      end
  end.

(** the same, continuing through projection callers (it still stops at firewalls): used when an
    updated firewall / projection is not reached as a transitive firewall callee (its backward
    projections may never run) and when a projection reaches other firewalls with the same value *)
Fixpoint mark_callers_t (s : state) (x : node) (cs : list node) (work : list node) : state * list node :=
  match cs with
  | [] => (s, work)
  | c :: r =>
      let s1 := set_stat (set_dirty s (eadd (c, x) (s_dirty s))) (s_stat s + 1)%N in
      mark_callers_t s1 x r (if kind_eqb (nkind c) KFirewall then work else work ++ [c])
  end.
Fixpoint propagate_t (fuel : nat) (s : state) (work : list node) : res state :=
  match fuel with
  | O => OutOfFuel
  | S f =>
      match work with
      | [] => Ok s
      | x :: r =>
          if nmem x (s_visited s) then propagate_t f s r
          else
            let s1 := set_visited s (x :: s_visited s) in
            let '(s2, work') := mark_callers_t s1 x (callers_of s1 x) r in
            propagate_t f s2 work'
      end
  end.

(** the same two propagations with the order in which the callers of a node are expanded chosen
    by an oracle (the dirty worker's tasks are stolen in any order); [propagate] and
    [propagate_t] are the instances with [fun _ _ l => l] (convertible) *)
Section PropO.
Variable pord : state -> node -> list node -> list node.
Fixpoint propagate_o (fuel : nat) (s : state) (work : list node) : res state :=
  match fuel with
  | O => OutOfFuel
  | S f =>
      match work with
      | [] => Ok s
      | x :: r =>
          if nmem x (s_visited s) then propagate_o f s r
          else
            let s1 := set_visited s (x :: s_visited s) in
            let '(s2, work') := mark_callers s1 x (pord s1 x (callers_of s1 x)) r in
            propagate_o f s2 work'
      end
  end.
Fixpoint propagate_t_o (fuel : nat) (s : state) (work : list node) : res state :=
  match fuel with
  | O => OutOfFuel
  | S f =>
      match work with
      | [] => Ok s
      | x :: r =>
          if nmem x (s_visited s) then propagate_t_o f s r
          else
            let s1 := set_visited s (x :: s_visited s) in
            let '(s2, work') := mark_callers_t s1 x (pord s1 x (callers_of s1 x)) r in
            propagate_t_o f s2 work'
      end
  end.
End PropO.

(** * set_computed / clean_query / set_computed_input (database.rs) *)
Definition unwire (s : state) (n : node) (old : list dep) (clean_dirty : bool) : state :=
  fold_left (fun s c =>
               let s1 := bwd_remove s c n in
               if clean_dirty then set_dirty s1 (eremove (n, c) (s_dirty s1)) else s1)
            (all_callees old) s.
Definition wire (s : state) (n : node) (new : list dep) : state :=
  fold_left (fun s c => bwd_add s c n) (all_callees new) s.

Definition set_computed (s : state) (n : node) (v : Z) (fr : frame) (need_bp recompute : bool) : state :=
  let old := get_info s n in
  let s1 := match old with Some i => unwire s n (i_fwd i) recompute | None => s end in
  let pending := if need_bp then Some (s_ts s) else match old with Some i => i_pending i | None => None end in
  let s2 := put_info s1 n (mkInfo (s_ts s) v (fr_tfc fr) (fr_order fr) (fr_observations fr) pending) in
  let s3 := wire s2 n (fr_order fr) in
  if kind_eqb (nkind n) KExternal then set_ext s3 (nadd n (s_ext s3)) else s3.

Definition set_computed_input (s : state) (n : node) (v : Z) : state :=
  let old := get_info s n in
  let s1 := match old with Some i => unwire s n (i_fwd i) false | None => s end in
  let pending := match old with Some i => i_pending i | None => None end in
  put_info s1 n (mkInfo (s_ts s) v [] [] [] pending).

(** the observations after the transitive firewall callees were rebuilt: the seen tfc of every
    non-firewall callee is what the callee records now *)
Definition refresh_obs (s : state) (obs : list (node * observation)) : list (node * observation) :=
  map (fun '(x, (v, t)) =>
         if kind_eqb (nkind x) KFirewall then (x, (v, t))
         else match get_info s x with Some xi => (x, (v, i_tfc xi)) | None => (x, (v, t)) end) obs.

Definition clean_query (s : state) (n : node) (cleaned : list node) (new_tfc : option (list node)) : state :=
  match get_info s n with
  | None => s
  | Some i =>
      let s1 := fold_left (fun s c => set_dirty s (eremove (n, c) (s_dirty s))) cleaned s in
      put_info s1 n (mkInfo (s_ts s) (i_value i)
                            (match new_tfc with Some t => t | None => i_tfc i end)
                            (i_fwd i)
                            (match new_tfc with Some _ => refresh_obs s (i_obs i) | None => i_obs i end)
                            (i_pending i))
  end.

(** contribution of a callee to its caller's transitive firewall callees *)
Definition tfc_contribution (n : node) (i : info) : list node :=
  match nkind n with
  | KFirewall => [n]
  | KNormal | KProjection => i_tfc i
  | KInput | KExternal => []
  end.

Inductive slow := SCompute | SRepair | SBackward.
Inductive fast := FHit (v : option Z) | FSlow (p : slow).

Definition caller_requires_value (c : caller) : bool :=
  match c with CUser => true | CQuery _ r _ _ => r | _ => false end.

(** fast_path.rs; returns the decision and the caller's frame after the observation *)
Definition fast_path (s : state) (c : caller) (fr : option frame) (n : node) : fast * option frame :=
  match get_info s n with
  | None => (FSlow SCompute, fr)
  | Some i =>
      if negb (i_verified i =? s_ts s)%N then (FSlow SRepair, fr)
      else if (match c with CRepairFirewall | CBPP => true | _ => false end)
              && (match i_pending i with Some t => (t =? s_ts s)%N | None => false end)
      then (FSlow SBackward, fr)
      else
        let fr' := match c, fr with
                   | CQuery _ true _ _, Some f =>
                       Some (fr_observe f n (i_value i, i_tfc i) (tfc_contribution n i))
                   | _, _ => fr
                   end in
        (FHit (if caller_requires_value c then Some (i_value i) else None), fr')
  end.

Inductive qout := QValue (v : option Z) | QCyclic.
(** result of a request: outcome, caller's frame, scc marks still to be applied to the
    frames below, state *)
Definition qres := (qout * option frame * list node * state)%type.

Inductive decision := DRecompute | DClean (repair_tfc : bool) (cleaned : list node).
Inductive eout := EVal (z : Z) | EUnwind.    (* executor finished / unwound by a cyclic error *)

Definition frame_mark_if (fr : option frame) (me : option node) (marks : list node) : option frame :=
  match fr, me with
  | Some f, Some m => if nmem m marks then Some (fr_mark_scc f) else Some f
  | _, _ => fr
  end.
Definition caller_node (c : caller) : option node := match c with CQuery b _ _ _ => Some b | _ => None end.
Definition frame_in_scc (fr : option frame) : bool := match fr with Some f => fr_scc f | None => false end.

(** nodes of the computing stack from [n] (inclusive) to the top; [stk] has the top first *)
Fixpoint upto (stk : list node) (n : node) : list node :=
  match stk with
  | [] => []
  | x :: r => if node_eqb x n then [x] else x :: upto r n
  end.

Section Run.
Variable p : program.
(** node whose executor panics when invoked (C05), if any *)
Variable panic_at : option node.
(** the order in which the parallel tasks of one request run: the repairs of the transitive
    firewall callees of a root, and the backward projections of a changed firewall (the real
    engine iterates hash sets; the order may depend on anything, so it gets the state) *)
Variable tfc_order : state -> node -> list node -> list node.
Variable bp_order : state -> node -> list node -> list node.
(** ... and the order in which the dirty propagation expands the callers of a node *)
Variable prop_order : state -> node -> list node -> list node.

Definition body (n : node) : option expr := alookup p n.

Fixpoint query_for_o (fuel : nat) (stk : list node) (c : caller) (fr : option frame) (n : node) (s : state)
  {struct fuel} : res qres :=
  match fuel with
  | O => OutOfFuel
  | S f =>
    (* a dependency the executor did not read in its previous run, or whose transitive firewall
       callees are no longer the ones accounted for, is repaired pedantically *)
    let c := match c with
             | CQuery b true false prev =>
                 match alookup prev n with
                 | None => CQuery b true true prev
                 | Some seen =>
                     match get_info s n with
                     | Some ci => if nset_eqb (i_tfc ci) seen then c else CQuery b true true prev
                     | None => c
                     end
                 end
             | _ => c
             end in
    (* register_callee, with the two assertions of register_callee.rs *)
    let reg : res (option frame) :=
      match c, fr with
      | CQuery b _ _ _, Some fr0 =>
          if kind_eqb (nkind b) KExternal then Panic 5
          else if kind_eqb (nkind b) KProjection && negb (is_fw_or_proj (nkind n)) then Panic 3
          else Ok (Some (fr_register fr0 n))
      | _, _ => Ok fr
      end in
    let* fr1 := reg in
    (* exit_scc: the callee is being computed *)
    if nmem n stk then
      match c with
      | CQuery b _ _ _ =>
          let marks := upto stk n in
          Ok (QCyclic, frame_mark_if fr1 (Some b) marks, marks, s)
      | _ => Stuck
      end
    else
    match fast_path s c fr1 n with
    | (FHit v, fr2) =>
        Ok (if frame_in_scc fr2 then QCyclic else QValue v, fr2, [], s)
    | (FSlow sp, _) =>
        (* the root of a request repairs the recorded transitive firewall callees first *)
        let* s1 :=
          match c, sp, get_info s n with
          | (CUser | CRepairFirewall), SRepair, Some i =>
              (fix go (ts : list node) (s : state) : res state :=
                 match ts with
                 | [] => Ok s
                 | t :: r => let* (_, _, _, s') := query_for_o f stk CRepairFirewall None t s in go r s'
                 end) (tfc_order s n (i_tfc i)) s
          | _, _, _ => Ok s
          end in
        (* get_write_guard: double check, then process_query, then retry the fast path *)
        let* (marks, s2) :=
          match sp with
          | SBackward =>
              match get_info s1 n with
              | Some i =>
                  if (match i_pending i with Some t => (t =? s_ts s1)%N | None => false end)
                  then let* s' := backward_o f stk n s1 in Ok ([], s')
                  else Ok ([], s1)
              | None => Ok ([], s1)
              end
          | _ =>
              match get_info s1 n with
              | Some i =>
                  if (i_verified i =? s_ts s1)%N then Ok ([], s1)
                  else repair_o f stk c n s1
              | None => execute_o f stk c n false empty_frame s1
              end
          end in
        (* retry: one more round of the loop, now expected to hit *)
        match fast_path s2 c fr1 n with
        | (FHit v, fr2) =>
            let fr3 := frame_mark_if fr2 (caller_node c) marks in
            Ok (if frame_in_scc fr3 then QCyclic else QValue v, fr3, marks, s2)
        | (FSlow _, _) =>
            let* (o, fr2, m2, s3) := query_for_o f stk c fr1 n s2 in
            Ok (o, frame_mark_if fr2 (caller_node c) marks, marks ++ m2, s3)
        end
    end
  end

(** execute_query + computing_lock_to_computed; [fr0] is the computing entry (fresh, or the
    one used during repair after clear_dependencies); returns the scc marks it received *)
with execute_o (fuel : nat) (stk : list node) (c : caller) (n : node) (recompute : bool) (fr0 : frame) (s : state)
  {struct fuel} : res (list node * state) :=
  match fuel with
  | O => OutOfFuel
  | S f =>
    let pedantic := match c with CQuery _ _ pd _ => pd | CBPP => true | _ => false end in
    let prev := match get_info s n with Some i => map (fun '(x, o) => (x, snd o)) (i_obs i) | None => [] end in
    let s0 := set_log s (n :: s_log s) in
    if (match panic_at with Some x => node_eqb x n | None => false end) then Panic 1 else
    let me := CQuery n true pedantic prev in
    let* (out, fr1, marks, s1) :=
      match nkind n with
      | KExternal => Ok (EVal (world_get s0 (nidx n)), fr0, [], s0)
      | KInput => Panic 4
      | _ =>
          match body n with
          | None => Panic 4
          | Some e => eval_o f (n :: stk) me e fr0 s0
          end
      end in
    let fr2 := if nmem n marks then fr_mark_scc fr1 else fr1 in
    let v := if fr_scc fr2 then scc_default (nkind n)
             else match out with EVal z => z | EUnwind => scc_default (nkind n) end in
    (* a recomputed firewall / projection whose value changed propagates dirt into the same batch *)
    let old := get_info s1 n in
    let changed := match old with
                   | Some i => recompute && is_fw_or_proj (nkind n) && negb (i_value i =? v)
                   | None => false end in
    (* a projection that reaches other firewalls with the same value tells the queries above it *)
    let tfc_changed := match old with
                       | Some i => recompute && kind_eqb (nkind n) KProjection && negb changed
                                   && negb (nset_eqb (i_tfc i) (fr_tfc fr2))
                       | None => false end in
    let follow := match c with CRepairFirewall | CBPP => true | _ => false end in
    let* s2 := if changed then (if follow then propagate_o prop_order (S f * 4) s1 [n] else propagate_t_o prop_order (S f * 4) s1 [n])
               else if tfc_changed then propagate_t_o prop_order (S f * 4) s1 [n] else Ok s1 in
    Ok (marks, set_computed s2 n v fr2 changed recompute)
  end

(** the executor: evaluation of the node's expression *)
with eval_o (fuel : nat) (stk : list node) (me : caller) (e : expr) (fr : frame) (s : state)
  {struct fuel} : res (eout * frame * list node * state) :=
  match fuel with
  | O => OutOfFuel
  | S f =>
    let read (n : node) (fr : frame) (s : state) : res (eout * frame * list node * state) :=
      let* (o, fr', marks, s') := query_for_o f stk me (Some fr) n s in
      let fr'' := match fr' with Some x => x | None => fr end in
      match o with
      | QValue (Some z) => Ok (EVal z, fr'', marks, s')
      | _ => Ok (EUnwind, fr'', marks, s')
      end in
    let bin (a b : expr) (op : Z -> Z -> Z) :=
      let* (x, fr1, m1, s1) := eval_o f stk me a fr s in
      match x with
      | EUnwind => Ok (EUnwind, fr1, m1, s1)
      | EVal xv =>
          let* (y, fr2, m2, s2) := eval_o f stk me b fr1 s1 in
          match y with
          | EUnwind => Ok (EUnwind, fr2, m1 ++ m2, s2)
          | EVal yv => Ok (EVal (op xv yv), fr2, m1 ++ m2, s2)
          end
      end in
    match e with
    | EConst z => Ok (EVal z, fr, [], s)
    | ERead n => read n fr s
    | EAdd a b => bin a b Z.add
    | EMul a b => bin a b Z.mul
    | ELt a b => bin a b (fun x y => if x <? y then 1 else 0)
    | EMod a m =>
        let* (x, fr1, m1, s1) := eval_o f stk me a fr s in
        match x with EUnwind => Ok (EUnwind, fr1, m1, s1) | EVal xv => Ok (EVal (xv mod m), fr1, m1, s1) end
    | EIf c a b =>
        let* (x, fr1, m1, s1) := eval_o f stk me c fr s in
        match x with
        | EUnwind => Ok (EUnwind, fr1, m1, s1)
        | EVal xv =>
            let* (y, fr2, m2, s2) := eval_o f stk me (if xv =? 0 then b else a) fr1 s1 in
            Ok (y, fr2, m1 ++ m2, s2)
        end
    | EGroup ns =>
        let* (x, fr1, m1, s1) :=
          (fix go (ns : list node) (acc : Z) (fr : frame) (ms : list node) (s : state)
             : res (eout * frame * list node * state) :=
             match ns with
             | [] => Ok (EVal acc, fr, ms, s)
             | n :: r =>
                 let* (x, fr1, m1, s1) := read n fr s in
                 match x with
                 | EUnwind => Ok (EUnwind, fr1, ms ++ m1, s1)
                 | EVal z => go r (acc + z) fr1 (ms ++ m1) s1
                 end
             end) ns 0 (fr_set_unordered fr true) [] s in
        Ok (x, fr_set_unordered fr1 false, m1, s1)
    end
  end

(** repair_query: should_recompute_query + recompute_decision_based_on_forward_edges *)
with repair_o (fuel : nat) (stk : list node) (c : caller) (n : node) (s : state)
  {struct fuel} : res (list node * state) :=
  match fuel with
  | O => OutOfFuel
  | S f =>
    match get_info s n with
    | None => Panic 2
    | Some i =>
      match c with
      | _ =>
        (* a backward projection propagation checks every dependency, dirty or not; it does not
           recompute outright (CallerInformation::pedantic_repair) *)
        let pedantic := match c with CQuery _ _ pd _ => pd | CBPP => true | _ => false end in
        (* check_callee for every forward edge, in order; stop at the first Recompute *)
        let* (d, fr1, marks, s1) :=
          (fix walk (cs : list node) (rtfc : bool) (cleaned : list node) (fr : frame) (ms : list node) (s : state)
             : res (decision * frame * list node * state) :=
             match cs with
             | [] => Ok (DClean rtfc cleaned, fr, ms, s)
             | cal :: r =>
                 let dirty := emem (n, cal) (s_dirty s) in
                 if negb dirty && negb pedantic && negb (kind_eqb (nkind n) KProjection)
                 then walk r rtfc cleaned fr ms s
                 else if (match alookup (i_obs i) cal with None => true | Some _ => false end)
                 then Ok (DRecompute, fr, ms, s)     (* the previous run was cut at this (cyclic) dependency *)
                 else
                   (* the callee's transitive firewall callees are not the ones accounted for *)
                   let pedantic_cal :=
                     pedantic ||
                     (negb (kind_eqb (nkind cal) KInput) && negb (kind_eqb (nkind cal) KFirewall) &&
                      match get_info s cal, alookup (i_obs i) cal with
                      | Some ci, Some (_, otfc) => negb (nset_eqb (i_tfc ci) otfc)
                      | _, _ => false
                      end) in
                   let* (fr1, m1, s1) :=
                     if kind_eqb (nkind cal) KInput then Ok (fr, [], s)
                     else
                       let* (_, fr', m', s') := query_for_o f (n :: stk) (CQuery n false pedantic_cal []) (Some fr) cal s in
                       Ok (match fr' with Some x => x | None => fr end, m', s') in
                   match get_info s1 cal, alookup (i_obs i) cal with
                   | Some ci, Some (ov, otfc) =>
                       if negb (i_value ci =? ov) then Ok (DRecompute, fr1, ms ++ m1, s1)
                       else
                         let tdiff := negb (kind_eqb (nkind cal) KFirewall) && negb (nset_eqb (i_tfc ci) otfc) in
                         walk r (rtfc || tdiff) (if dirty then cleaned ++ [cal] else cleaned) fr1 (ms ++ m1) s1
                   | _, _ => Panic 2
                   end
             end) (all_callees (i_fwd i)) false [] empty_frame [] s in
        let fr2 := if nmem n marks then fr_mark_scc fr1 else fr1 in
        match d with
        | DRecompute =>
            let* (m2, s2) := execute_o f stk c n true (fr_clear fr2) s1 in
            Ok (marks ++ m2, s2)
        | DClean false cleaned => Ok (marks, clean_query s1 n cleaned None)
        | DClean true cleaned =>
            let new_tfc :=
              fold_left (fun acc x =>
                           match get_info s1 x with
                           | Some xi => nunion acc (tfc_contribution x xi)
                           | None => acc end)
                        (all_callees (i_fwd i)) [] in
            Ok (marks, clean_query s1 n cleaned (Some new_tfc))
        end
      end
    end
  end

(** invoke_backward_projections + done_backward_projection *)
with backward_o (fuel : nat) (stk : list node) (n : node) (s : state) {struct fuel} : res state :=
  match fuel with
  | O => OutOfFuel
  | S f =>
    let projs := filter (fun x => kind_eqb (nkind x) KProjection) (callers_of s n) in
    let* s1 :=
      (fix go (ps : list node) (s : state) : res state :=
         match ps with
         | [] => Ok s
         | q :: r => let* (_, _, _, s') := query_for_o f stk CBPP None q s in go r s'
         end) (bp_order s n projs) s in
    match get_info s1 n with
    | Some i => Ok (put_info s1 n (mkInfo (i_verified i) (i_value i) (i_tfc i) (i_fwd i) (i_obs i) None))
    | None => Ok s1
    end
  end.

End Run.

(** the schedule in list order *)
Definition ord_id : state -> node -> list node -> list node := fun _ _ l => l.
Definition query_for (p : program) (pa : option node) := query_for_o p pa ord_id ord_id ord_id.
Definition execute (p : program) (pa : option node) := execute_o p pa ord_id ord_id ord_id.
Definition eval (p : program) (pa : option node) := eval_o p pa ord_id ord_id ord_id.
Definition repair (p : program) (pa : option node) := repair_o p pa ord_id ord_id ord_id.
Definition backward (p : program) (pa : option node) := backward_o p pa ord_id ord_id ord_id.

(** * histories *)
Inductive sres := SFresh | SUpdated | SUnchanged.
Inductive op :=
| OSession (sets : list (N * Z)) (refresh : bool)
| OQuery (n : node)
| OSetWorld (i : N) (v : Z)
| ORestart.
Inductive rout := RValue (z : Z) | RPanic | RSession (l : list sres) | RUnit | RFuel | RStuck.
Record opres := mkRes { r_out : rout; r_execs : list node; r_dirtied : option N }.

Definition fuel0 : nat := 400.

Definition restart (s : state) : state := set_log (set_stat (set_visited s []) 0%N) [].

(** one operation of a history on the model *)
Definition step_op (tfc_order bp_order prop_order : state -> node -> list node -> list node)
  (p : program) (s : state) (o : op) : state * opres :=
  let s := set_log s [] in
  match o with
  | OSetWorld i v =>
      (set_world s ((i, v) :: filter (fun '(k, _) => negb (k =? i)%N) (s_world s)), mkRes RUnit [] None)
  | ORestart => (restart s, mkRes RUnit [] None)
  | OQuery n =>
      match query_for_o p None tfc_order bp_order prop_order fuel0 [] CUser None n s with
      | Ok (QValue (Some z), _, _, s') => (s', mkRes (RValue z) (rev (s_log s')) (Some (s_stat s')))
      | Ok (_, _, _, s') => (s', mkRes RPanic (rev (s_log s')) (Some (s_stat s')))
      | Panic _ => (s, mkRes RPanic [] None)
      | OutOfFuel => (s, mkRes RFuel [] None)
      | Stuck => (s, mkRes RStuck [] None)
      end
  | OSession sets refresh =>
      let s0 := set_ts s (s_ts s + 1)%N in
      (* set_input *)
      let '(s1, rs, batch) :=
        fold_left (fun '(s, rs, batch) '(v, x) =>
                     let n := mkNode KInput v in
                     let r := match get_info s n with
                              | None => SFresh
                              | Some i => if i_value i =? x then SUnchanged else SUpdated end in
                     (set_computed_input s n x, rs ++ [r],
                      match r with SUpdated => batch ++ [n] | _ => batch end))
                  sets (s0, [], []) in
      (* refresh::<Ext>: every indexed external input is re-run *)
      let '(s2, batch2) :=
        if refresh then
          fold_left (fun '(s, batch) e =>
                       let v := world_get s (nidx e) in
                       let changed := match get_info s e with Some i => negb (i_value i =? v) | None => false end in
                       (set_computed_input (set_log s (e :: s_log s)) e v, if changed then batch ++ [e] else batch))
                    (s_ext s1) (s1, batch)
        else (s1, batch) in
      (* commit: reset statistic, clear dirtied_queries, propagate *)
      let s3 := set_visited (set_stat s2 0%N) [] in
      match propagate_o prop_order 4000 s3 batch2 with
      | Ok s4 => (s4, mkRes (RSession rs) (rev (s_log s4)) None)
      | _ => (s3, mkRes RFuel [] None)
      end
  end.

(** the dirty propagation in list order *)
Definition step_o (tfc_order bp_order : state -> node -> list node -> list node) : program -> state -> op -> state * opres :=
  step_op tfc_order bp_order ord_id.
Definition step : program -> state -> op -> state * opres := step_o ord_id ord_id.

Fixpoint run_history_op (tfc_order bp_order prop_order : state -> node -> list node -> list node)
  (p : program) (s : state) (ops : list op) : list opres :=
  match ops with
  | [] => []
  | o :: r => let '(s', x) := step_op tfc_order bp_order prop_order p s o in
              x :: run_history_op tfc_order bp_order prop_order p s' r
  end.
Definition run_history_o (tfc_order bp_order : state -> node -> list node -> list node)
  : program -> state -> list op -> list opres := run_history_op tfc_order bp_order ord_id.
Definition run_history : program -> state -> list op -> list opres := run_history_o ord_id ord_id.
