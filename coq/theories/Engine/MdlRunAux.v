(** Helper lemmas for the mutual induction of [Engine/MdlRunAll.v]: the caller rewriting of
    [query_for], frames across a retry, a fast-path hit. *)
From QV Require Import Common.Prelude Engine.Model Engine.Core Engine.CoreSpec Engine.CoreInvBase
  Engine.CoreInvSem Engine.Fw Engine.FwBase Engine.FwMono Engine.FwInv Engine.FwInvExec Engine.FwInvClean
  Engine.FwRunBase Engine.FwRun
  Engine.MdlSpec Engine.MdlSem Engine.MdlBase Engine.MdlMono Engine.MdlInv Engine.MdlInvState Engine.MdlInvExec
  Engine.MdlInvClean Engine.MdlRunBase Engine.MdlRun.
Open Scope Z_scope.

Section Aux.
Variable p : program.
Variable rk : node -> nat.
Variable sB : state.
Hypothesis Hrk : forall n e d, alookup p n = Some e -> In d (expr_reads e) -> (rk d < rk n)%nat.

Lemma MNPq_caller : forall Ex X inp c n s, MInvE p rk sB Ex X inp s -> MNPq c n s ->
  c_pedantic (fq_caller c n s) = true \/ NPn s n \/ is_cq c = false.
Proof.
  intros Ex X inp c n s HI H. destruct c as [|b rv pd prev| |]; cbn [fq_caller is_cq]; auto.
  destruct rv; cbn [MNPq] in H.
  - destruct pd; [left; reflexivity|]. destruct H as [H|H]; [discriminate|].
    destruct (alookup prev n) as [seen|] eqn:Ep; [|left; reflexivity].
    destruct (get_info s n) as [ci|] eqn:Eg.
    + destruct (nset_eqb (i_tfc ci) seen) eqn:Et; [|left; reflexivity].
      right. left. destruct (H n seen Ep) as [H1 H2].
      destruct (mstored_kind _ _ _ _ _ _ _ _ _ HI Eg) as [K|[K|K]].
      * right. intros j Hj F HF. assert (j = ci) by congruence. subst j.
        destruct (mi_kind _ _ _ _ _ _ _ HI n ci Eg) as [(_ & _ & _ & T & _)|(K2 & _)]; [rewrite T in HF; destruct HF|].
        destruct K as [K|K]; rewrite K in K2; discriminate.
      * left. auto.
      * right. intros j Hj F HF. assert (j = ci) by congruence. subst j.
        apply (H2 K). apply (proj1 (nset_eqb_In _ _) Et). exact HF.
    + right. left. right. intros j Hj. congruence.
  - destruct H as [->|H]; [left; reflexivity|right; left; exact H].
Qed.

Lemma MNPq_retry : forall stk c n s s2, MNPq c n s -> MonoR stk s s2 -> sverified s2 n -> MNPq (fq_caller c n s) n s2.
Proof.
  intros stk c n s s2 H HM Hv. destruct (fq_caller_shape c n s) as [->|[b [prev [-> ->]]]].
  - destruct c as [|b rv pd prev| |]; cbn [MNPq] in *; auto. destruct rv.
    + destruct H as [H|H]; [left; exact H|right; eapply MPrevOK_mono; eauto].
    + right. left. exact Hv.
  - cbn [MNPq]. left. reflexivity.
Qed.

Lemma XMode_caller : forall c n s X, XMode c X -> XMode (fq_caller c n s) X.
Proof.
  intros c n s X H. destruct (fq_caller_shape c n s) as [->|[b [prev [-> ->]]]]; [exact H|].
  cbn [XMode]. left. reflexivity.
Qed.
Lemma is_cq_caller : forall c n s, is_cq (fq_caller c n s) = is_cq c.
Proof. intros c n s. destruct (fq_caller_shape c n s) as [->|[b [prev [-> ->]]]]; reflexivity. Qed.
Lemma c_follow_caller : forall c n s, c_follow (fq_caller c n s) = c_follow c.
Proof. intros c n s. destruct (fq_caller_shape c n s) as [->|[b [prev [-> ->]]]]; reflexivity. Qed.
Lemma QPreS_caller : forall c n s Y s0, QPreS c n Y s0 -> QPreS (fq_caller c n s) n Y s0.
Proof. intros c n s Y s0 H. unfold QPreS in *. rewrite c_follow_caller. exact H. Qed.

Lemma MFrPre_retry : forall stk c fr n s s2, MFrPre rk c fr n s -> MonoR stk s s2 ->
  MFrPre rk (fq_caller c n s) (fq_reg (fq_caller c n s) fr n) n s2.
Proof.
  intros stk c fr n s s2 H HM. rewrite fq_reg_caller.
  assert (G : MFrPre rk c (fq_reg c fr n) n s2).
  { destruct c as [|b rv pd prev| |]; cbn [MFrPre fq_reg] in *; try (subst fr; reflexivity). destruct rv.
    - destruct H as [Hr [x [Hx Hfr]]]. split; [exact Hr|]. exists x. split; [eapply MFrOk_mono; eauto|].
      right. destruct Hfr as [->| ->]; [reflexivity|]. rewrite fr_register_idem. reflexivity.
    - destruct H as [x (-> & A & B)]. exists (fr_register x n). split; [reflexivity|].
      destruct (fr_register_same x n) as (E1 & E2 & _). rewrite E1, E2. auto. }
  destruct (fq_caller_shape c n s) as [->|[b [prev [-> ->]]]]; exact G.
Qed.

Lemma MQPost_retry : forall c fr fr' o i n s,
  MQPost (fq_caller c n s) (fq_reg (fq_caller c n s) fr n) fr' o i n -> MQPost c fr fr' o i n.
Proof.
  intros c fr fr' o i n s H. rewrite fq_reg_caller in H.
  assert (G : MQPost c (fq_reg c fr n) fr' o i n).
  { destruct (fq_caller_shape c n s) as [E|[b [prev [E1 E2]]]]; [rewrite E in H; exact H|].
    rewrite E2 in H. subst c. exact H. }
  clear H. destruct c as [|b rv pd prev| |]; cbn [MQPost fq_reg] in *; auto. destruct rv; [|exact G].
  destruct G as [G1 G2]. split; [exact G1|]. intros x [->| ->]; apply G2.
  - right. reflexivity.
  - right. rewrite fr_register_idem. reflexivity.
Qed.

Lemma mhit_post : forall c fr n s v fr2 i,
  MFrPre rk c fr n s -> fast_path s c (fq_reg c fr n) n = (FHit v, fr2) -> get_info s n = Some i ->
  MQPost c fr fr2 (if frame_in_scc fr2 then QCyclic else QValue v) i n.
Proof.
  intros c fr n s v fr2 i Hpre Hf Hi.
  pose proof (fast_path_hit_frame _ _ _ _ _ _ _ Hf Hi) as E2.
  destruct (fast_path_hit _ _ _ _ _ _ Hf) as [i0 (A & _ & Hv)]. assert (i0 = i) by congruence. subst i0.
  destruct c as [|b rv pd prev| |]; cbn [MFrPre MQPost fq_reg caller_requires_value] in *.
  - subst fr. subst fr2. cbn. subst v. reflexivity.
  - destruct rv.
    + destruct Hpre as [_ [x [Hx Hfr]]].
      assert (E3 : fr2 = Some (fr_obs_reg x n i)).
      { destruct Hfr as [->| ->]; rewrite E2; [reflexivity|]. rewrite fr_register_idem. reflexivity. }
      assert (Es : frame_in_scc fr2 = false).
      { rewrite E3. cbn. rewrite (proj1 (fr_register_same x n)). apply (mo_scc _ _ _ _ Hx). }
      rewrite Es. subst v. split; [reflexivity|]. intros y [Hy|Hy]; rewrite E3.
      * destruct Hfr as [->| ->]; [congruence|]. inversion Hy. subst y.
        unfold fr_obs_reg. rewrite fr_register_idem. reflexivity.
      * destruct Hfr as [->| ->].
        -- inversion Hy. subst x. unfold fr_obs_reg. rewrite fr_register_idem. reflexivity.
        -- inversion Hy as [Hy']. unfold fr_obs_reg. rewrite Hy'. reflexivity.
    + destruct Hpre as [x (-> & A1 & A2)]. rewrite E2. exists (fr_register x n). split; [reflexivity|].
      destruct (fr_register_same x n) as (E1 & E3 & _). rewrite E1, E3. auto.
  - exact I.
  - exact I.
Qed.

(** a fast-path hit under a follow caller means that no backward projection is pending *)
Lemma fast_path_hit_no_pending : forall s c fr n v fr', c_follow c = true ->
  fast_path s c fr n = (FHit v, fr') -> has_pending s n = false.
Proof.
  intros s c fr n v fr' Hc H. unfold fast_path in H. unfold has_pending.
  destruct (get_info s n) as [i|]; [|reflexivity].
  destruct (negb (i_verified i =? s_ts s)%N); [discriminate|].
  assert (Ec : (match c with CRepairFirewall | CBPP => true | _ => false end) = true) by (destruct c; try discriminate; reflexivity).
  rewrite Ec in H. cbn [andb] in H.
  destruct (match i_pending i with Some t => (t =? s_ts s)%N | None => false end); [discriminate|reflexivity].
Qed.
Lemma fast_path_backward_pending : forall s c fr n fr',
  fast_path s c fr n = (FSlow SBackward, fr') -> has_pending s n = true /\ c_follow c = true.
Proof.
  intros s c fr n fr' H. unfold fast_path in H. unfold has_pending.
  destruct (get_info s n) as [i|]; [|discriminate].
  destruct (negb (i_verified i =? s_ts s)%N); [discriminate|].
  destruct (match i_pending i with Some t => (t =? s_ts s)%N | None => false end).
  - split; [reflexivity|]. destruct c; try reflexivity; cbn in H; discriminate.
  - rewrite andb_false_r in H. discriminate.
Qed.

End Aux.
