(** Preservation of the invariant [FInv] of [Engine/FwInv.v] by the state updates of a
    request: compute-phase dirty propagation, [set_computed], [clean_query] and the clearing
    of the pending mark; and the facts about [Keeps]. *)
From QV Require Import Common.Prelude Engine.Model Engine.Core Engine.CoreSpec Engine.CoreInvBase
  Engine.CoreInvSem Engine.Fw Engine.FwBase Engine.FwMono Engine.FwSpec Engine.FwSem Engine.FwInv.
Open Scope Z_scope.

(** * predicates that only look at some columns *)
Section SameNodes.
Variables s s' : state.
Hypothesis Hg : forall m, get_info s' m = get_info s m.

Lemma sn_fwd : forall m, old_fwd s' m = old_fwd s m.
Proof using Hg. intro m. unfold old_fwd. rewrite Hg. reflexivity. Qed.
Lemma sn_edgeok : forall a b, edgeok s' a b <-> edgeok s a b.
Proof using Hg. intros. unfold edgeok. rewrite !Hg. reflexivity. Qed.
Lemma sn_nfpath : forall a b, nfpath s' a b <-> nfpath s a b.
Proof using Hg.
  intros a b. split; intro H; induction H; try constructor; econstructor; eauto;
    [rewrite <- sn_fwd|rewrite sn_fwd]; assumption.
Qed.
Lemma sn_Good : forall a, Good s' a <-> Good s a.
Proof using Hg.
  intro a. unfold Good. split; intros H x Hx d Hdx.
  - apply sn_edgeok. apply H; [apply sn_nfpath; exact Hx|rewrite sn_fwd; exact Hdx].
  - apply sn_edgeok. apply H; [apply sn_nfpath; exact Hx|rewrite <- sn_fwd; exact Hdx].
Qed.
Lemma sn_reach : forall a F, reach s' a F <-> reach s a F.
Proof using Hg.
  intros a F. unfold reach. split; intros [x (A & B & C)]; exists x.
  - split; [apply sn_nfpath; exact A|]. rewrite <- sn_fwd. auto.
  - split; [apply sn_nfpath; exact A|]. rewrite sn_fwd. auto.
Qed.
Lemma sn_verified : s_ts s' = s_ts s -> forall m, sverified s' m <-> sverified s m.
Proof using Hg. intros Ht m. unfold sverified. rewrite Hg, Ht. reflexivity. Qed.
Lemma sn_Solid : s_ts s' = s_ts s -> forall a, Solid s' a <-> Solid s a.
Proof using Hg.
  intros Ht a. unfold Solid. rewrite sn_Good. split; intros [A B]; (split; [exact A|]); intros F HF.
  - apply (proj1 (sn_verified Ht F)). apply B. apply (proj2 (sn_reach a F)). exact HF.
  - apply (proj2 (sn_verified Ht F)). apply B. apply (proj1 (sn_reach a F)). exact HF.
Qed.
End SameNodes.

Lemma Good_intro : forall s n,
  (forall d, In d (old_fwd s n) -> edgeok s n d /\ (nonfw d -> Good s d)) -> Good s n.
Proof.
  intros s n H x Hx. inversion Hx; subst.
  - intros d Hd. exact (proj1 (H d Hd)).
  - intros y Hy. destruct (H d H0) as [_ G]. apply (G H1 x H2 y Hy).
Qed.

Section State.
Variable p : program.
Variable rk : node -> nat.
Hypothesis Hrk : forall n e d, alookup p n = Some e -> In d (expr_reads e) -> (rk d < rk n)%nat.

(** more dirt on existing edges, a larger visited set *)
Lemma FInv_dirtier : forall inp s s',
  s_nodes s' = s_nodes s -> s_bwd s' = s_bwd s -> s_ts s' = s_ts s ->
  (forall a b, sdirty s a b -> sdirty s' a b) ->
  (forall a b, sdirty s' a b -> In b (old_fwd s a)) ->
  (forall x, In x (s_visited s') ->
     sverified s x \/ (nkind x <> KInput /\ forall c, In c (callers_of s x) -> sdirty s' c x /\ (nonfw c -> In c (s_visited s')))) ->
  FInv p rk inp s -> FInv p rk inp s'.
Proof using Type.
  intros inp s s' Hn Hb Ht Hd1 Hd2 Hv HI.
  assert (Hg : forall m, get_info s' m = get_info s m) by (intro m; unfold get_info; rewrite Hn; reflexivity).
  assert (Hc : forall m, callers_of s' m = callers_of s m) by (intro m; unfold callers_of; rewrite Hb; reflexivity).
  destruct HI. split.
  - intros n i. rewrite Hg. apply fi_kind.
  - intros n i d. rewrite Hg. apply fi_obs.
  - intros n i d o. rewrite Hg. apply fi_obs_fwd.
  - intros n d. rewrite (sn_fwd _ _ Hg), Hg. apply fi_target.
  - intros n d. rewrite Hc, (sn_fwd _ _ Hg). apply fi_bwd.
  - intros a b K. rewrite (sn_fwd _ _ Hg). apply Hd2. exact K.
  - intros n i. rewrite Hg, Ht. apply fi_ts.
  - intros n i d v t. rewrite Hg. apply fi_tfc.
  - intros n i F. rewrite Hg. apply fi_tfc_rk.
  - intros n d. rewrite (sn_fwd _ _ Hg), (sn_edgeok _ _ Hg). intros A B.
    destruct (fi_C n d A (fun K => B (Hd1 _ _ K))) as [C D]. split; [exact C|].
    intro K. apply (sn_Good _ _ Hg). auto.
  - intros n. rewrite (sn_verified _ _ Hg Ht), (sn_Good _ _ Hg). apply fi_G.
  - intros n F. rewrite !(sn_verified _ _ Hg Ht), (sn_reach _ _ Hg). apply fi_T.
  - intros n i. rewrite Hg, Ht. apply fi_V.
  - intros x Hx. destruct (Hv x Hx) as [K|[K0 K]].
    + left. apply (sn_verified _ _ Hg Ht). exact K.
    + right. split; [exact K0|]. intros c Hcx. rewrite Hc in Hcx. apply K. exact Hcx.
Qed.

(** * dirty propagation, with a set of excused nodes *)
Section Propagate.
Variable E : node -> Prop.

Definition PVg (s : state) (work : list node) : Prop :=
  forall x, In x (s_visited s) ->
    E x \/ (forall c, In c (callers_of s x) -> sdirty s c x /\ (nonfw c -> In c (s_visited s) \/ In c work)).

Lemma propagate_spec : forall fuel s work s',
  propagate fuel s work = Ok s' -> PVg s work ->
  s_nodes s' = s_nodes s /\ s_bwd s' = s_bwd s /\ s_ts s' = s_ts s /\ s_log s' = s_log s /\
  (forall a b, sdirty s a b -> sdirty s' a b) /\
  (forall a b, sdirty s' a b -> sdirty s a b \/ In a (callers_of s b)) /\
  (forall x, In x (s_visited s) -> In x (s_visited s')) /\
  (forall x, In x work -> In x (s_visited s')) /\
  PVg s' [] /\
  (forall x, In x (s_visited s') -> In x (s_visited s) \/ In x work \/ exists y, In x (callers_of s y)).
Proof using Type.
  induction fuel as [|f IH]; intros s work s' H HP; [discriminate|]. cbn [propagate] in H.
  destruct work as [|x r].
  - inversion H. subst. repeat (split; [reflexivity|]). split; [auto|]. split; [auto|]. split; [auto|].
    split; [intros x []|]. split; [exact HP|]. intros x Hx. left. exact Hx.
  - destruct (nmem x (s_visited s)) eqn:Ev.
    + apply nmem_In in Ev. apply IH in H.
      * destruct H as (H1 & H2 & H3 & H4 & H5 & H6 & H7 & H8 & H9 & H10).
        repeat (split; [assumption|]). split; [|split; [exact H9|]].
        -- intros y [<-|Hy]; [apply H7; exact Ev|apply H8; exact Hy].
        -- intros y Hy. destruct (H10 y Hy) as [K|[K|K]]; auto. right. left. right. exact K.
      * intros y Hy. destruct (HP y Hy) as [K|K]; [left; exact K|right].
        intros c Hc. destruct (K c Hc) as [K1 K2]. split; [exact K1|]. intro Hn.
        destruct (K2 Hn) as [K3|[<-|K3]]; auto.
    + apply nmem_false in Ev. cbv zeta in H.
      destruct (mark_callers (set_visited s (x :: s_visited s)) x (callers_of (set_visited s (x :: s_visited s)) x) r)
        as [s2 work'] eqn:Em.
      apply mark_callers_spec in Em. destruct Em as (A & B & C & D & E0 & F & G).
      cbn [set_visited s_nodes s_bwd s_ts s_visited s_log] in *.
      assert (Hcal : forall y, callers_of s2 y = callers_of s y) by (intro y; unfold callers_of; rewrite C; reflexivity).
      assert (Hcal0 : callers_of (set_visited s (x :: s_visited s)) x = callers_of s x) by reflexivity.
      rewrite Hcal0 in *.
      assert (G' : forall a b, sdirty s2 a b <-> sdirty s a b \/ (b = x /\ In a (callers_of s x))) by exact G.
      clear G. apply IH in H.
      * destruct H as (H1 & H2 & H3 & H4 & H5 & H6 & H7 & H8 & H9 & H10).
        split; [congruence|]. split; [congruence|]. split; [congruence|]. split; [congruence|].
        split; [intros a b K; apply H5; apply G'; auto|]. split; [|split; [|split; [|split; [exact H9|]]]].
        -- intros a b K. apply H6 in K. destruct K as [K|K].
           ++ apply G' in K. destruct K as [K|[-> K]]; auto.
           ++ right. rewrite Hcal in K. exact K.
        -- intros y Hy. apply H7. rewrite E0. right. exact Hy.
        -- intros y [<-|Hy].
           ++ apply H7. rewrite E0. left. reflexivity.
           ++ apply H8. rewrite A. apply in_or_app. left. exact Hy.
        -- intros y Hy. destruct (H10 y Hy) as [K|[K|[z K]]].
           ++ rewrite E0 in K. destruct K as [<-|K]; [right; left; left; reflexivity|left; exact K].
           ++ rewrite A in K. apply in_app_or in K. destruct K as [K|K]; [right; left; right; exact K|].
              apply filter_In in K. right. right. exists x. apply K.
           ++ right. right. exists z. rewrite <- Hcal. exact K.
      * intros y Hy. rewrite E0 in Hy. destruct Hy as [<-|Hy].
        -- right. intros c Hc. rewrite Hcal in Hc. split; [apply G'; auto|]. intro Hn.
           right. rewrite A. apply in_or_app. right. apply filter_In. split; [exact Hc|].
           unfold nonfw in Hn. rewrite Hn. reflexivity.
        -- destruct (HP y Hy) as [K|K]; [left; exact K|right].
           intros c Hc. rewrite Hcal in Hc. destruct (K c Hc) as [K1 K2]. split; [apply G'; auto|]. intro Hn.
           rewrite E0. destruct (K2 Hn) as [K3|[<-|K3]].
           ++ left. right. exact K3.
           ++ left. left. reflexivity.
           ++ right. rewrite A. apply in_or_app. left. exact K3.
Qed.
End Propagate.

(** the compute-phase propagation from a firewall that is about to change its value *)
Lemma FInv_propagate : forall inp fuel s n s',
  FInv p rk inp s -> propagate fuel s [n] = Ok s' -> ~ sverified s n -> nkind n = KFirewall ->
  FInv p rk inp s' /\
  s_nodes s' = s_nodes s /\ s_ts s' = s_ts s /\ s_log s' = s_log s /\
  (forall c, In n (old_fwd s' c) -> sdirty s' c n) /\
  (forall b a, nonfw b -> reach s' b n -> In b (old_fwd s' a) -> sdirty s' a b).
Proof using Type.
  intros inp fuel s n s' HI H Hnv KF.
  assert (HP : PVg (sverified s) s [n]).
  { intros x Hx. destruct (fi_PV _ _ _ _ HI x Hx) as [K|[_ K]]; [left; exact K|right].
    intros c Hc. destruct (K c Hc) as [K1 K2]. split; [exact K1|]. intro Hn. left. auto. }
  destruct (propagate_spec _ _ _ _ _ H HP) as (N1 & N2 & N3 & N4 & N5 & N6 & N7 & N8 & N9 & N10).
  assert (Hg : forall m, get_info s' m = get_info s m) by (intro m; unfold get_info; rewrite N1; reflexivity).
  assert (Hc : forall m, callers_of s' m = callers_of s m) by (intro m; unfold callers_of; rewrite N2; reflexivity).
  assert (HI' : FInv p rk inp s').
  { eapply FInv_dirtier; eauto.
    - intros a b K. apply N6 in K. destruct K as [K|K]; [eapply fi_dirty_edge; eauto|].
      apply (fi_bwd _ _ _ _ HI). exact K.
    - intros x Hx. destruct (N9 x Hx) as [K|K]; [left; exact K|].
      assert (Hni : sverified s x \/ nkind x <> KInput).
      { destruct (N10 x Hx) as [K0|[[<-|[]]|[y K0]]].
        - destruct (fi_PV _ _ _ _ HI x K0) as [K1|[K1 _]]; auto.
        - right. rewrite KF. discriminate.
        - right. intro Ki. apply (fi_bwd _ _ _ _ HI) in K0. rewrite (input_no_fwd _ _ _ _ _ HI Ki) in K0. destruct K0. }
      destruct Hni as [Hni|Hni]; [left; exact Hni|right]. split; [exact Hni|].
      intros c Hcx. rewrite <- Hc in Hcx. destruct (K c Hcx) as [K1 K2]. split; [exact K1|].
      intro Hn. destruct (K2 Hn) as [K3|[]]. exact K3. }
  split; [exact HI'|]. split; [exact N1|]. split; [exact N3|]. split; [exact N4|].
  assert (Hnv' : ~ sverified s' n) by (rewrite (sn_verified _ _ Hg N3); exact Hnv).
  assert (HnV : In n (s_visited s')) by (apply N8; left; reflexivity).
  (* every non-firewall node above n was expanded and is not verified *)
  assert (Hup : forall b x, nfpath s' b x -> In n (old_fwd s' x) -> nonfw b ->
                  In b (s_visited s') /\ ~ sverified s' b).
  { intros b x Hp. induction Hp as [b|b d x Hd Hnd Hp IH]; intros Hx Hb.
    - assert (Hnvb : ~ sverified s' b).
      { intro K. apply Hnv'. eapply (fi_T _ _ _ _ HI'); [exact K|]. apply reach_direct; assumption. }
      split; [|exact Hnvb].
      destruct (fi_PV _ _ _ _ HI' n HnV) as [K1|[_ K1]]; [contradiction|].
      apply (K1 b); [apply (fi_bwd _ _ _ _ HI'); exact Hx|exact Hb].
    - destruct (IH Hx Hnd) as [IH1 IH2].
      assert (Hnvb : ~ sverified s' b).
      { intro K. apply Hnv'. eapply (fi_T _ _ _ _ HI'); [exact K|]. exists x. split; [econstructor; eauto|auto]. }
      split; [|exact Hnvb].
      destruct (fi_PV _ _ _ _ HI' d IH1) as [K1|[_ K1]]; [contradiction|].
      apply (K1 b); [apply (fi_bwd _ _ _ _ HI'); exact Hd|exact Hb]. }
  split.
  - intros c Hcn. destruct (fi_PV _ _ _ _ HI' n HnV) as [K1|[_ K1]]; [contradiction|].
    apply (K1 c). apply (fi_bwd _ _ _ _ HI'). exact Hcn.
  - intros b a Hb [x (A & B & _)] Hab. destruct (Hup b x A B Hb) as [U1 U2].
    destruct (fi_PV _ _ _ _ HI' b U1) as [K1|[_ K1]]; [contradiction|].
    apply (K1 a). apply (fi_bwd _ _ _ _ HI'). exact Hab.
Qed.
End State.
