(** [Keeps] composes; frames of running executors; preservation of [FInv] by [set_computed]. *)
From QV Require Import Common.Prelude Engine.Model Engine.Core Engine.CoreSpec Engine.CoreInvBase
  Engine.CoreInvSem Engine.Fw Engine.FwBase Engine.FwMono Engine.FwSpec Engine.FwSem Engine.FwInv
  Engine.FwInvState.
Open Scope Z_scope.

Lemma all_callees_single : forall l, all_callees (map DSingle l) = l.
Proof. induction l as [|x r IH]; cbn; [reflexivity|]. unfold all_callees in IH. rewrite IH. reflexivity. Qed.

(** the observations of a frame all of whose entries are filled *)
Lemma observations_lookup : forall (l : list (node * option observation)) d,
  (forall x o, In (x, o) l -> o <> None) ->
  alookup (flat_map (fun '(n, o) => match o with Some x => [(n, x)] | None => [] end) l) d =
  match alookup l d with Some (Some o) => Some o | _ => None end.
Proof.
  induction l as [|[k o] r IH]; intros d H; cbn [flat_map alookup]; [reflexivity|].
  destruct o as [o|]; [|exfalso; apply (H k None); [left; reflexivity|reflexivity]].
  cbn [app alookup]. destruct (node_eqb k d); [reflexivity|]. apply IH.
  intros x o' Hx. apply (H x o'). right. exact Hx.
Qed.

Section Exec.
Variable p : program.
Variable rk : node -> nat.
Hypothesis Hrk : forall n e d, alookup p n = Some e -> In d (expr_reads e) -> (rk d < rk n)%nat.

(** * [Keeps] *)
Lemma Solid_keep : forall inp stk s s' d,
  FInv p rk inp s -> MonoR stk s s' -> Keeps s s' -> get_info s d <> None -> Solid s d -> Solid s' d.
Proof.
  intros inp stk s s' d HI HM HK Hd HS.
  assert (Hf : forall y, nfpath s d y -> old_fwd s' y = old_fwd s y).
  { intros y Hy. pose proof (Solid_path _ _ _ HS Hy) as Sy.
    pose proof (nfpath_stored _ _ _ _ _ _ HI Hd Hy) as Hys.
    unfold old_fwd. destruct (get_info s y) as [i|] eqn:Hi; [|congruence].
    destruct (HK y i Hi Sy) as [i' [Hi' (_ & F & _)]]. rewrite Hi', F. reflexivity. }
  destruct HS as [HG HR]. split.
  - eapply Good_frame; eauto. intros y z Hy Hz (i & j & v & t & A & B & C & D & E).
    pose proof (Solid_path _ _ _ (conj HG HR) Hy) as Sy.
    destruct (HK y i A Sy) as [i' [Hi' (V' & F' & O' & T')]].
    assert (Hz' : exists j', get_info s' z = Some j' /\ i_value j' = i_value j /\ (nkind z <> KFirewall -> i_tfc j' = i_tfc j)).
    { destruct (fw_or_nonfw _ _ _ _ _ _ HI B) as [Kz|Kz].
      - assert (Vz : sverified s z) by (apply HR; exists y; auto).
        destruct Vz as [j0 [J1 J2]]. assert (j0 = j) by congruence. subst j0.
        destruct (mr_ver _ _ _ HM z j B J2) as [j' [Hj' (_ & Q2 & _)]]. exists j'. split; [exact Hj'|].
        split; [exact Q2|]. intro K. contradiction.
      - assert (Sz : Solid s z) by (eapply Solid_step; eauto).
        destruct (HK z j B Sz) as [j' [Hj' (Q1 & _ & _ & Q4)]]. exists j'. auto. }
    destruct Hz' as [j' (Z1 & Z2 & Z3)].
    exists i', j', v, t. split; [exact Hi'|]. split; [exact Z1|]. split; [rewrite O'; exact C|].
    split; [congruence|]. intro K. rewrite (Z3 K). apply E. exact K.
  - intros F HF. eapply sverified_mono; [exact HM|]. apply HR. eapply reach_frame_inv; eauto.
Qed.

Lemma Keeps_trans : forall inp stk s s1 s2,
  FInv p rk inp s -> MonoR stk s s1 -> Keeps s s1 -> Keeps s1 s2 -> Keeps s s2.
Proof.
  intros inp stk s s1 s2 HI HM K1 K2 d i Hi HS.
  destruct (K1 d i Hi HS) as [i1 [Hi1 (A1 & A2 & A3 & A4)]].
  assert (S1 : Solid s1 d) by (eapply Solid_keep; eauto; congruence).
  destruct (K2 d i1 Hi1 S1) as [i2 [Hi2 (B1 & B2 & B3 & B4)]].
  exists i2. split; [exact Hi2|]. repeat split; congruence.
Qed.

(** * frames *)
Definition frR (fr : frame) (d : node) (x : Z) : Prop :=
  exists t, alookup (fr_callees fr) d = Some (Some (x, t)).

Record FrOk (s : state) (n : node) (fr : frame) : Prop := {
  fo_scc : fr_scc fr = false;
  fo_unordered : fr_unordered fr = false;
  fo_order : fr_order fr = map DSingle (map fst (fr_callees fr));
  fo_all : forall x o, In (x, o) (fr_callees fr) -> o <> None;
  fo_entry : forall d, In d (map fst (fr_callees fr)) ->
     exists i, alookup (fr_callees fr) d = Some (Some (i_value i, i_tfc i)) /\
               get_info s d = Some i /\ i_verified i = s_ts s;
  fo_tfc : forall d i, In d (map fst (fr_callees fr)) -> get_info s d = Some i ->
     (nkind d = KFirewall -> In d (fr_tfc fr)) /\
     (nkind d = KNormal -> forall F, In F (i_tfc i) -> In F (fr_tfc fr));
  fo_tfc_rk : forall F, In F (fr_tfc fr) -> (rk F < rk n)%nat;
}.

Lemma FrOk_mono : forall stk s s' n fr, MonoR stk s s' -> FrOk s n fr -> FrOk s' n fr.
Proof using Type.
  intros stk s s' n fr HM [A B C D E F G]. split; auto.
  - intros d Hd. destruct (E d Hd) as [i (E1 & E2 & E3)].
    destruct (mr_ver _ _ _ HM d i E2 E3) as [i' [Hi' (Q1 & Q2 & Q3 & _)]].
    exists i'. rewrite Q2, Q3. split; [exact E1|]. split; [exact Hi'|]. rewrite Q1, (mr_ts _ _ _ HM). exact E3.
  - intros d i' Hd Hi'. destruct (E d Hd) as [i (E1 & E2 & E3)].
    destruct (mr_ver _ _ _ HM d i E2 E3) as [i2 [Hi2 (Q1 & Q2 & Q3 & _)]].
    assert (i2 = i') by congruence. subst i2. rewrite Q3. apply F; assumption.
Qed.

Lemma FrOk_obs : forall s n fr d, FrOk s n fr ->
  alookup (fr_observations fr) d = match alookup (fr_callees fr) d with Some (Some o) => Some o | _ => None end.
Proof using Type. intros s n fr d H. unfold fr_observations. apply observations_lookup. apply (fo_all _ _ _ H). Qed.

Lemma FrOk_callees : forall s n fr, FrOk s n fr -> all_callees (fr_order fr) = map fst (fr_callees fr).
Proof using Type. intros s n fr H. rewrite (fo_order _ _ _ H). apply all_callees_single. Qed.

Lemma nfpath_last : forall s x y, nfpath s x y ->
  x = y \/ exists z, nfpath s x z /\ In y (old_fwd s z) /\ nonfw y.
Proof using Type.
  intros s x y H. induction H as [n|n d x Hd Hn Hp IH]; [left; reflexivity|right].
  destruct IH as [->|[z (A & B & C)]].
  - exists n. split; [constructor|auto].
  - exists z. split; [econstructor; eauto|auto].
Qed.

(** * [set_computed] *)
Lemma FInv_set_computed : forall inp s n e v fr bp rc,
  FInv p rk inp s -> is_exec_kind (nkind n) = true -> alookup p n = Some e ->
  ev (frR fr) e v ->
  (forall d, In d (map fst (fr_callees fr)) -> In d (expr_reads e)) ->
  FrOk s n fr -> ~ sverified s n ->
  ((rc = true /\ Stale s n) \/ (rc = false /\ get_info s n = None)) ->
  (nkind n = KFirewall -> forall i, get_info s n = Some i -> i_value i <> v ->
     (forall c, In n (old_fwd s c) -> sdirty s c n) /\
     (forall b a, nonfw b -> reach s b n -> In b (old_fwd s a) -> sdirty s a b)) ->
  FInv p rk inp (set_computed s n v fr bp rc) /\ Keeps s (set_computed s n v fr bp rc).
Proof.
  intros inp s n e v fr bp rc HI Hk He Hev Hkeys Hfr Hnv Hrc Hfw.
  set (s' := set_computed s n v fr bp rc).
  set (keys := map fst (fr_callees fr)) in *.
  set (ni := sc_info s n v fr bp).
  assert (Hget : forall m, get_info s' m = if node_eqb n m then Some ni else get_info s m)
    by (intro m; apply set_computed_get).
  assert (Hgetne : forall m, m <> n -> get_info s' m = get_info s m).
  { intros m Hm. rewrite Hget. destruct (node_eqb_spec n m); [congruence|reflexivity]. }
  assert (Hgetn : get_info s' n = Some ni) by (rewrite Hget, node_eqb_refl; reflexivity).
  assert (Hts : s_ts s' = s_ts s) by apply set_computed_ts.
  assert (Hd : forall a b, sdirty s' a b <-> sdirty s a b /\ ~ (rc = true /\ a = n /\ In b (old_fwd s n)))
    by (intros; apply set_computed_dirty).
  assert (Hcs : all_callees (fr_order fr) = keys) by (eapply FrOk_callees; eauto).
  assert (Hfwdn : old_fwd s' n = keys) by (unfold old_fwd; rewrite Hgetn; exact Hcs).
  assert (Hfwdne : forall m, m <> n -> old_fwd s' m = old_fwd s m).
  { intros m Hm. unfold old_fwd. rewrite (Hgetne m Hm). reflexivity. }
  assert (Hcal : forall x y, In x (callers_of s' y) <->
            (In x (callers_of s y) /\ ~ (x = n /\ In y (old_fwd s n))) \/ (x = n /\ In y keys)).
  { intros x y. unfold s'. rewrite set_computed_callers, Hcs. reflexivity. }
  assert (Hkrk : forall d, In d keys -> (rk d < rk n)%nat) by (intros d Hd0; eapply Hrk; eauto).
  assert (Hself : ~ In n keys) by (intro K; apply Hkrk in K; lia).
  assert (Hnd : forall b, ~ sdirty s' n b).
  { intros b K. apply Hd in K. destruct K as [K1 K2]. pose proof (fi_dirty_edge _ _ _ _ HI _ _ K1) as Hb.
    destruct Hrc as [[-> _]|[_ Hn]]; [apply K2; auto|]. unfold old_fwd in Hb. rewrite Hn in Hb. destruct Hb. }
  assert (Hdne : forall a b, a <> n -> (sdirty s' a b <-> sdirty s a b)).
  { intros a b Hne. rewrite Hd. split; [tauto|]. intro K. split; [exact K|]. intros (_ & K1 & _). contradiction. }
  assert (Hnocaller : get_info s n = None -> forall a, ~ In n (old_fwd s a)).
  { intros Hn a Ha. eapply (fi_target _ _ _ _ HI); eauto. }
  assert (Hver : forall m, m <> n -> (sverified s' m <-> sverified s m)).
  { intros m Hm. unfold sverified. rewrite (Hgetne m Hm), Hts. reflexivity. }
  assert (Hvern : sverified s' n).
  { exists ni. split; [exact Hgetn|]. unfold ni, sc_info. cbn [i_verified]. rewrite Hts. reflexivity. }
  assert (Hver1 : forall m, sverified s m -> sverified s' m).
  { intros m Hm. destruct (node_eq_dec m n) as [->|Hne]; [exact Hvern|]. apply Hver; assumption. }
  assert (Hkind : nkind n = KNormal \/ nkind n = KFirewall).
  { destruct (nkind n); try discriminate; auto. }
  (* paths from a consistent node do not pass through n *)
  assert (Hav : forall x, x <> n -> Good s x -> forall y, nfpath s x y -> y <> n).
  { intros x Hx HG y Hy ->. destruct (nfpath_last _ _ _ Hy) as [E|[z (A & B & C)]]; [contradiction|].
    destruct Hrc as [[_ HS]|[_ Hn]].
    - eapply Stale_not_Good; eauto.
    - eapply Hnocaller; eauto. }
  assert (Hpath : forall x, (forall y, nfpath s x y -> y <> n) -> forall y, nfpath s' x y <-> nfpath s x y).
  { intros x Hx y. split; intro K.
    - eapply nfpath_frame_inv; [exact K|]. intros z Hz. apply Hfwdne. apply Hx. exact Hz.
    - eapply nfpath_frame; [exact K|]. intros z Hz. apply Hfwdne. apply Hx. exact Hz. }
  (* consistency is kept below nodes that do not see a change of n *)
  assert (HGk : forall x, x <> n -> Good s x ->
            (forall y, nfpath s x y -> In n (old_fwd s y) -> exists i, get_info s n = Some i /\ i_value i = v) ->
            Good s' x).
  { intros x Hx HG Hval. pose proof (Hav x Hx HG) as Hax.
    eapply Good_frame; [exact HG| |].
    - intros y Hy. apply Hfwdne. apply Hax. exact Hy.
    - intros y z Hy Hz (i & j & v0 & t & A & B & C & D & E).
      assert (Hyn : y <> n) by (apply Hax; exact Hy).
      destruct (node_eq_dec z n) as [->|Hzn].
      + destruct (Hval y Hy Hz) as [i0 [Hi0 Hv0]]. assert (i0 = j) by congruence. subst i0.
        exists i, ni, v0, t. split; [rewrite (Hgetne y Hyn); exact A|]. split; [exact Hgetn|].
        split; [exact C|]. split; [unfold ni, sc_info; cbn [i_value]; congruence|].
        intro Kn. exfalso. apply (Hax n); [|reflexivity]. eapply nfpath_snoc; eauto.
        destruct Hkind as [K0|K0]; [unfold nonfw; rewrite K0; reflexivity|contradiction].
      + exists i, j, v0, t. rewrite (Hgetne y Hyn), (Hgetne z Hzn). auto. }
  (* the new edges of n *)
  assert (Hentry : forall d, In d keys -> exists j, get_info s d = Some j /\ i_verified j = s_ts s /\
                     alookup (i_obs ni) d = Some (i_value j, i_tfc j) /\ d <> n).
  { intros d Hdk. destruct (fo_entry _ _ _ Hfr d Hdk) as [j (A & B & C)]. exists j.
    split; [exact B|]. split; [exact C|]. split.
    - unfold ni, sc_info. cbn [i_obs]. rewrite (FrOk_obs _ _ _ d Hfr), A. reflexivity.
    - intro E. subst. contradiction. }
  assert (Hnew : forall d, In d keys -> edgeok s' n d /\ (nonfw d -> Good s' d)).
  { intros d Hdk. destruct (Hentry d Hdk) as [j (A & B & C & D)]. split.
    - exists ni, j, (i_value j), (i_tfc j). split; [exact Hgetn|]. split; [rewrite (Hgetne d D); exact A|].
      split; [exact C|]. split; [reflexivity|]. intros _ x. reflexivity.
    - intro Hnf. assert (Vd : sverified s d) by (exists j; auto).
      apply HGk; [exact D|apply (fi_G _ _ _ _ HI); exact Vd|].
      intros y Hy Hny. exfalso. destruct Hkind as [Kn|Kn].
      + apply (Hav d D (fi_G _ _ _ _ HI d Vd) n); [|reflexivity]. eapply nfpath_snoc; eauto.
        unfold nonfw. rewrite Kn. reflexivity.
      + apply Hnv. eapply (fi_T _ _ _ _ HI); [exact Vd|]. exists y. auto. }
  assert (HfrS : forall d x, frR fr d x -> FSpecI p inp d x).
  { intros d x [t Hx]. destruct (fo_entry _ _ _ Hfr d (alookup_keys _ _ _ Hx)) as [j (A & B & C)].
    assert (E : x = i_value j) by congruence. rewrite E. eapply fi_V; eauto. }
  split.
  { split.
  - (* fi_kind *)
    intros m i Hi. rewrite Hget in Hi. destruct (node_eqb_spec n m) as [<-|Hne].
    + inversion Hi. subst i. right. split; [exact Hk|]. exists e. split; [exact He|]. split.
      * eapply ev_mono; [exact Hev|]. intros d x _ [t Hx]. exists t. unfold ni, sc_info. cbn [i_obs].
        rewrite (FrOk_obs _ _ _ d Hfr), Hx. reflexivity.
      * unfold ni, sc_info. cbn [i_fwd]. rewrite Hcs. exact Hkeys.
    + eapply fi_kind; eauto.
  - (* fi_obs *)
    intros m i d Hi Hdm. rewrite Hget in Hi. destruct (node_eqb_spec n m) as [<-|Hne].
    + inversion Hi. subst i. unfold ni, sc_info in Hdm. cbn [i_fwd] in Hdm. rewrite Hcs in Hdm.
      destruct (Hentry d Hdm) as [j (_ & _ & C & _)]. eexists. exact C.
    + eapply fi_obs; eauto.
  - (* fi_obs_fwd *)
    intros m i d o Hi Ho. rewrite Hget in Hi. destruct (node_eqb_spec n m) as [<-|Hne].
    + inversion Hi. subst i. unfold ni, sc_info in *. cbn [i_fwd i_obs] in *. rewrite Hcs.
      rewrite (FrOk_obs _ _ _ d Hfr) in Ho. destruct (alookup (fr_callees fr) d) as [[o'|]|] eqn:Ec; try discriminate.
      eapply alookup_keys. exact Ec.
    + eapply fi_obs_fwd; eauto.
  - (* fi_target *)
    intros m d Hdm. rewrite Hget. destruct (node_eqb n d); [discriminate|].
    destruct (node_eq_dec m n) as [->|Hne].
    + rewrite Hfwdn in Hdm. destruct (Hentry d Hdm) as [j (A & _)]. congruence.
    + rewrite (Hfwdne m Hne) in Hdm. eapply fi_target; eauto.
  - (* fi_bwd *)
    intros m d. rewrite Hcal. destruct (node_eq_dec m n) as [->|Hne].
    + rewrite Hfwdn. split.
      * intros [[K1 K2]|[_ K]]; [|exact K]. exfalso. apply K2. split; [reflexivity|].
        apply (fi_bwd _ _ _ _ HI). exact K1.
      * intro K. right. auto.
    + rewrite (Hfwdne m Hne), (fi_bwd _ _ _ _ HI). split.
      * intros [[K _]|[K _]]; [exact K|contradiction].
      * intro K. left. split; [exact K|]. intros [K1 _]. contradiction.
  - (* fi_dirty_edge *)
    intros a b K. destruct (node_eq_dec a n) as [->|Hne]; [exfalso; eapply Hnd; eauto|].
    rewrite (Hfwdne a Hne). apply Hdne in K; [|exact Hne]. eapply fi_dirty_edge; eauto.
  - (* fi_ts *)
    intros m i Hi. rewrite Hget in Hi. rewrite Hts. destruct (node_eqb_spec n m) as [<-|Hne].
    + inversion Hi. unfold ni, sc_info. cbn [i_verified]. lia.
    + eapply fi_ts; eauto.
  - (* fi_tfc *)
    intros m i d v0 t Hi Ho. rewrite Hget in Hi. destruct (node_eqb_spec n m) as [<-|Hne].
    + inversion Hi. subst i. unfold ni, sc_info in *. cbn [i_obs i_tfc] in *.
      rewrite (FrOk_obs _ _ _ d Hfr) in Ho. destruct (alookup (fr_callees fr) d) as [[o'|]|] eqn:Ec; try discriminate.
      inversion Ho. subst o'. pose proof (alookup_keys _ _ _ Ec) as Hdk.
      destruct (fo_entry _ _ _ Hfr d Hdk) as [j (A & B & C)].
      assert (Et : t = i_tfc j) by congruence. subst t.
      destruct (fo_tfc _ _ _ Hfr d j Hdk B) as [T1 T2]. split; [exact T1|exact T2].
    + eapply fi_tfc; eauto.
  - (* fi_tfc_rk *)
    intros m i F Hi HF. rewrite Hget in Hi. destruct (node_eqb_spec n m) as [<-|Hne].
    + inversion Hi. subst i. unfold ni, sc_info in HF. cbn [i_tfc] in HF. apply (fo_tfc_rk _ _ _ Hfr). exact HF.
    + eapply fi_tfc_rk; eauto.
  - (* fi_C *)
    intros a b Hab Hclean. destruct (node_eq_dec a n) as [->|Hne].
    + rewrite Hfwdn in Hab. apply Hnew. exact Hab.
    + rewrite (Hfwdne a Hne) in Hab.
      assert (Hcl : ~ sdirty s a b) by (intro K; apply Hclean; apply Hdne; assumption).
      destruct (fi_C _ _ _ _ HI a b Hab Hcl) as [Eab Gb].
      destruct (node_eq_dec b n) as [->|Hbn].
      * (* a clean edge into n: n is a firewall whose value did not change *)
        destruct Eab as (i & j & v0 & t & A & B & C & D & E).
        destruct Hkind as [Kn|Kn].
        -- exfalso. destruct Hrc as [[_ HS]|[_ Hn]]; [|congruence].
           apply Hcl. eapply Stale_callers_dirty; eauto. unfold nonfw. rewrite Kn. reflexivity.
        -- split.
           ++ exists i, ni, v0, t. split; [rewrite (Hgetne a Hne); exact A|]. split; [exact Hgetn|].
              split; [exact C|]. split; [|intro K; contradiction].
              unfold ni, sc_info. cbn [i_value]. destruct (Z.eq_dec (i_value j) v) as [Ev|Ev]; [congruence|].
              exfalso. apply Hcl. apply (proj1 (Hfw Kn j B Ev)). exact Hab.
           ++ intro K. exfalso. eapply nonfw_not_fw; eauto.
      * split.
        -- destruct Eab as (i & j & v0 & t & A & B & C & D & E).
           exists i, j, v0, t. rewrite (Hgetne a Hne), (Hgetne b Hbn). auto.
        -- intro Hnf. specialize (Gb Hnf). apply HGk; [exact Hbn|exact Gb|].
           intros y Hy Hny. destruct Hkind as [Kn|Kn].
           ++ exfalso. apply (Hav b Hbn Gb n); [|reflexivity]. eapply nfpath_snoc; eauto.
              unfold nonfw. rewrite Kn. reflexivity.
           ++ assert (exists j, get_info s n = Some j) as [j Hj].
              { destruct (get_info s n) eqn:Hj0; [eauto|]. exfalso. eapply (fi_target _ _ _ _ HI); eauto. }
              exists j. split; [exact Hj|]. destruct (Z.eq_dec (i_value j) v) as [Ev|Ev]; [exact Ev|].
              exfalso. apply Hcl. apply (proj2 (Hfw Kn j Hj Ev) b a Hnf); [|exact Hab]. exists y. auto.
  - (* fi_G *)
    intros x Hx. destruct (node_eq_dec x n) as [->|Hne].
    + apply Good_intro. intros d Hdn. rewrite Hfwdn in Hdn. apply Hnew. exact Hdn.
    + apply Hver in Hx; [|exact Hne]. pose proof (fi_G _ _ _ _ HI x Hx) as Gx.
      apply HGk; [exact Hne|exact Gx|]. intros y Hy Hny. exfalso. destruct Hkind as [Kn|Kn].
      * apply (Hav x Hne Gx n); [|reflexivity]. eapply nfpath_snoc; eauto. unfold nonfw. rewrite Kn. reflexivity.
      * apply Hnv. eapply (fi_T _ _ _ _ HI); [exact Hx|]. exists y. auto.
  - (* fi_T *)
    assert (Hold : forall x F, x <> n -> sverified s x -> reach s' x F -> sverified s' F).
    { intros x F Hne Hx [y (A & B & C)]. pose proof (fi_G _ _ _ _ HI x Hx) as Gx.
      pose proof (Hav x Hne Gx) as Hax. apply (Hpath x Hax) in A.
      rewrite (Hfwdne y (Hax y A)) in B. apply Hver1. eapply (fi_T _ _ _ _ HI); [exact Hx|]. exists y. auto. }
    intros x F Hx HR. destruct (node_eq_dec x n) as [->|Hne].
    + destruct HR as [y (A & B & C)]. inversion A; subst.
      * rewrite Hfwdn in B. destruct (Hentry F B) as [j (J1 & J2 & _ & J4)]. apply Hver1. exists j. auto.
      * rewrite Hfwdn in H. destruct (Hentry d H) as [j (J1 & J2 & _ & J4)].
        apply (Hold d F J4); [exists j; auto|]. exists y. auto.
    + apply (Hold x F Hne); [apply Hver; assumption|exact HR].
  - (* fi_V *)
    intros m i Hi Hv. rewrite Hget in Hi. destruct (node_eqb_spec n m) as [<-|Hne].
    + inversion Hi. subst i. unfold ni, sc_info. cbn [i_value]. eapply FSpecI_exec; eauto.
      eapply ev_fsev; [exact Hev|]. intros d x _ Hx. apply HfrS. exact Hx.
    + eapply fi_V; eauto. congruence.
  - (* fi_PV *)
    intros x Hx. unfold s' in Hx. rewrite set_computed_visited in Hx.
    destruct (node_eq_dec x n) as [->|Hne]; [left; exact Hvern|].
    destruct (fi_PV _ _ _ _ HI x Hx) as [K|[Kin K]]; [left; apply Hver1; exact K|].
    destruct (in_dec node_eq_dec x keys) as [Hk0|Hk0].
    + left. destruct (Hentry x Hk0) as [j (J1 & J2 & _)]. apply Hver1. exists j. auto.
    + right. split; [exact Kin|]. intros c Hc. apply Hcal in Hc. destruct Hc as [[Hc Hc2]|[_ Hc]]; [|contradiction].
      destruct (K c Hc) as [K1 K2]. split.
      * apply Hd. split; [exact K1|]. intros (_ & -> & K3). apply Hc2. auto.
      * intro Hn. unfold s'. rewrite set_computed_visited. auto. }
  (* Keeps *)
  intros d i Hi [HG _]. destruct (node_eq_dec d n) as [->|Hne].
  - exfalso. destruct Hrc as [[_ HS]|[_ Hn]]; [|congruence]. eapply Stale_not_Good; eauto. constructor.
  - exists i. split; [rewrite (Hgetne d Hne); exact Hi|repeat split].
Qed.
End Exec.
