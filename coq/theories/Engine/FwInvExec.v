(** [Keeps] composes; frames of running executors; preservation of [FInv] by [set_computed]. *)
From QV Require Import Common.Prelude Engine.Model Engine.Core Engine.CoreSpec Engine.CoreInvBase
  Engine.CoreInvSem Engine.Fw Engine.FwBase Engine.FwMono Engine.FwSpec Engine.FwSem Engine.FwInv
  Engine.FwInvState.
Open Scope Z_scope.

Lemma all_callees_single : forall l, all_callees (map DSingle l) = l.
Proof. induction l as [|x r IH]; cbn; [reflexivity|]. unfold all_callees in IH. rewrite IH. reflexivity. Qed.

(** the observations of a frame all of whose entries are filled *)
Lemma observations_lookup : forall (l : list (node * option observation)) d,
  (forall x o, In (x, o) l -> o <> None) ->
  alookup (flat_map (fun '(n, o) => match o with Some x => [(n, x)] | None => [] end) l) d =
  match alookup l d with Some (Some o) => Some o | _ => None end.
Proof.
  induction l as [|[k o] r IH]; intros d H; cbn [flat_map alookup]; [reflexivity|].
  destruct o as [o|]; [|exfalso; apply (H k None); [left; reflexivity|reflexivity]].
  cbn [app alookup]. destruct (node_eqb k d); [reflexivity|]. apply IH.
  intros x o' Hx. apply (H x o'). right. exact Hx.
Qed.

Section Exec.
Variable p : program.
Variable rk : node -> nat.
Hypothesis Hrk : forall n e d, alookup p n = Some e -> In d (expr_reads e) -> (rk d < rk n)%nat.

(** * [Keeps] *)
Lemma Solid_keep : forall inp stk s s' d,
  FInv p rk inp s -> MonoR stk s s' -> Keeps s s' -> get_info s d <> None -> Solid s d -> Solid s' d.
Proof.
  intros inp stk s s' d HI HM HK Hd HS.
  assert (Hf : forall y, nfpath s d y -> old_fwd s' y = old_fwd s y).
  { intros y Hy. pose proof (Solid_path _ _ _ HS Hy) as Sy.
    pose proof (nfpath_stored _ _ _ _ _ _ HI Hd Hy) as Hys.
    unfold old_fwd. destruct (get_info s y) as [i|] eqn:Hi; [|congruence].
    destruct (HK y i Hi Sy) as [i' [Hi' (_ & F & _)]]. rewrite Hi', F. reflexivity. }
  destruct HS as [HG HR]. split.
  - eapply Good_frame; eauto. intros y z Hy Hz (i & j & v & t & A & B & C & D & E).
    pose proof (Solid_path _ _ _ (conj HG HR) Hy) as Sy.
    destruct (HK y i A Sy) as [i' [Hi' (V' & F' & O' & T')]].
    assert (Hz' : exists j', get_info s' z = Some j' /\ i_value j' = i_value j /\ (nkind z = KNormal -> i_tfc j' = i_tfc j)).
    { destruct (fw_or_nonfw _ _ _ _ _ _ HI B) as [Kz|Kz].
      - assert (Vz : sverified s z) by (apply HR; exists y; auto).
        destruct Vz as [j0 [J1 J2]]. assert (j0 = j) by congruence. subst j0.
        destruct (mr_ver _ _ _ HM z j B J2) as [j' [Hj' (_ & Q2 & _)]]. exists j'. split; [exact Hj'|].
        split; [exact Q2|]. intro K. rewrite Kz in K. discriminate.
      - assert (Sz : Solid s z) by (eapply Solid_step; eauto).
        destruct (HK z j B Sz) as [j' [Hj' (Q1 & _ & _ & Q4)]]. exists j'. auto. }
    destruct Hz' as [j' (Z1 & Z2 & Z3)].
    exists i', j', v, t. split; [exact Hi'|]. split; [exact Z1|]. split; [rewrite O'; exact C|].
    split; [congruence|]. intro K. rewrite (Z3 K). apply E. exact K.
  - intros F HF. eapply sverified_mono; [exact HM|]. apply HR. eapply reach_frame_inv; eauto.
Qed.

Lemma Keeps_trans : forall inp stk s s1 s2,
  FInv p rk inp s -> MonoR stk s s1 -> Keeps s s1 -> Keeps s1 s2 -> Keeps s s2.
Proof.
  intros inp stk s s1 s2 HI HM K1 K2 d i Hi HS.
  destruct (K1 d i Hi HS) as [i1 [Hi1 (A1 & A2 & A3 & A4)]].
  assert (S1 : Solid s1 d) by (eapply Solid_keep; eauto; congruence).
  destruct (K2 d i1 Hi1 S1) as [i2 [Hi2 (B1 & B2 & B3 & B4)]].
  exists i2. split; [exact Hi2|]. repeat split; congruence.
Qed.

(** * frames *)
Definition frR (fr : frame) (d : node) (x : Z) : Prop :=
  exists t, alookup (fr_callees fr) d = Some (Some (x, t)).

Record FrOk (s : state) (n : node) (fr : frame) : Prop := {
  fo_scc : fr_scc fr = false;
  fo_unordered : fr_unordered fr = false;
  fo_order : fr_order fr = map DSingle (map fst (fr_callees fr));
  fo_all : forall x o, In (x, o) (fr_callees fr) -> o <> None;
  fo_entry : forall d, In d (map fst (fr_callees fr)) ->
     exists i, alookup (fr_callees fr) d = Some (Some (i_value i, i_tfc i)) /\
               get_info s d = Some i /\ i_verified i = s_ts s;
  fo_tfc : forall d i, In d (map fst (fr_callees fr)) -> get_info s d = Some i ->
     (nkind d = KFirewall -> In d (fr_tfc fr)) /\
     (nkind d = KNormal -> forall F, In F (i_tfc i) -> In F (fr_tfc fr));
  fo_tfc_rk : forall F, In F (fr_tfc fr) -> (rk F < rk n)%nat;
}.

Lemma FrOk_mono : forall stk s s' n fr, MonoR stk s s' -> FrOk s n fr -> FrOk s' n fr.
Proof using Type.
  intros stk s s' n fr HM [A B C D E F G]. split; auto.
  - intros d Hd. destruct (E d Hd) as [i (E1 & E2 & E3)].
    destruct (mr_ver _ _ _ HM d i E2 E3) as [i' [Hi' (Q1 & Q2 & Q3 & _)]].
    exists i'. rewrite Q2, Q3. split; [exact E1|]. split; [exact Hi'|]. rewrite Q1, (mr_ts _ _ _ HM). exact E3.
  - intros d i' Hd Hi'. destruct (E d Hd) as [i (E1 & E2 & E3)].
    destruct (mr_ver _ _ _ HM d i E2 E3) as [i2 [Hi2 (Q1 & Q2 & Q3 & _)]].
    assert (i2 = i') by congruence. subst i2. rewrite Q3. apply F; assumption.
Qed.

Lemma FrOk_obs : forall s n fr d, FrOk s n fr ->
  alookup (fr_observations fr) d = match alookup (fr_callees fr) d with Some (Some o) => Some o | _ => None end.
Proof using Type. intros s n fr d H. unfold fr_observations. apply observations_lookup. apply (fo_all _ _ _ H). Qed.

Lemma FrOk_callees : forall s n fr, FrOk s n fr -> all_callees (fr_order fr) = map fst (fr_callees fr).
Proof using Type. intros s n fr H. rewrite (fo_order _ _ _ H). apply all_callees_single. Qed.
End Exec.
