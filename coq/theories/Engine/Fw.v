(** The engine model of [Engine/Model.v] specialised to programs with inputs, Normal queries
    and FIREWALL queries (no projections, no external inputs, no unordered groups): dirty
    propagation stops at firewalls, every node records its transitive firewall callees, the
    root of a request (and the repair of a firewall on behalf of a root) repairs them before
    trusting clean edges, a re-executed firewall whose value changed propagates dirt in the
    compute phase (sharing the per-epoch visited set), new dependencies are repaired
    pedantically.  Same state, same functions and same names as the full model minus the
    parts that cannot arise; tied to the code by its own correspondence run (histories
    generated in `fw` mode).  Soundness: [Engine/FwSound.v]. *)
From QV Require Import Common.Prelude Engine.Model.
Open Scope Z_scope.

(** results, callers and frames are those of the full model; only the functions differ *)

Section FRun.
Variable p : program.

Definition fbody (n : node) : option expr := alookup p n.

Fixpoint fquery_for (fuel : nat) (stk : list node) (c : caller) (fr : option frame) (n : node) (s : state)
  {struct fuel} : res qres :=
  match fuel with
  | O => OutOfFuel
  | S f =>
    (* a dependency the executor did not read in its previous run, or whose transitive firewall
       callees are no longer the ones accounted for, is repaired pedantically *)
    let c := match c with
             | CQuery b true false prev =>
                 match alookup prev n with
                 | None => CQuery b true true prev
                 | Some seen =>
                     match get_info s n with
                     | Some ci => if nset_eqb (i_tfc ci) seen then c else CQuery b true true prev
                     | None => c
                     end
                 end
             | _ => c
             end in
    (* register_callee, with the two assertions of register_callee.rs *)
    let reg : res (option frame) :=
      match c, fr with
      | CQuery b _ _ _, Some fr0 =>
          Ok (Some (fr_register fr0 n))
      | _, _ => Ok fr
      end in
    let* fr1 := reg in
    (* exit_scc: the callee is being computed *)
    if nmem n stk then
      match c with
      | CQuery b _ _ _ =>
          let marks := upto stk n in
          Ok (QCyclic, frame_mark_if fr1 (Some b) marks, marks, s)
      | _ => Stuck
      end
    else
    match fast_path s c fr1 n with
    | (FHit v, fr2) =>
        Ok (if frame_in_scc fr2 then QCyclic else QValue v, fr2, [], s)
    | (FSlow sp, _) =>
        (* the root of a request repairs the recorded transitive firewall callees first *)
        let* s1 :=
          match c, sp, get_info s n with
          | (CUser | CRepairFirewall), SRepair, Some i =>
              (fix go (ts : list node) (s : state) : res state :=
                 match ts with
                 | [] => Ok s
                 | t :: r => let* (_, _, _, s') := fquery_for f stk CRepairFirewall None t s in go r s'
                 end) (i_tfc i) s
          | _, _, _ => Ok s
          end in
        (* get_write_guard: double check, then process_query, then retry the fast path *)
        let* (marks, s2) :=
          match sp with
          | SBackward =>
              (* a re-executed firewall whose value changed is marked "backward projection pending";
                 the next root request for it runs the (here: empty) set of projection callers and
                 clears the mark *)
              match get_info s1 n with
              | Some i => Ok ([], put_info s1 n (mkInfo (i_verified i) (i_value i) (i_tfc i) (i_fwd i) (i_obs i) None))
              | None => Ok ([], s1)
              end
          | _ =>
              match get_info s1 n with
              | Some i =>
                  if (i_verified i =? s_ts s1)%N then Ok ([], s1)
                  else frepair f stk c n s1
              | None => fexecute f stk c n false empty_frame s1
              end
          end in
        (* retry: one more round of the loop, now expected to hit *)
        match fast_path s2 c fr1 n with
        | (FHit v, fr2) =>
            let fr3 := frame_mark_if fr2 (caller_node c) marks in
            Ok (if frame_in_scc fr3 then QCyclic else QValue v, fr3, marks, s2)
        | (FSlow _, _) =>
            let* (o, fr2, m2, s3) := fquery_for f stk c fr1 n s2 in
            Ok (o, frame_mark_if fr2 (caller_node c) marks, marks ++ m2, s3)
        end
    end
  end

(** execute_query + computing_lock_to_computed; [fr0] is the computing entry (fresh, or the
    one used during frepair after clear_dependencies); returns the scc marks it received *)
with fexecute (fuel : nat) (stk : list node) (c : caller) (n : node) (recompute : bool) (fr0 : frame) (s : state)
  {struct fuel} : res (list node * state) :=
  match fuel with
  | O => OutOfFuel
  | S f =>
    let pedantic := match c with CQuery _ _ pd _ => pd | _ => false end in
    let prev := match get_info s n with Some i => map (fun '(x, o) => (x, snd o)) (i_obs i) | None => [] end in
    let s0 := set_log s (n :: s_log s) in
    let me := CQuery n true pedantic prev in
    let* (out, fr1, marks, s1) :=
      match nkind n with
      | KInput | KExternal | KProjection => Panic 4
      | _ =>
          match fbody n with
          | None => Panic 4
          | Some e => feval f (n :: stk) me e fr0 s0
          end
      end in
    let fr2 := if nmem n marks then fr_mark_scc fr1 else fr1 in
    let v := if fr_scc fr2 then scc_default (nkind n)
             else match out with EVal z => z | EUnwind => scc_default (nkind n) end in
    (* a recomputed firewall / projection whose value changed propagates dirt into the same batch *)
    let old := get_info s1 n in
    let changed := match old with
                   | Some i => recompute && kind_eqb (nkind n) KFirewall && negb (i_value i =? v)
                   | None => false end in
    let* s2 := if changed then propagate (S f * 4) s1 [n] else Ok s1 in
    Ok (marks, set_computed s2 n v fr2 changed recompute)
  end

(** the executor: evaluation of the node's expression *)
with feval (fuel : nat) (stk : list node) (me : caller) (e : expr) (fr : frame) (s : state)
  {struct fuel} : res (eout * frame * list node * state) :=
  match fuel with
  | O => OutOfFuel
  | S f =>
    let read (n : node) (fr : frame) (s : state) : res (eout * frame * list node * state) :=
      let* (o, fr', marks, s') := fquery_for f stk me (Some fr) n s in
      let fr'' := match fr' with Some x => x | None => fr end in
      match o with
      | QValue (Some z) => Ok (EVal z, fr'', marks, s')
      | _ => Ok (EUnwind, fr'', marks, s')
      end in
    let bin (a b : expr) (op : Z -> Z -> Z) :=
      let* (x, fr1, m1, s1) := feval f stk me a fr s in
      match x with
      | EUnwind => Ok (EUnwind, fr1, m1, s1)
      | EVal xv =>
          let* (y, fr2, m2, s2) := feval f stk me b fr1 s1 in
          match y with
          | EUnwind => Ok (EUnwind, fr2, m1 ++ m2, s2)
          | EVal yv => Ok (EVal (op xv yv), fr2, m1 ++ m2, s2)
          end
      end in
    match e with
    | EConst z => Ok (EVal z, fr, [], s)
    | ERead n => read n fr s
    | EAdd a b => bin a b Z.add
    | EMul a b => bin a b Z.mul
    | ELt a b => bin a b (fun x y => if x <? y then 1 else 0)
    | EMod a m =>
        let* (x, fr1, m1, s1) := feval f stk me a fr s in
        match x with EUnwind => Ok (EUnwind, fr1, m1, s1) | EVal xv => Ok (EVal (xv mod m), fr1, m1, s1) end
    | EIf c a b =>
        let* (x, fr1, m1, s1) := feval f stk me c fr s in
        match x with
        | EUnwind => Ok (EUnwind, fr1, m1, s1)
        | EVal xv =>
            let* (y, fr2, m2, s2) := feval f stk me (if xv =? 0 then b else a) fr1 s1 in
            Ok (y, fr2, m1 ++ m2, s2)
        end
    | EGroup _ => Panic 6          (* unordered groups are outside this fragment *)
    end
  end

(** repair_query: should_recompute_query + recompute_decision_based_on_forward_edges *)
with frepair (fuel : nat) (stk : list node) (c : caller) (n : node) (s : state)
  {struct fuel} : res (list node * state) :=
  match fuel with
  | O => OutOfFuel
  | S f =>
    match get_info s n with
    | None => Panic 2
    | Some i =>
      match c with
      | _ =>
        let pedantic := match c with CQuery _ _ pd _ => pd | _ => false end in
        (* check_callee for every forward edge, in order; stop at the first Recompute *)
        let* (d, fr1, marks, s1) :=
          (fix walk (cs : list node) (rtfc : bool) (cleaned : list node) (fr : frame) (ms : list node) (s : state)
             : res (decision * frame * list node * state) :=
             match cs with
             | [] => Ok (DClean rtfc cleaned, fr, ms, s)
             | cal :: r =>
                 let dirty := emem (n, cal) (s_dirty s) in
                 if negb dirty && negb pedantic
                 then walk r rtfc cleaned fr ms s
                 else if (match alookup (i_obs i) cal with None => true | Some _ => false end)
                 then Ok (DRecompute, fr, ms, s)     (* the previous run was cut at this (cyclic) dependency *)
                 else
                   let pedantic_cal :=
                     pedantic ||
                     (negb (kind_eqb (nkind cal) KInput) && negb (kind_eqb (nkind cal) KFirewall) &&
                      match get_info s cal, alookup (i_obs i) cal with
                      | Some ci, Some (_, otfc) => negb (nset_eqb (i_tfc ci) otfc)
                      | _, _ => false
                      end) in
                   let* (fr1, m1, s1) :=
                     if kind_eqb (nkind cal) KInput then Ok (fr, [], s)
                     else
                       let* (_, fr', m', s') := fquery_for f (n :: stk) (CQuery n false pedantic_cal []) (Some fr) cal s in
                       Ok (match fr' with Some x => x | None => fr end, m', s') in
                   match get_info s1 cal, alookup (i_obs i) cal with
                   | Some ci, Some (ov, otfc) =>
                       if negb (i_value ci =? ov) then Ok (DRecompute, fr1, ms ++ m1, s1)
                       else
                         let tdiff := negb (kind_eqb (nkind cal) KFirewall) && negb (nset_eqb (i_tfc ci) otfc) in
                         walk r (rtfc || tdiff) (if dirty then cleaned ++ [cal] else cleaned) fr1 (ms ++ m1) s1
                   | _, _ => Panic 2
                   end
             end) (all_callees (i_fwd i)) false [] empty_frame [] s in
        let fr2 := if nmem n marks then fr_mark_scc fr1 else fr1 in
        match d with
        | DRecompute =>
            let* (m2, s2) := fexecute f stk c n true (fr_clear fr2) s1 in
            Ok (marks ++ m2, s2)
        | DClean false cleaned => Ok (marks, clean_query s1 n cleaned None)
        | DClean true cleaned =>
            let new_tfc :=
              fold_left (fun acc x =>
                           match get_info s1 x with
                           | Some xi => nunion acc (tfc_contribution x xi)
                           | None => acc end)
                        (all_callees (i_fwd i)) [] in
            Ok (marks, clean_query s1 n cleaned (Some new_tfc))
        end
      end
    end
  end.

End FRun.

(** histories: as in the full model, without refresh / world / external inputs *)
Definition fstep_f (fuel : nat) (p : program) (s : state) (o : op) : state * opres :=
  let s := set_log s [] in
  match o with
  | OSetWorld _ _ => (s, mkRes RUnit [] None)
  | ORestart => (restart s, mkRes RUnit [] None)
  | OQuery n =>
      match fquery_for p fuel [] CUser None n s with
      | Ok (QValue (Some z), _, _, s') => (s', mkRes (RValue z) (rev (s_log s')) (Some (s_stat s')))
      | Ok (_, _, _, s') => (s', mkRes RPanic (rev (s_log s')) (Some (s_stat s')))
      | Panic _ => (s, mkRes RPanic [] None)
      | OutOfFuel => (s, mkRes RFuel [] None)
      | Stuck => (s, mkRes RStuck [] None)
      end
  | OSession sets _ =>
      let s0 := set_ts s (s_ts s + 1)%N in
      let '(s1, rs, batch) :=
        fold_left (fun '(s, rs, batch) '(v, x) =>
                     let n := mkNode KInput v in
                     let r := match get_info s n with
                              | None => SFresh
                              | Some i => if i_value i =? x then SUnchanged else SUpdated end in
                     (set_computed_input s n x, rs ++ [r],
                      match r with SUpdated => batch ++ [n] | _ => batch end))
                  sets (s0, [], []) in
      let s3 := set_visited (set_stat s1 0%N) [] in
      match propagate (fuel * 10) s3 batch with
      | Ok s4 => (s4, mkRes (RSession rs) [] None)
      | _ => (s3, mkRes RFuel [] None)
      end
  end.
Fixpoint frun_history_f (fuel : nat) (p : program) (s : state) (ops : list op) : list opres :=
  match ops with
  | [] => []
  | o :: r => let '(s', x) := fstep_f fuel p s o in x :: frun_history_f fuel p s' r
  end.
Definition frun_history := frun_history_f fuel0.
