(** C11 — store backends honour the key-value contract and isolate keys.
    This file only pins statements and reports their assumptions.

    Vocabulary (Kv/Model.v): [wide_key b l d k] is the physical key of a wide-column
    cell on backend [b] (RocksDB / Fjall with its non-empty padding) for layout [l],
    encoded discriminant [d] and encoded key [k]; [member_key k e = le64 |k| ++ k ++ e];
    [prefix_upper_bound] is the exclusive scan bound computed by the RocksDB backend;
    a physical column is a byte map in bytewise key order; [commit] applies a list of
    physical operations in one step; [phys b] maps a logical operation to its physical
    form; [ref_wide] / [ref_mem] are the logical reference (last write per cell wins). *)
From QV Require Import Common.Prelude Codec.Model Codec.RoundTrip Codec.PrefixFree.
From QV Require Import Kv.Model Kv.Scheme Kv.Store Kv.Examples.
Open Scope N_scope.

(** The encodings produced by the serializer for the well-typed values of any one type
    form a prefix-free set (from the C12 round-trip theorem); these are the codes the
    discriminant and key parts below are taken from. *)
Theorem C11_codes_prefix_free :
  forall (H : N -> val -> N) (Play : N -> val -> Prop),
    (forall id v1 v2, Play id v1 -> Play id v2 -> H id v1 = H id v2 -> v1 = v2) ->
    (forall id v, Play id v -> H id v < 2 ^ 128) ->
    forall t, prefix_free (code_of H Play t).
Proof. exact codes_prefix_free. Qed.

(** Distinct (discriminant, key) pairs give distinct physical keys, in both layouts and
    on both backends (Fjall's padding of an empty key encoding preserves it). *)
Theorem C11_wide_injective : forall b l (D K : list N -> Prop),
  prefix_free D -> prefix_free K ->
  forall d1 k1 d2 k2, D d1 -> D d2 -> K k1 -> K k2 ->
    wide_key b l d1 k1 = wide_key b l d2 k2 -> d1 = d2 /\ k1 = k2.
Proof. exact wide_injective. Qed.

(** A member key of [k'] carries the scan prefix of [k] only if [k' = k] — for arbitrary
    byte strings (prefixes, extensions, empty) shorter than 2^64 - 1 bytes. *)
Theorem C11_member_isolation : forall k k' e,
  len_ok k -> len_ok k' -> is_prefix (set_prefix k) (member_key k' e) = true -> k' = k.
Proof. exact member_isolation. Qed.

Theorem C11_member_decode : forall k e k' e', len_ok k -> len_ok k' ->
  (member_key k e = member_key k' e' -> k = k' /\ e = e') /\ member_elem (member_key k e) = e.
Proof.
  intros k e k' e' Hk Hk'. split; [apply member_key_inj; assumption|apply member_elem_key; assumption].
Qed.

(** For a prefix [p] with some byte below 0xFF: the keys in [p, bound) are exactly the
    keys that start with [p] (bytewise order, bytes below 256). *)
Theorem C11_upper_bound : forall p s u, bytes_ok p -> bytes_ok s -> ub p = Some u ->
  (lex_le p s && lex_lt s u = true <-> is_prefix p s = true).
Proof. exact upper_bound. Qed.

(** The all-0xFF case: the code returns the empty vector and passes it on as the
    exclusive bound, under which no key is in range (the scan would be empty) — but a
    scan prefix starts with the 8-byte length of a key shorter than 2^64 - 1 bytes and is
    never all-0xFF, so the case is unreachable; and on reachable prefixes the bounded
    range of RocksDB and the prefix filter of Fjall select the same keys. *)
Theorem C11_allff : forall p k x,
  (ub p = None <-> Forall (fun b => 255 <= b) p) /\
  (ub p = None -> prefix_upper_bound p = [] /\ forall lo y, in_range lo (Some []) y = false) /\
  (len_ok k -> ub (set_prefix k) <> None) /\
  (len_ok k -> bytes_ok k -> bytes_ok x ->
     in_range (set_prefix k) (Some (prefix_upper_bound (set_prefix k))) x = is_prefix (set_prefix k) x).
Proof.
  intros p k x. split; [apply ub_none_iff|]. split; [intros Hn; split; [apply allff_bound; exact Hn|apply nothing_below_nil]|].
  split; [apply allff_unreachable|apply range_is_prefix].
Qed.

(** Point read: after any committed history of well-formed operations (discriminant and
    key parts from prefix-free codes, one layout per column) the physical read of a
    cell returns the last committed value of exactly that column, key and value type. *)
Theorem C11_point_read : forall b (Lay : N -> layout) (Dc Kc : N -> list N -> Prop),
  (forall i, prefix_free (Dc i)) -> (forall i, prefix_free (Kc i)) ->
  forall ops w d k, Forall (wf_op Lay Dc Kc) ops -> wf_wide Lay Dc Kc w d k ->
    get_wide b (commit [] (map (phys b) ops)) w d k = ref_wide ops w d k None.
Proof. exact point_read. Qed.

(** Member scan: returns exactly the committed members of exactly that key, on either
    backend, without duplicates. *)
Theorem C11_scan_exact : forall b (Lay : N -> layout) (Dc Kc : N -> list N -> Prop) ops s k x,
  Forall (wf_op Lay Dc Kc) ops -> len_ok k -> bytes_ok k ->
  (In x (get_members b (commit [] (map (phys b) ops)) s k) <-> ref_mem ops s k x false = true).
Proof. exact scan_exact. Qed.

Theorem C11_scan_nodup : forall b (Lay : N -> layout) (Dc Kc : N -> list N -> Prop) ops s k,
  Forall (wf_op Lay Dc Kc) ops -> len_ok k -> bytes_ok k ->
  NoDup (get_members b (commit [] (map (phys b) ops)) s k).
Proof. exact scan_sorted_nodup. Qed.

(** A batch takes effect as a whole: [Commit i] is one step of the session; after it
    every read reflects every operation of batch [i] on top of the previous content. *)
Theorem C11_batch_atomic : forall b (Lay : N -> layout) (Dc Kc : N -> list N -> Prop),
  (forall i, prefix_free (Dc i)) -> (forall i, prefix_free (Kc i)) ->
  forall st i,
  let ops := batch_of (pending st) i in
  let st' := sstep b st (Commit i) in
  Forall (wf_op Lay Dc Kc) ops ->
  (forall w d k, wf_wide Lay Dc Kc w d k ->
      get_wide b (store st') w d k = ref_wide ops w d k (get_wide b (store st) w d k)) /\
  (forall s k e m, len_ok k -> mem_get (store st) s k e = mem_val m ->
      mem_get (store st') s k e = mem_val (ref_mem ops s k e m)) /\
  batch_of (pending st') i = [] /\
  (forall j, j <> i -> batch_of (pending st') j = batch_of (pending st) j).
Proof. exact batch_atomic. Qed.

(** Uncommitted batches are invisible: any sequence of staging, discarding and reopening
    steps leaves the store — hence every read — unchanged. *)
Theorem C11_uncommitted_invisible : forall b sops, Forall no_commit sops -> forall st,
  store (fold_left (sstep b) sops st) = store st.
Proof. exact uncommitted_invisible. Qed.

(** The contract over a whole session (staging into several batches, commits in any
    order, discards, reopen): reads equal the reference over the committed operations. *)
Theorem C11_session : forall b (Lay : N -> layout) (Dc Kc : N -> list N -> Prop),
  (forall i, prefix_free (Dc i)) -> (forall i, prefix_free (Kc i)) ->
  forall sops w d k s kk,
  let st := fold_left (sstep b) sops {| store := []; pending := [] |} in
  let ops := committed [] sops in
  Forall (wf_op Lay Dc Kc) ops ->
  (wf_wide Lay Dc Kc w d k -> get_wide b (store st) w d k = ref_wide ops w d k None) /\
  (len_ok kk -> bytes_ok kk -> forall x, In x (get_members b (store st) s kk) <-> ref_mem ops s kk x false = true).
Proof. exact session_reads. Qed.

Check opsx_wf : Forall (wf_op LayX DcX KcX) opsx.   (* hypotheses satisfiable *)
Check DcX_pf.
Check KcX_pf.
Check phys_keys.
Check sessx_reads.
Check sessx_committed.

Print Assumptions C11_codes_prefix_free.
Print Assumptions C11_wide_injective.
Print Assumptions C11_member_isolation.
Print Assumptions C11_member_decode.
Print Assumptions C11_upper_bound.
Print Assumptions C11_allff.
Print Assumptions C11_point_read.
Print Assumptions C11_scan_exact.
Print Assumptions C11_scan_nodup.
Print Assumptions C11_batch_atomic.
Print Assumptions C11_uncommitted_invisible.
Print Assumptions C11_session.
