(** C04 — input sessions are atomic and readers see one input snapshot.
    The protocol model is Conc/PhaseLock.v; the order of the synchronisation calls is read
    from database/sync.rs on every run (Generated/PhaseOrder.v). *)
From QV Require Import Common.Prelude Generated.PhaseOrder Generated.CommitGuardScope Conc.PhaseLock Conc.PhaseLockProof Conc.CommitCancel.

(** every order accepted by [order_ok] is safe under every schedule, any number of readers *)
Theorem C04_generic :
  forall wo ro, order_ok wo ro = true -> forall sched, safe ro (run wo ro sched init) = true.
Proof. exact right_order_safe. Qed.

(** every other order of the same steps has a schedule that breaks safety *)
Theorem C04_generic_converse :
  forall wo ro, wperm wo = true -> rperm ro = true -> order_ok wo ro = false ->
    exists sched, safe ro (run wo ro sched init) = false.
Proof. exact wrong_order_has_bad_schedule. Qed.

(** the order the source has now: a tracked engine that has been handed out holds the
    timestamp of exactly the committed sessions, never sees a half-written session, and the
    session's write batch is younger than every batch created by earlier computations *)
Theorem C04_atomic :
  forall sched, safe reader_order (run writer_order reader_order sched init) = true.
Proof. exact (right_order_safe writer_order reader_order eq_refl). Qed.

(** a commit() whose future is dropped after any number of polls (select!, timeout, abort) still
    releases the phase lock only after the session's dirt has been propagated - for the scope of
    the run-to-completion wrapper the source has now (read from input_session.rs on every run);
    a wrapper around the propagation alone, or none, is refuted (dropped while the propagation
    is pending).  The step model is Conc/CommitCancel.v (three steps; it does not model tokio). *)
Theorem C04_commit_atomic_under_cancellation :
  forall polls, atomic_under_cancellation commit_guard_scope polls = true.
Proof.
  change commit_guard_scope with GuardWhole.     (* fails if `.guarded()` no longer wraps the whole block *)
  exact whole_block_guard_is_atomic.
Qed.
Theorem C04_commit_inner_guard_refuted :
  (exists polls, atomic_under_cancellation GuardPropOnly polls = false) /\
  (exists polls, atomic_under_cancellation GuardNone polls = false).
Proof. exact (conj inner_guard_is_not_atomic no_guard_is_not_atomic). Qed.

Check busy_schedule.

Print Assumptions C04_generic.
Print Assumptions C04_generic_converse.
Print Assumptions C04_atomic.
Print Assumptions C04_commit_atomic_under_cancellation.
Print Assumptions C04_commit_inner_guard_refuted.
