(** C04 — input sessions are atomic and readers see one input snapshot.
    The protocol model is Conc/PhaseLock.v; the order of the synchronisation calls is read
    from database/sync.rs on every run (Generated/PhaseOrder.v). *)
From QV Require Import Common.Prelude Generated.PhaseOrder Conc.PhaseLock Conc.PhaseLockProof.

(** every order accepted by [order_ok] is safe under every schedule, any number of readers *)
Theorem C04_generic :
  forall wo ro, order_ok wo ro = true -> forall sched, safe ro (run wo ro sched init) = true.
Proof. exact right_order_safe. Qed.

(** every other order of the same steps has a schedule that breaks safety *)
Theorem C04_generic_converse :
  forall wo ro, wperm wo = true -> rperm ro = true -> order_ok wo ro = false ->
    exists sched, safe ro (run wo ro sched init) = false.
Proof. exact wrong_order_has_bad_schedule. Qed.

(** the order the source has now: a tracked engine that has been handed out holds the
    timestamp of exactly the committed sessions, never sees a half-written session, and the
    session's write batch is younger than every batch created by earlier computations *)
Theorem C04_atomic :
  forall sched, safe reader_order (run writer_order reader_order sched init) = true.
Proof. exact (right_order_safe writer_order reader_order eq_refl). Qed.

Check busy_schedule.

Print Assumptions C04_generic.
Print Assumptions C04_generic_converse.
Print Assumptions C04_atomic.
