(** C14 — type and query identities are unique and stable across runs.
    This file only pins statements and reports their assumptions.

    What is and is not claimed.  A [StableTypeID] is 128 bits, so uniqueness over ALL Rust
    types is not provable and is not claimed.  Proved: (a) the *expression* the impls
    evaluate (names, raw lengths, nesting of [combine]) determines the type, for every term
    over a signature in which a name has one meaning — so any aliasing of such types is a
    collision of the mixing functions, not of the folds; (a') without that hypothesis the
    folds DO alias (the derive names types by [module_path!()::Ident]; block-scoped twins;
    replayed on the real code: known finding block_scoped_twin_ids); (b) on the explicit
    universe of 5010 terms of depth <= 3 the model's ids are pairwise distinct (kernel
    computation); (c) ids are a function of the expression only; (d) query ids are
    injective in (query type of the universe, key) up to the named key-hash hypothesis. *)
From Coq Require Import String.
From QV Require Import Common.Prelude TypeId.Model TypeId.Structural TypeId.Bounds TypeId.Universe
  TypeId.QueryId TypeId.Examples.
Open Scope N_scope.

(** (a) Structural injectivity.  [sg] says what every name is: a non-generic type
    ([KLeaf]), a built-in constructor ([KApp], any arity: tuples share one name), or a
    derived generic type with exactly [n] type parameters ([KDer n]).  [wf sg t]: every
    name in [t] is used as [sg] says and every application has at least one argument.
    Swapped parameters, re-nesting, tuple arity, array length, built-in vs. derived fold
    direction cannot make two such terms evaluate the same expression. *)
Theorem C14_structural : forall (sg : sig) (t t' : tterm),
  wf sg t -> wf sg t' -> sym_id t = sym_id t' -> t = t'.
Proof. exact structural. Qed.

(** ... and the id is the evaluation of that expression, for every term *)
Theorem C14_id_is_eval : forall t, id_of t = eval (sym_id t).
Proof. intros t. symmetry. apply eval_sym. Qed.

(** (a') The signature hypothesis cannot be dropped: with one derived name at two arities,
    [(u8, Loc<String>)] and [Loc<String, (u8,)>] are different types, each well formed on
    its own, with the same expression and therefore the same id. *)
Theorem C14_structural_unrestricted_refuted :
  exists t t', t <> t' /\ sym_id t = sym_id t' /\ id_of t = id_of t' /\
               wf sig_a t /\ wf sig_b t'.
Proof.
  exists twin_a, twin_b. destruct twins_alias as (H1 & H2 & H3). destruct twins_wf as (H4 & H5).
  exact (conj H1 (conj H2 (conj H3 (conj H4 H5)))).
Qed.

(** (b) The explicit universe (TypeId/Universe.v, 5010 terms, nesting depth <= 3, well
    formed for [usig]): the ids computed by the model are pairwise distinct. *)
Theorem C14_universe_distinct :
  NoDup (map id_of universe) /\
  N.of_nat (length universe) = 5010 /\
  forallb (fun t => Nat.leb (depth t) 3) universe = true /\
  forallb (wfb usig) universe = true.
Proof.
  split; [exact universe_distinct|]. split; [exact universe_length|].
  split; [exact universe_depth | exact universe_wf].
Qed.

(** the same for what the stores keep ([as_u128]); it loses nothing, for any term *)
Theorem C14_universe_distinct_u128 : NoDup (map id128 universe).
Proof. exact universe_id128_distinct. Qed.
Theorem C14_as_u128_faithful : forall t t', id128 t = id128 t' -> id_of t = id_of t'.
Proof. exact id128_inj. Qed.

(** (c) Determinism: the id depends on the term only through its expression; [eval] has no
    other input (no address, no [std::any::TypeId], no hasher seed, no process state). *)
Theorem C14_deterministic : forall t t', sym_id t = sym_id t' -> id_of t = id_of t'.
Proof. exact deterministic. Qed.

(** (d) Query ids.  [H] is the seeded 128-bit stable hash of a key, assumed collision free
    on the keys in play [Play]; then (query type, key) |-> QueryID is injective for query
    types of the universe, and two query types never share an id whatever their keys. *)
Theorem C14_query_id :
  forall (key : Type) (H : key -> N) (Play : key -> Prop),
    (forall k k', Play k -> Play k' -> H k = H k' -> k = k') ->
    forall q q' k k', In q universe -> In q' universe -> Play k -> Play k' ->
      query_id q (H k) = query_id q' (H k') -> q = q' /\ k = k'.
Proof. exact query_id_inj. Qed.

Theorem C14_query_types_apart :
  forall q q' h h', In q universe -> In q' universe -> q <> q' -> query_id q h <> query_id q' h'.
Proof. exact query_id_types_apart. Qed.

(* the hypotheses are satisfiable / the statements are not vacuous: TypeId/Examples.v, QueryId.v *)
Check structural_example.
Check ex_terms_expressions_distinct.
Check query_id_example.
Check universe_profile.

Print Assumptions C14_structural.
Print Assumptions C14_id_is_eval.
Print Assumptions C14_structural_unrestricted_refuted.
Print Assumptions C14_universe_distinct.
Print Assumptions C14_universe_distinct_u128.
Print Assumptions C14_as_u128_faithful.
Print Assumptions C14_deterministic.
Print Assumptions C14_query_id.
Print Assumptions C14_query_types_apart.
