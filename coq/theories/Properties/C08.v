(** C08 — a crash loses recent work but never yields wrong answers.
    Two layers.  Store: whatever the arrival order at the committer and the grouping of
    logical batches into physical commits, every intermediate commit log is a prefix of the
    final one cut at whole batches in creation order, and folding a log into a store is
    applying those batches one after another (C10's theorems, restated for the crash
    reading: the store after a crash = the batches 0..j-1 applied entirely, the rest not at
    all).  Engine (core fragment): every publication is the last action of a (sub-)request,
    so the store at a batch boundary holds the effect of some completed sub-requests of the
    request in flight; reopening = restart; the cancellation theorem therefore gives sound
    answers afterwards, for the inputs of the last session that is in the prefix.
    PARTIAL: H-backend (a real backend applies one physical batch atomically and a crash
    keeps a prefix of them) and the identification "store content = model columns" are
    validated by reopening the real engine on every prefix of the physical commit log of
    random histories (`engine crash`), not proved. *)
From QV Require Import Common.Prelude WriteBehind.Model WriteBehind.Order.
From QV Require Engine.Model Engine.Core Engine.CoreSpec Engine.CoreCancel Engine.MdlSpec Engine.MdlCancel.
From Coq Require Import Permutation.

Theorem C08_store_is_batch_prefix : forall more bs evs1 evs2,
  Permutation (arrivals (evs1 ++ evs2)) (tasks_of bs) ->
  exists groups j,
    log (finish more (run more (evs1 ++ evs2))) = log (run more evs1) ++ groups /\
    concat (log (run more evs1)) ++ cur (run more evs1) = firstn j (tasks_of bs).
Proof. exact prefix. Qed.

Theorem C08_store_content : forall more bs evs s0,
  Permutation (arrivals evs) (tasks_of bs) ->
  fold_left commit (log (finish more (run more evs))) s0 = fold_left apply_batch bs s0.
Proof. exact store_eq. Qed.

Import Engine.Model Engine.Core Engine.CoreSpec Engine.CoreCancel.

(** the engine after a crash: [before] is the history up to the crash, [partial] the completed
    sub-requests of the request in flight, then the process restarts and [after] follows *)
Theorem C08_core_sound_after_crash :
  forall fuel p before partial after i n r z,
    let ops := map CUser before ++ partial ++ [CUser ORestart] ++ map CUser after in
    wf_core p -> csessions_fuelled fuel p ops i -> cpartials_ok p ops i ->
    nth_error ops i = Some (CUser (OQuery n)) ->
    nth_error (crun_cancel_f fuel p cinit ops) i = Some (Some r) -> r_out r = RValue z ->
    Spec p (cinputs_after (firstn i ops)) n z.
Proof. intros fuel p before partial after i n r z ops. exact (CoreCancel.C05_core_cancel_sound fuel p ops i n r z). Qed.

(** the same for the full model (every query kind, external inputs) *)
Import Engine.MdlSpec Engine.MdlCancel.
Theorem C08_model_sound_after_crash :
  forall fuel pfuel p before partial after i n r z,
    let ops := map MUser before ++ partial ++ [MUser ORestart] ++ map MUser after in
    wf_model_x p -> mcsessions_fuelled fuel pfuel p ops i -> mpartials_ok fuel pfuel p ops i ->
    nth_error ops i = Some (MUser (OQuery n)) ->
    nth_error (mrun_cancel_f fuel pfuel p init_state ops) i = Some (Some r) -> r_out r = RValue z ->
    MdlSpecX p (minputs_after (firstn i ops),
                ext_after_c (firstn (S i) ops) (firstn (S i) (mexecs_cancel_f fuel pfuel p init_state ops))) n z.
Proof. exact MdlCancel.model_sound_after_crash_x. Qed.

Print Assumptions C08_store_is_batch_prefix.
Print Assumptions C08_model_sound_after_crash.
Print Assumptions C08_store_content.
Print Assumptions C08_core_sound_after_crash.
