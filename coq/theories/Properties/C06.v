(** C06 — dependency cycles are detected: they terminate with cycle defaults.
    What is proved: (1) the cycle search of computing.rs terminates on every computing graph,
    for the shape the current source has (read from the source on every run); the shape the
    code had before the repair is refuted; (2) in the engine model a request for a query that
    is being computed is answered with the cyclic error at once, marks exactly the computing
    queries between the two, and changes nothing; (3) on a fresh engine every cyclic program of
    Normal, Firewall and Projection queries terminates within an explicit fuel bound with exactly the values of an
    independent from-scratch-with-defaults specification.  Incremental behaviour of cyclic
    programs (later requests) is validated against the real engine, not proved - and known to
    deviate (recorded finding). *)
From QV Require Import Common.Prelude Conc.CycleSearch Conc.CycleSearchCorrect Generated.CycleSearchShape Engine.Model Engine.CycleLemmas.
From QV Require Import Engine.CoreSpec Engine.MdlSpec Engine.MdlCyc Engine.MdlCycRefuted.
Open Scope N_scope.

(** the search as the current source has it *)
Definition search_current (fuel : nat) (g : graph) (cs : list N) (target : N) : option bool :=
  match cycle_search_shape with
  | ShapeMemo => option_map fst (search_v fuel g cs target [])
  | ShapePlain => search fuel g cs target
  | ShapeUnknown => None
  end.

Theorem C06_search_terminates :
  forall g cs target, search_current (S (length g)) g cs target <> None.
Proof.
  intros g cs target. unfold search_current.
  change cycle_search_shape with ShapeMemo.      (* fails if the source no longer has the memo table *)
  destruct (search_v_terminates g cs target) as (b & m & E). rewrite E. discriminate.
Qed.

(** ... and its ANSWER is right: on every computing graph the search reports a cycle exactly when the
    target is reachable from the callees it starts from - for the way the current source combines
    the answers of the callees (`found |= reaches`, read from the source on every run).  The
    variant that assigns instead of accumulating (`found = reaches`) is refuted. *)
Definition search_current_acc (fuel : nat) (g : graph) (cs : list N) (target : N) : option bool :=
  match cycle_search_acc with
  | AccOr => option_map fst (search_v fuel g cs target [])
  | AccOverwrite => option_map fst (search_w fuel g cs target [])
  | AccUnknown => None
  end.
Theorem C06_search_answer_correct :
  forall g cs target, exists b, search_current_acc (S (length g)) g cs target = Some b /\ (b = true <-> reach g cs target).
Proof.
  intros g cs target. unfold search_current_acc.
  change cycle_search_acc with AccOr.          (* fails if the source no longer accumulates with `|=` *)
  destruct (search_v_correct g cs target) as (b & m & E & H). exists b. rewrite E. split; [reflexivity|exact H].
Qed.
Theorem C06_search_overwrite_refuted :
  exists g cs target m', reach g cs target /\ search_w (S (length g)) g cs target [] = Some (false, m').
Proof. exact search_w_incomplete. Qed.
(** the decision of [exit_scc]: a caller that finds its callee computing is marked as a cycle member
    (and unwound with the cyclic error, taking its default) EXACTLY when it closes a cycle - when the
    caller is reachable from the callees of the callee through computing queries - whatever marks
    the callee already carries; for the rule the current source has (read from the source on every
    run).  The shortcut "the callee is already marked, so the caller is on the cycle too" is refuted
    by a reader of a cycle member (CycA = 0 reads CycB = 1 and Slow = 2, CycB reads CycA, the
    caller Reader = 3 is outside): it would take the reader's own default. *)
Definition exit_marks_with (rule : mark_rule) (fuel : nat) (g : graph) (callee_marked : bool) (callee_cs : list N) (caller : N) : option bool :=
  match rule with
  | MarkBySearch => option_map fst (search_v fuel g callee_cs caller [])
  | MarkBySearchOrCalleeMarked => if callee_marked then Some true else option_map fst (search_v fuel g callee_cs caller [])
  | MarkUnknown => None
  end.
Theorem C06_exit_marks_exactly_cycle_closers :
  forall g callee_marked callee_cs caller,
    exists b, exit_marks_with exit_mark_rule (S (length g)) g callee_marked callee_cs caller = Some b /\ (b = true <-> reach g callee_cs caller).
Proof.
  intros g mk cs caller.
  change exit_mark_rule with MarkBySearch.     (* fails if exit_scc no longer decides by the search alone *)
  unfold exit_marks_with.
  destruct (search_v_correct g cs caller) as (b & m & E & H). exists b. rewrite E. split; [reflexivity|exact H].
Qed.
Theorem C06_exit_mark_shortcut_refuted :
  exists g callee_cs caller,
    ~ reach g callee_cs caller /\ exit_marks_with MarkBySearchOrCalleeMarked (S (length g)) g true callee_cs caller = Some true.
Proof.
  exists [(0, [1; 2]); (1, [0])], [1; 2], 3. split; [|reflexivity].
  destruct (search_v_correct [(0, [1; 2]); (1, [0])] [1; 2] 3) as (b & m & E & H).
  vm_compute in E. injection E as <- _. intro R. apply H in R. discriminate R.
Qed.

(** on acyclic computing graphs (the evaluation stack and its pending callees) every entry of the
    memo table - hence every cycle mark - is exact too; on a graph with a cycle among computing
    queries an entry can be [false] for a query that does reach the target ([search_v_memo_inexact]) *)
Theorem C06_search_marks_exact_on_dags :
  forall g (rank : N -> nat),
    (forall x cs0 y, succ g x = Some cs0 -> In y cs0 -> succ g y <> None -> (rank y < rank x)%nat) ->
    forall target fuel cs b m', search_v fuel g cs target [] = Some (b, m') ->
      (b = true <-> reach g cs target) /\ forall k bk, memo_get m' k = Some bk -> (bk = true <-> kreach g target k).
Proof. exact search_v_memo_exact_ranked. Qed.
Check search_v_memo_inexact.

(** without the table the search runs for ever on a computing cycle that avoids the target
    (reachable: queries unwound by a cyclic error stay computing while a task they spawned
    lives; witness replayed on the real code by `engine f5`) *)
Theorem C06_search_plain_refuted : exists g start target, forall fuel, search fuel g start target = None.
Proof. exact search_refuted. Qed.

(** the plain search is fine exactly when the computing graph is acyclic *)
Theorem C06_search_plain_terminates_on_dags :
  forall g (rank : N -> nat),
    (forall x cs y, succ g x = Some cs -> In y cs -> succ g y <> None -> (rank y < rank x)%nat) ->
    forall target fuel cs bound,
      (forall y, In y cs -> succ g y <> None -> (rank y < bound)%nat) -> (bound <= fuel)%nat ->
      search (S fuel) g cs target <> None.
Proof. exact search_ranked. Qed.

(** a request for a query on the computing stack: cyclic error, marks, no state change *)
Theorem C06_request_on_stack_is_cyclic :
  forall p pa f stk b rv pd prev fr n s,
    nmem n stk = true -> kind_eqb (nkind b) KExternal = false ->
    (kind_eqb (nkind b) KProjection && negb (is_fw_or_proj (nkind n)))%bool = false ->
    exists fr',
      query_for p pa (S f) stk (CQuery b rv pd prev) (Some fr) n s =
        Ok (QCyclic, Some fr', upto stk n, s) /\
      fr_scc fr' = (fr_scc fr || nmem b (upto stk n))%bool.
Proof. exact request_on_stack_is_cyclic. Qed.

(** (3) Whole cyclic programs on a FRESH engine terminate with the cycle defaults.  [cyc_spec] is an
    independent relational specification of "from-scratch evaluation with cycle defaults"
    (demand-driven, explicit evaluation stack; a read of a query on the stack closes a cycle and
    marks every query from it up to the reader; a marked query is abandoned at its next read and
    takes [scc_default]; an unmarked reader sees that default as an ordinary value; completed
    queries are memoised) - the same definition as the harness's oracle [oracle_cyclic], and
    deterministic.  For every program of Normal, Firewall and Projection queries over inputs
    (a projection reads firewalls and projections only) with ARBITRARY reads (self
    loops, several strongly connected components, conditional cycle edges: no rank hypothesis),
    the first query after the inputs were set answers exactly the [cyc_spec] value, executes
    every query at most once, never panics or gets stuck, and the explicit fuel bound
    [cyc_fuel p = length p * (max_depth p + 2) + 1] suffices (termination of whole programs).
    A later query on an engine that has computed before is NOT covered (recorded finding
    c06_incremental_scc_membership); external inputs are not covered. *)
Theorem C06_cyc_spec_deterministic :
  forall p inp root v1 v2, cyc_spec p inp root v1 -> cyc_spec p inp root v2 -> v1 = v2.
Proof. exact MdlCyc.cyc_spec_det. Qed.
Theorem C06_fresh_cyclic_program_takes_defaults :
  forall p sets root rest r,
    wf_cyc p -> inputs_cover p (inputs_after [OSession sets false]) -> alookup p root <> None ->
    (cyc_fuel p <= fuel0)%nat ->
    nth_error (run_history p init_state (OSession sets false :: OQuery root :: rest)) 1 = Some r ->
    exists v, cyc_spec p (inputs_after [OSession sets false]) root v /\ r_out r = RValue v /\ NoDup (r_execs r).
Proof. exact MdlCyc.model_cyclic_fresh. Qed.
Theorem C06_fresh_cyclic_program_any_task_order :
  forall (tord bord pord : oracle) p sets root rest r,
    wf_cyc p -> inputs_cover p (inputs_after [OSession sets false]) -> alookup p root <> None ->
    (cyc_fuel p <= fuel0)%nat ->
    nth_error (run_history_op tord bord pord p init_state (OSession sets false :: OQuery root :: rest)) 1 = Some r ->
    exists v, cyc_spec p (inputs_after [OSession sets false]) root v /\ r_out r = RValue v /\ NoDup (r_execs r).
Proof. exact MdlCyc.model_cyclic_fresh_op. Qed.
(** The incremental version of (3) - every answer of every history satisfies [cyc_spec] - is FALSE of
    the model (which agrees with the real engine on these histories: they are witness/c06_*.txt,
    replayed on the engine on every run): recorded finding c06_incremental_scc_membership. *)
Theorem C06_incremental_cycle_membership_refuted : ~ model_cyclic_incremental_statement.
Proof. exact MdlCycRefuted.model_cyclic_incremental_refuted. Qed.
Check w1_cycle_formed_under_repair.      (* model: N0 = 810, N2 = 1810; from scratch with defaults: -1, 999 *)
Check w2_cycle_member_reexecuted_alone.  (* model: N3 = 3; from scratch with defaults: -1 *)
Check cex_prog_wf.   (* a conditional cycle A = B + 1, B = if I0 then A else 5, a self loop, readers outside *)
Check cex_run.
Check cex_spec.      (* the spec values, obtained by applying the theorem: its premises are satisfiable *)

Print Assumptions C06_search_terminates.
Print Assumptions C06_search_answer_correct.
Print Assumptions C06_search_overwrite_refuted.
Print Assumptions C06_exit_marks_exactly_cycle_closers.
Print Assumptions C06_exit_mark_shortcut_refuted.
Print Assumptions C06_search_marks_exact_on_dags.
Print Assumptions C06_cyc_spec_deterministic.
Print Assumptions C06_fresh_cyclic_program_takes_defaults.
Print Assumptions C06_fresh_cyclic_program_any_task_order.
Print Assumptions C06_incremental_cycle_membership_refuted.
Print Assumptions C06_search_plain_refuted.
Print Assumptions C06_search_plain_terminates_on_dags.
Print Assumptions C06_request_on_stack_is_cyclic.
