(** C06 — dependency cycles are detected: they terminate with cycle defaults.
    What is proved: (1) the cycle search of computing.rs terminates on every computing graph,
    for the shape the current source has (read from the source on every run); the shape the
    code had before the repair is refuted; (2) in the engine model a request for a query that
    is being computed is answered with the cyclic error at once, marks exactly the computing
    queries between the two, and changes nothing.  That every cyclic program then terminates
    with defaults is validated by the correspondence of the model (cycles included) with the
    real engine, not proved: the model's own termination is by fuel. *)
From QV Require Import Common.Prelude Conc.CycleSearch Generated.CycleSearchShape Engine.Model Engine.CycleLemmas.
Open Scope N_scope.

(** the search as the current source has it *)
Definition search_current (fuel : nat) (g : graph) (cs : list N) (target : N) : option bool :=
  match cycle_search_shape with
  | ShapeMemo => option_map fst (search_v fuel g cs target [])
  | ShapePlain => search fuel g cs target
  | ShapeUnknown => None
  end.

Theorem C06_search_terminates :
  forall g cs target, search_current (S (length g)) g cs target <> None.
Proof.
  intros g cs target. unfold search_current.
  change cycle_search_shape with ShapeMemo.      (* fails if the source no longer has the memo table *)
  destruct (search_v_terminates g cs target) as (b & m & E). rewrite E. discriminate.
Qed.

(** without the table the search runs for ever on a computing cycle that avoids the target
    (reachable: queries unwound by a cyclic error stay computing while a task they spawned
    lives; witness replayed on the real code by `engine f5`) *)
Theorem C06_search_plain_refuted : exists g start target, forall fuel, search fuel g start target = None.
Proof. exact search_refuted. Qed.

(** the plain search is fine exactly when the computing graph is acyclic *)
Theorem C06_search_plain_terminates_on_dags :
  forall g (rank : N -> nat),
    (forall x cs y, succ g x = Some cs -> In y cs -> succ g y <> None -> (rank y < rank x)%nat) ->
    forall target fuel cs bound,
      (forall y, In y cs -> succ g y <> None -> (rank y < bound)%nat) -> (bound <= fuel)%nat ->
      search (S fuel) g cs target <> None.
Proof. exact search_ranked. Qed.

(** a request for a query on the computing stack: cyclic error, marks, no state change *)
Theorem C06_request_on_stack_is_cyclic :
  forall p pa f stk b rv pd prev fr n s,
    nmem n stk = true -> kind_eqb (nkind b) KExternal = false ->
    (kind_eqb (nkind b) KProjection && negb (is_fw_or_proj (nkind n)))%bool = false ->
    exists fr',
      query_for p pa (S f) stk (CQuery b rv pd prev) (Some fr) n s =
        Ok (QCyclic, Some fr', upto stk n, s) /\
      fr_scc fr' = (fr_scc fr || nmem b (upto stk n))%bool.
Proof. exact request_on_stack_is_cyclic. Qed.

Print Assumptions C06_search_terminates.
Print Assumptions C06_search_plain_refuted.
Print Assumptions C06_search_plain_terminates_on_dags.
Print Assumptions C06_request_on_stack_is_cyclic.
