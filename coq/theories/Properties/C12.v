(** C12 — serialization round-trips every supported value exactly.
    This file only pins statements and reports their assumptions. *)
From QV Require Import Common.Prelude Codec.Varint Codec.Model Codec.RoundTrip Codec.Examples.
Open Scope N_scope.

(** LEB128 at any register width [w] (the code instantiates 16, 32, 64, 128): every
    value below [2^w] decodes to itself, whatever follows it in the stream. *)
Theorem C12_varint : forall w v rest, 0 < w -> v < 2 ^ w -> unvarint w (varint v ++ rest) = Some (v, rest).
Proof. exact varint_roundtrip. Qed.

Theorem C12_zigzag : forall z, unzz (zz z) = z.
Proof. exact unzz_zz. Qed.

(** The main statement.  For every type term [t] and every well-typed value [v]
    the encoder succeeds, and for every continuation [rest] of the byte stream and
    every consistent interner [I] the decoder returns the value (skipped fields
    replaced by their declared defaults), leaves exactly [rest], and keeps the
    interner consistent.  [H] is the hash oracle, assumed collision free and below
    2^128 on the arbitrary set [Play] of interned contents in play. *)
Theorem C12_roundtrip :
  forall (H : N -> val -> N) (Play : N -> val -> Prop),
    (forall id v1 v2, Play id v1 -> Play id v2 -> H id v1 = H id v2 -> v1 = v2) ->
    (forall id v, Play id v -> H id v < 2 ^ 128) ->
    forall t v, wt Play t v -> exists bs s',
      encode H t v [] = Some (bs, s') /\
      forall rest I, Iok H Play I -> exists I',
        decode H t (bs ++ rest) I = Some (canon t v, rest, I') /\ Iok H Play I'.
Proof. exact roundtrip. Qed.

Check wt_vx : wt PlayX tx vx.   (* the hypotheses are satisfiable: Codec/Examples.v *)

Print Assumptions C12_varint.
Print Assumptions C12_zigzag.
Print Assumptions C12_roundtrip.
