(** C07 — state survives a clean restart and is reused, not recomputed.
    Core fragment: a restart resets only volatile fields, the soundness invariant mentions
    persisted columns only, so C01_core_sound / C03_core_* hold for histories with restarts
    at arbitrary positions (ORestart is an ordinary operation of those histories), and an
    answer that was up to date before the restart is served again without any execution.
    Full model: the same statement about which columns a restart keeps.
    That what reaches the store IS those columns (serialisation, write-behind, caches of
    every capacity) is validated by the correspondence runs with restarts over the
    db-backed engine, not proved here (C09, C10, C12 prove the layers separately). *)
From QV Require Import Common.Prelude Engine.Model Engine.Core Engine.CoreSpec Engine.CoreInvState Engine.CoreRestart Engine.CoreSound Engine.RestartLemmas.
From QV Require Import Engine.MdlSpec Engine.MdlSound Engine.MdlRestart.

Theorem C07_core_restart_persisted : forall s,
  cs_nodes (crestart s) = cs_nodes s /\ cs_bwd (crestart s) = cs_bwd s /\
  cs_dirty (crestart s) = cs_dirty s /\ cs_ts (crestart s) = cs_ts s.
Proof. exact CoreRestart.C07_core_restart_persisted. Qed.

Theorem C07_core_restart_inv : forall p inp s, CInv p inp s -> CInv p inp (crestart s).
Proof. exact CoreRestart.C07_core_restart_inv. Qed.

(** restarts anywhere: the general soundness theorem, read with ORestart among the operations *)
Theorem C07_core_sound_across_restarts :
  forall fuel p ops i n r z, wf_core p -> sessions_fuelled fuel p ops i ->
    nth_error ops i = Some (OQuery n) ->
    nth_error (crun_history_f fuel p cinit ops) i = Some r ->
    r_out r = RValue z ->
    Spec p (inputs_after (firstn i ops)) n z.
Proof. exact CoreSound.C01_core_sound. Qed.
Theorem C07_core_restart_is_an_operation : forall fuel p s,
  cstep_f fuel p s ORestart = (crestart s, mkRes RUnit [] None).
Proof. exact CoreRestart.C07_core_restart_step. Qed.

(** results that were up to date at shutdown are served without running any executor *)
Theorem C07_core_no_reexecution : forall fuel p ops i j n rj z,
  (j < i)%nat -> nth_error ops j = Some (OQuery n) -> nth_error ops i = Some (OQuery n) ->
  nth_error (crun_history_f fuel p cinit ops) j = Some rj -> r_out rj = RValue z ->
  no_session_between ops j i ->
  exists ri, nth_error (crun_history_f fuel p cinit ops) i = Some ri /\
             r_out ri = RValue z /\ r_execs ri = [].
Proof. exact CoreRestart.C07_core_no_reexecution. Qed.

(** full model: which columns a restart keeps *)
Theorem C07_model_restart_persisted : forall s,
  s_nodes (restart s) = s_nodes s /\ s_bwd (restart s) = s_bwd s /\ s_dirty (restart s) = s_dirty s /\
  s_ts (restart s) = s_ts s /\ s_ext (restart s) = s_ext s /\ s_world (restart s) = s_world s.
Proof. exact restart_persisted. Qed.

(** full model with firewalls and projections: restarts anywhere in the history
    ([op_in_scope ORestart = True]); the general soundness theorem read with ORestart among the
    operations, and ORestart is exactly [restart] *)
Theorem C07_model_sound_across_restarts :
  forall p ops i n r z, wf_model_g p -> Forall op_in_scope ops ->
    model_sessions_fuelled p ops i ->
    nth_error ops i = Some (OQuery n) ->
    nth_error (run_history p init_state ops) i = Some r ->
    r_out r = RValue z ->
    MdlSpec p (inputs_after (firstn i ops)) n z.
Proof. exact MdlSound.model_sound_g. Qed.
Theorem C07_model_restart_is_an_operation : forall p s,
  op_in_scope ORestart /\ step p s ORestart = (restart (set_log s []), mkRes RUnit [] None).
Proof. intros p s. split; [exact I | reflexivity]. Qed.

(** full model, ANY program (no well-formedness at all), any query kind: an answer that was up to
    date is served again without running any executor - restarts, other queries and world
    changes in between are allowed, only input sessions are excluded *)
Theorem C07_model_no_reexecution : forall p ops i j n rj z,
  (j < i)%nat -> nth_error ops j = Some (OQuery n) -> nth_error ops i = Some (OQuery n) ->
  nth_error (run_history p init_state ops) j = Some rj -> r_out rj = RValue z ->
  no_session_between ops j i ->
  exists ri, nth_error (run_history p init_state ops) i = Some ri /\ r_out ri = RValue z /\ r_execs ri = [].
Proof. exact MdlRestart.model_no_reexecution. Qed.
Check mexx_no_reexecution.

Check ex_restart.

Print Assumptions C07_core_restart_persisted.
Print Assumptions C07_core_restart_inv.
Print Assumptions C07_core_sound_across_restarts.
Print Assumptions C07_core_restart_is_an_operation.
Print Assumptions C07_core_no_reexecution.
Print Assumptions C07_model_restart_persisted.
Print Assumptions C07_model_sound_across_restarts.
Print Assumptions C07_model_restart_is_an_operation.
Print Assumptions C07_model_no_reexecution.
