(** C15 — interning is canonical under concurrency and survives encoding.
    This file only pins statements and reports their assumptions.

    The model (Intern/Model.v): a step is (thread, action); a schedule is ANY list of steps
    (the scheduler is arbitrary; any number of threads); [run] fails on a step that is not
    enabled; [reachable s] = some schedule leads from [init] to [s].  Actions: the read-lock
    probe and the write-lock re-check/insert of intern / intern_unsized as two separate
    steps, clone, drop, get_from_hash, the vacuum's [retain] closure on one table entry and
    the drop of its temporary reference.  The last parameter [true] selects the code as it
    is (re-check under the write lock present).

    Hypotheses (the same in every theorem of the first part):
      H-hash  within one type id, equal hashes mean equal values, on the domain [inD];
      H-conv  [Arc::from(q)] contains what [q.borrow()] shows (intern_unsized). *)
From QV Require Import Common.Prelude Intern.Model Intern.Canonical Intern.Examples.
From QV Require Import Codec.Varint Codec.Model Codec.RoundTrip Codec.Examples Intern.Sharing.
Open Scope N_scope.

Section C15.
Variable hash : N -> N -> N.
Variable inD : N -> N -> bool.
Variable borrow conv : N -> N -> N.
Hypothesis H_hash : forall ty v1 v2, inD ty v1 = true -> inD ty v2 = true -> hash ty v1 = hash ty v2 -> v1 = v2.
Hypothesis H_conv : forall ty q, inD ty (borrow ty q) = true -> conv ty q = borrow ty q.
Notation reach := (reachable hash inD borrow conv true).
Notation stepC := (step hash inD borrow conv true).
Notation runC := (run hash inD borrow conv true).

(** In every reachable state: two handles (held by any threads, the vacuum's temporary
    included) that were asked for the same value of the same type point to the same
    allocation; and the allocation a handle points to is alive, holds exactly the value and
    type the handle was asked for, and its strong count is the number of handles to it. *)
Theorem C15_canonical : forall s, reach s ->
  (forall e1 e2, In e1 (hs s) -> In e2 (hs s) -> h_ty e1 = h_ty e2 -> h_val e1 = h_val e2 ->
     h_alloc e1 = h_alloc e2) /\
  (forall e, In e (hs s) -> exists al, heap s (h_alloc e) = Some al /\
     a_val al = h_val e /\ a_ty al = h_ty e /\ 0 < a_cnt al /\ a_cnt al = refs (h_alloc e) (hs s)).
Proof. exact (canonical hash inD borrow conv H_hash H_conv). Qed.

(** Handles that share an allocation have the same type id (and value): values of
    different types never share. *)
Theorem C15_types_disjoint : forall s, reach s ->
  forall e1 e2, In e1 (hs s) -> In e2 (hs s) -> h_alloc e1 = h_alloc e2 ->
    h_ty e1 = h_ty e2 /\ h_val e1 = h_val e2.
Proof. exact (types_disjoint hash inD borrow conv H_hash H_conv). Qed.

(** A vacuum step on any entry by any thread at any time: afterwards every handle's table
    entry is still its allocation; an entry it removed pointed to an allocation with count
    0 and no handle; no other entry changed. *)
Theorem C15_vacuum_safe : forall s t ty h s', reach s -> stepC s t (AVacuumEntry ty h) = Some s' ->
  (forall e, In e (hs s) -> table s' (h_ty e) (hash (h_ty e) (h_val e)) = Some (h_alloc e)) /\
  (forall a, table s ty h = Some a -> table s' ty h = None ->
     cnt_of (heap s) a = 0 /\ forall e, In e (hs s) -> h_alloc e <> a) /\
  (forall ty' h', (ty', h') <> (ty, h) -> table s' ty' h' = table s ty' h').
Proof. exact (vacuum_safe hash inD borrow conv H_hash H_conv). Qed.

(** A table entry maps (type id, hash) only to an allocation of that type whose content
    has that hash — hence, by H-hash, to the only value of the domain with that hash. *)
Theorem C15_table_sound : forall s, reach s ->
  forall ty h a, table s ty h = Some a ->
    exists al, heap s a = Some al /\ a_ty al = ty /\ hash ty (a_val al) = h /\
      (forall v, inD ty v = true -> hash ty v = h -> a_val al = v).
Proof. exact (table_sound hash inD borrow conv H_hash H_conv). Qed.

(** get_from_hash by an idle thread is always enabled and returns either a new handle to
    the live allocation every existing handle for that (type id, hash) points to, or None,
    and None only if no handle for that key exists. *)
Theorem C15_get_from_hash : forall s t ty h, reach s -> pcs s t = Idle ->
  match gfh_result s ty h with
  | Some a =>
      stepC s t (AGetFromHash ty h) = Some (acquire s t false a ty (val_of (heap s) a) Idle) /\
      (exists al, heap s a = Some al /\ a_ty al = ty /\ hash ty (a_val al) = h /\ 0 < a_cnt al) /\
      (forall e, In e (hs s) -> h_ty e = ty -> hash ty (h_val e) = h -> h_alloc e = a)
  | None =>
      stepC s t (AGetFromHash ty h) = Some s /\
      (forall e, In e (hs s) -> ~ (h_ty e = ty /\ hash ty (h_val e) = h))
  end.
Proof. exact (get_from_hash_spec hash inD borrow conv H_hash H_conv). Qed.

(** The step that completes an intern call (probe hit, or the locked step after any steps
    of other threads) hands the caller a handle for exactly the requested (type, value);
    the hash computed before the probe is the one used for the insert. *)
Theorem C15_intern_returns : forall s t s' act, reach s -> stepC s t act = Some s' ->
  match act, pcs s t with
  | AProbeRead ty a, Idle =>
      (exists id, hs s' = Handle t false id ty (key_val borrow ty a) :: hs s /\ pcs s' t = Idle) \/
      (hs s' = hs s /\ pcs s' t = Miss ty a (hash ty (key_val borrow ty a)))
  | ALockedRecheckInsert, Miss ty a h =>
      exists id, hs s' = Handle t false id ty (key_val borrow ty a) :: hs s /\ pcs s' t = Idle
  | _, _ => True
  end.
Proof. exact (intern_returns hash inD borrow conv). Qed.

(** An allocation whose count reached 0 is never revived and never pointed to again. *)
Theorem C15_dead_forever : forall sched s s' a al, reach s -> runC s sched = Some s' ->
  heap s a = Some al -> a_cnt al = 0 ->
  heap s' a = Some al /\ forall e, In e (hs s') -> h_alloc e <> a.
Proof. exact (dead_forever hash inD borrow conv H_hash H_conv). Qed.
End C15.

(** The theorems are not vacuous and their mechanism matters: without the re-check under
    the write lock ([recheck = false]) a 4-step schedule gives two live allocations for
    one value; with a colliding hash a handle's content differs from the requested value. *)
Theorem C15_canonical_needs_recheck :
  exists sched s e1 e2, run hashX inDX idf idf false init sched = Some s /\
    In e1 (hs s) /\ In e2 (hs s) /\ h_ty e1 = h_ty e2 /\ h_val e1 = h_val e2 /\ h_alloc e1 <> h_alloc e2.
Proof. exact canonical_needs_recheck. Qed.
Theorem C15_content_needs_H_hash :
  exists sched s e, run (fun _ _ => 7) inDX idf idf true init sched = Some s /\
    In e (hs s) /\ h_val e = 2 /\ option_map a_val (heap s (h_alloc e)) = Some 1.
Proof. exact content_needs_H_hash. Qed.

(** Encoding then decoding a structure with repeated interned handles (Codec/Model.v:
    [TIntern], first occurrence inline, later ones by reference through the session's seen
    set; the decoder interns / looks up by hash) reproduces the value, and every handle
    occurrence of the decoded value — in containers, in enum variants, inside the content of
    other handles — is the decode-side interner's one entry for its (type id, hash): all
    occurrences with one (type id, hash) share one entry.  [cty] says which content type a
    type id names ([wf]: a type term uses each id with that content type). *)
Theorem C15_encode_sharing :
  forall (H : N -> val -> N) (Play : N -> val -> Prop),
    (forall id v1 v2, Play id v1 -> Play id v2 -> H id v1 = H id v2 -> v1 = v2) ->
    (forall id v, Play id v -> H id v < 2 ^ 128) ->
    forall (cty : N -> ty) t v, wf cty t -> wt Play t v -> exists bs s',
      encode H t v [] = Some (bs, s') /\
      forall rest I, Iok H Play I -> exists I',
        decode H t (bs ++ rest) I = Some (canon t v, rest, I') /\ Iok H Play I' /\
        (forall id c, In (id, c) (occ t (canon t v)) -> ilookup I' id (H id c) = Some c) /\
        (forall id c1 c2, In (id, c1) (occ t (canon t v)) -> In (id, c2) (occ t (canon t v)) ->
           H id c1 = H id c2 -> c1 = c2 /\ ilookup I' id (H id c1) = ilookup I' id (H id c2)).
Proof. exact encode_sharing. Qed.

(* the hypotheses are satisfiable and the premises are met by non-trivial reachable states *)
Check hashX_ok. Check state1_reachable. Check canonical_nonvacuous. Check types_disjoint_nonvacuous.
Check vacuum_nonvacuous. Check gfh_nonvacuous. Check dies_in_vacuum.
Check wf_tx : wf ctyX tx.  Check wt_vx : wt PlayX tx vx.  Check occ_vx.

Print Assumptions C15_canonical.
Print Assumptions C15_types_disjoint.
Print Assumptions C15_vacuum_safe.
Print Assumptions C15_table_sound.
Print Assumptions C15_get_from_hash.
Print Assumptions C15_intern_returns.
Print Assumptions C15_dead_forever.
Print Assumptions C15_canonical_needs_recheck.
Print Assumptions C15_content_needs_H_hash.
Print Assumptions C15_encode_sharing.
