(** C01 — incremental answers equal a from-scratch evaluation.
    Proved for the core fragment of the engine model (inputs + Normal queries with
    data-dependent / conditional dependencies, unchanged writes, reverts, early cut-off,
    pedantic repair of new dependencies): every program, every history, every fuel.
    and ([C01_fw_sound]) for the fragment with FIREWALL queries and their transitive-firewall-
    callee bookkeeping, and ([C01_model_sound]) for the full model [Engine/Model.v] on programs
    with Normal, Firewall and Projection queries, unordered groups and ([C01_model_sound_x])
    external inputs, i.e. every query kind of the property, and ([C01_model_sound_any_task_order])
    for every order of the parallel tasks of a request.  What stays outside the theorems: true
    interleaving of those tasks, and the tie between model and code, which is the correspondence
    run (answers, executions, bookkeeping), not a proof. *)
From QV Require Import Common.Prelude Engine.Model Engine.Core Engine.CoreSpec Engine.CoreSound.
From QV Require Import Engine.Fw Engine.FwSpec Engine.FwSound.
From QV Require Import Engine.MdlSpec Engine.MdlSound Engine.MdlNoPanic.

(** every answer [z] the model gives to a query at position [i] of a history is the
    from-scratch value of that query under the inputs committed by the first [i] operations *)
Theorem C01_core_sound :
  forall fuel p ops i n r z, wf_core p -> sessions_fuelled fuel p ops i ->
    nth_error ops i = Some (OQuery n) ->
    nth_error (crun_history_f fuel p cinit ops) i = Some r ->
    r_out r = RValue z ->
    Spec p (inputs_after (firstn i ops)) n z.
Proof. exact CoreSound.C01_core_sound. Qed.

(** the hypothesis on fuel is needed (a session whose propagation ran out of fuel) and is a
    model artefact: the real engine has no fuel *)
Theorem C01_core_unguarded_refuted : ~ C01_core_statement_unguarded.
Proof. exact CoreSound.C01_core_statement_unguarded_refuted. Qed.

(** no panic, no stuck request once every readable input has been set *)
Theorem C01_core_no_panic :
  forall fuel p ops i n r, wf_core p ->
    nth_error ops i = Some (OQuery n) -> alookup p n <> None ->
    nth_error (crun_history_f fuel p cinit ops) i = Some r ->
    inputs_cover p (inputs_after (firstn i ops)) ->
    (exists z, r_out r = RValue z) \/ r_out r = RFuel.
Proof. exact CoreSound.C01_core_no_panic. Qed.

(** The same for the FIREWALL fragment [Engine/Fw.v] (inputs, Normal and Firewall queries with
    data-dependent dependencies): dirty propagation stops at firewalls, every query records its
    transitive firewall callees, only the root of a request repairs them before trusting clean
    edges, and the three rules that keep this sound when a recorded set is out of date (pedantic
    repair of new dependencies; pedantic repair of a dependency whose recorded set is not the one
    accounted for; rebuild of the set with refreshed observations).  Every well-formed acyclic
    program, every history, every fuel. *)
Theorem C01_fw_sound :
  forall fuel p ops i n r z, wf_fw p -> fsessions_fuelled fuel p ops i ->
    nth_error ops i = Some (OQuery n) ->
    nth_error (frun_history_f fuel p init_state ops) i = Some r ->
    r_out r = RValue z ->
    FwSpec p (inputs_after (firstn i ops)) n z.
Proof. exact FwSound.fw_sound. Qed.

Theorem C01_fw_unguarded_refuted : ~ fw_sound_statement_unguarded.
Proof. exact FwSound.fw_sound_unguarded_refuted. Qed.

(** The FULL model [Engine/Model.v] - the very functions [step] / [run_history] that are compared
    with the real engine state by state on every run - for programs with Normal, Firewall and
    PROJECTION queries: backward projection (as pedantic repair), the pending mark, dirt sent up
    through projections when backward projections may not follow, a projection that reaches
    other firewalls with the same value.  Every well-formed acyclic program (projections read
    firewalls and projections only; UNORDERED GROUPS allowed: [wf_model_g]), every history of
    sessions, queries and restarts.  Out of scope (validated, not proved): external inputs /
    refresh. *)
Theorem C01_model_sound :
  forall p ops i n r z, wf_model_g p -> Forall op_in_scope ops ->
    model_sessions_fuelled p ops i ->
    nth_error ops i = Some (OQuery n) ->
    nth_error (run_history p init_state ops) i = Some r ->
    r_out r = RValue z ->
    MdlSpec p (inputs_after (firstn i ops)) n z.
Proof. exact MdlSound.model_sound_g. Qed.

(** ... and with EXTERNAL INPUTS: programs may read [KExternal] nodes, histories may change the
    world ([OSetWorld]), refresh ([OSession _ true]) and ask for an external input directly.  An
    external input is run on first demand and on refresh only, so its committed value is the
    world's answer at the last operation that ran it: [ext_after] replays that from the history
    and the executions the model reports ([r_execs], which the correspondence run compares
    with the real engine). *)
Theorem C01_model_sound_x :
  forall p ops i n r z, wf_model_x p ->
    model_sessions_fuelled p ops i ->
    nth_error ops i = Some (OQuery n) ->
    nth_error (run_history p init_state ops) i = Some r ->
    r_out r = RValue z ->
    MdlSpecX p (inputs_after (firstn i ops),
                ext_after (firstn (S i) ops) (firstn (S i) (run_history p init_state ops))) n z.
Proof. exact MdlSound.model_sound_x. Qed.

(** ... and for EVERY ORDER in which the parallel tasks of one request run: the real engine runs the
    repairs of a root's transitive firewall callees and the backward projections of a changed
    firewall as parallel tasks in hash-set order; [run_history_op tord bord pord] runs them in the order
    chosen, per state and per root, by the oracles [tord] / [bord], and the dirty worker expands the
    callers of a query in the order chosen by [pord] (any permutations: [order_ok]);
    [run_history] is the instance with the recorded list orders.  (True interleaving
    of those tasks - one suspended in the middle while another runs - is not modelled.) *)
Theorem C01_model_sound_any_task_order :
  forall tord bord pord p ops i n r z, order_ok tord -> order_ok bord -> order_ok pord -> wf_model_x p ->
    model_sessions_fuelled_op tord bord pord p ops i ->
    nth_error ops i = Some (OQuery n) ->
    nth_error (run_history_op tord bord pord p init_state ops) i = Some r ->
    r_out r = RValue z ->
    MdlSpecX p (inputs_after (firstn i ops),
                ext_after (firstn (S i) ops) (firstn (S i) (run_history_op tord bord pord p init_state ops))) n z.
Proof. exact MdlSound.model_sound_x_op. Qed.
Theorem C01_model_identity_order_is_run_history : forall p s ops,
  run_history_op ord_id ord_id ord_id p s ops = run_history p s ops.
Proof. reflexivity. Qed.
Check ord_rev_ok.        (* reversing is an admissible order ... *)
Check mex_run_rev.       (* ... it changes the executions, not the answers *)
Check mex_order_needed.  (* an oracle that drops tasks gives a stale answer: the hypothesis is needed *)

(** no panic, no stuck request: ANY history (refresh, world changes, restarts, earlier queries
    that panicked or ran out of fuel), no fuel hypothesis *)
Theorem C01_model_no_panic :
  forall p ops i n r, wf_model_x p ->
    nth_error ops i = Some (OQuery n) -> alookup p n <> None ->
    nth_error (run_history p init_state ops) i = Some r ->
    inputs_cover p (inputs_after (firstn i ops)) ->
    (exists z, r_out r = RValue z) \/ r_out r = RFuel.
Proof. exact MdlNoPanic.model_no_panic_x. Qed.
Check mex_uncovered.   (* both premises are needed *)

Theorem C01_model_unguarded_refuted : ~ model_sound_statement_unguarded.
Proof. exact MdlSound.model_sound_unguarded_refuted. Qed.

Check mexx_prog_wf. (* external inputs: first demand, unseen world change, refresh, direct query *)
Check mexx_run.
Check mexx_spec.
Check mexg_prog_wf. (* ... and a projection over an unordered group of firewalls *)
Check mexg_run.
Check mex_prog_wf.  (* wf_model is satisfiable: a projection switching between firewalls, a projection over a projection *)
Check mex_run.
Check fex_prog_wf.  (* wf_fw is satisfiable by a program whose dependency switches between two firewalls *)
Check fex_run.      (* and the model run on it goes through switch, change behind the new firewall, switch back *)

Check ex_prog_wf.   (* wf_core is satisfiable by a program with a conditional dependency *)
Check ex_run.       (* and the model run on it shows change, unchanged write, revert, cut-off *)

Print Assumptions C01_core_sound.
Print Assumptions C01_core_unguarded_refuted.
Print Assumptions C01_core_no_panic.
Print Assumptions C01_fw_sound.
Print Assumptions C01_fw_unguarded_refuted.
Print Assumptions C01_model_sound.
Print Assumptions C01_model_sound_x.
Print Assumptions C01_model_sound_any_task_order.
Print Assumptions C01_model_identity_order_is_run_history.
Print Assumptions C01_model_no_panic.
Print Assumptions C01_model_unguarded_refuted.
