(** C03 — only justified work is re-executed (core fragment of the engine model). *)
From QV Require Import Common.Prelude Engine.Model Engine.Core Engine.CoreSpec Engine.CoreSound.
From QV Require Import Engine.Fw Engine.FwOnce.
From QV Require Import Engine.MdlSpec Engine.MdlSem Engine.MdlOnce Engine.MdlJust Engine.MdlJustX.

(** an executor runs at most once per request and at most once between two input sessions *)
Theorem C03_core_once :
  forall fuel p ops i j m r, wf_core p ->
    let rs := crun_history_f fuel p cinit ops in
    (nth_error rs i = Some r -> NoDup (r_execs r)) /\
    ((j < i)%nat -> executed_at rs i m -> executed_at rs j m -> ~ no_session_between ops j i).
Proof. exact CoreSound.C03_core_once. Qed.

(** a query executed again (last executed at operation [j], now at [i]) read, at [j], a
    dependency whose from-scratch value is different at [i] *)
Theorem C03_core_justified :
  forall fuel p ops i j m, wf_core p -> sessions_fuelled fuel p ops i ->
    let rs := crun_history_f fuel p cinit ops in
    executed_at rs i m -> (j < i)%nat -> executed_at rs j m ->
    (forall k, (j < k < i)%nat -> ~ executed_at rs k m) ->
    exists d, Reads p (inputs_after (firstn (S j) ops)) m d /\
              forall v, Spec p (inputs_after (firstn (S j) ops)) d v ->
                        ~ Spec p (inputs_after (firstn (S i) ops)) d v.
Proof. exact CoreSound.C03_core_justified. Qed.

Theorem C03_core_justified_unguarded_refuted : ~ C03_core_justified_statement_unguarded.
Proof. exact CoreSound.C03_core_justified_statement_unguarded_refuted. Qed.

(** at most once per request and per epoch also with FIREWALL queries (any program, any fuel) *)
Theorem C03_fw_once :
  forall fuel p ops i j m r,
    let rs := frun_history_f fuel p init_state ops in
    (nth_error rs i = Some r -> NoDup (r_execs r)) /\
    ((j < i)%nat -> executed_at rs i m -> executed_at rs j m -> ~ no_session_between ops j i).
Proof. exact FwOnce.fw_once. Qed.

(** The FULL model [Engine/Model.v] ([run_history] itself) on programs with Normal, Firewall and
    PROJECTION queries and unordered groups: at most once per request and per epoch, and every re-execution is
    justified - some dependency READ BY THE PREVIOUS RUN ([MReads]: the read list of the
    from-scratch evaluation of the body under the inputs of that time) has a different
    from-scratch value now.  This includes the projections re-visited by backward projection
    (a pedantic repair since /repo 2e5f36f: no unconditional re-run). *)
Theorem C03_model_once :
  forall p ops i j m r, wf_model_g p -> Forall op_in_scope ops ->
    let rs := run_history p init_state ops in
    (nth_error rs i = Some r -> NoDup (r_execs r)) /\
    ((j < i)%nat -> executed_at rs i m -> executed_at rs j m -> ~ no_session_between ops j i).
Proof. exact MdlOnce.model_once_g. Qed.

Theorem C03_model_justified :
  forall p ops i j m, wf_model_g p -> Forall op_in_scope ops -> model_sessions_fuelled p ops i ->
    let rs := run_history p init_state ops in
    executed_at rs i m -> (j < i)%nat -> executed_at rs j m ->
    (forall k, (j < k < i)%nat -> ~ executed_at rs k m) ->
    exists d, MReads p (inputs_after (firstn (S j) ops)) m d /\
              forall v, MdlSpec p (inputs_after (firstn (S j) ops)) d v ->
                        ~ MdlSpec p (inputs_after (firstn (S i) ops)) d v.
Proof. exact MdlJust.model_justified_g. Qed.

(** ... for every order of the parallel tasks of a request ([run_history_o], see Properties/C01.v);
    "at most once" needs no hypothesis on the order at all *)
Theorem C03_model_once_any_task_order :
  forall (tord bord : oracle) p ops i j m r, wf_model_g p -> Forall op_in_scope ops ->
    let rs := run_history_o tord bord p init_state ops in
    (nth_error rs i = Some r -> NoDup (r_execs r)) /\
    ((j < i)%nat -> executed_at rs i m -> executed_at rs j m -> ~ no_session_between ops j i).
Proof. exact MdlOnce.model_once_g_o. Qed.
Theorem C03_model_justified_any_task_order :
  forall tord bord p ops i j m, order_ok tord -> order_ok bord ->
    wf_model_g p -> Forall op_in_scope ops -> model_sessions_fuelled_o tord bord p ops i ->
    let rs := run_history_o tord bord p init_state ops in
    executed_at rs i m -> (j < i)%nat -> executed_at rs j m ->
    (forall k, (j < k < i)%nat -> ~ executed_at rs k m) ->
    exists d, MReads p (inputs_after (firstn (S j) ops)) m d /\
              forall v, MdlSpec p (inputs_after (firstn (S j) ops)) d v ->
                        ~ MdlSpec p (inputs_after (firstn (S i) ops)) d v.
Proof. exact MdlJust.model_justified_g_o. Qed.

(** with EXTERNAL INPUTS, every history (refresh, world changes): a re-executed external input is
    re-read by a refreshing session; a re-executed query read, at its previous execution, a
    dependency whose from-scratch value - external inputs holding what the world answered at
    the last operation that ran them ([ext_after]) - is different now *)
Theorem C03_model_justified_x :
  forall p ops i j m, wf_model_x p -> model_sessions_fuelled p ops i ->
    justified_x p ops (run_history p init_state ops) i j m.
Proof. exact MdlJustX.model_justified_x. Qed.
Check mexx_justified.

Print Assumptions C03_core_once.
Print Assumptions C03_model_justified_x.
Print Assumptions C03_model_once_any_task_order.
Print Assumptions C03_model_justified_any_task_order.
Print Assumptions C03_model_once.
Print Assumptions C03_model_justified.
Print Assumptions C03_fw_once.
Print Assumptions C03_core_justified.
Print Assumptions C03_core_justified_unguarded_refuted.
