(** C16 — the admission cache never evicts pinned entries and stays bounded.
    This file only pins statements and reports their assumptions.

    Everything is about the executable model Lfu/Model.v of TinyLFU (single-threaded
    semantics), for ALL operation sequences from the empty cache ([reachable]), every
    capacity configuration with [wf_cfg] (every [mk_cfg cap poll as_code] is one), both
    unpin strategies ([poll c]), every value type and pin predicate ([pinned]), and every
    frequency sketch ([SK], [sk_record], [sk_gt] are arbitrary).  [as_code c = true] is
    the code as it was (Policy::unpin unwraps the probation tail), [false] the repair. *)
From QV Require Import Common.Prelude Lfu.Model Lfu.LruInv Lfu.Inv Lfu.Theorems Lfu.LockTable
  Lfu.Check Lfu.Examples.
Open Scope N_scope.

Section Statements.
  Variables (V U SK : Type).
  Variable pinned : N -> V -> bool.
  Variable apply : U -> V -> V.
  Variable sk_record : SK -> N -> SK.
  Variable sk_gt : SK -> N -> N -> bool.

  Notation step := (step V U SK pinned apply sk_record sk_gt).
  Notation run_from := (run_from V U SK pinned apply sk_record sk_gt).
  Notation reachable := (reachable V U SK pinned apply sk_record sk_gt).
  Notation spec_after := (spec_after V U apply).

  (** (a) a key whose value its owner reports as pinned when the eviction decision is
      taken (= after the operation's own effect on that key) is still resident with that
      value after the operation and all maintenance it triggered, and is not in the
      eviction log; every key that is in the eviction log held an unpinned value. *)
  Theorem C16_pinned_never_evicted :
    forall (c : cfg), wf_cfg c -> forall (sk0 : SK) s o s' r,
      reachable c sk0 s -> step c o s = Ok (s', r) ->
      (forall k v, spec_after o k (slookup k (st s)) = Some v -> pinned k v = true ->
                   slookup k (st s') = Some v /\ ~ In k (ev s')) /\
      (forall k, In k (ev s') ->
                 exists v, spec_after o k (slookup k (st s)) = Some v /\ pinned k v = false).
  Proof. exact (pinned_never_evicted V U SK pinned apply sk_record sk_gt). Qed.

  (** (b) get/peek return the stored value, and after any operation a key holds exactly
      what the reference map (insert-if-vacant / modify / remove) says, unless it was
      evicted during that operation; over whole runs the final storage is the fold of the
      reference semantics and the eviction events. *)
  Theorem C16_readable_until_gone :
    forall (c : cfg), wf_cfg c -> forall (sk0 : SK) s o s' r,
      reachable c sk0 s -> step c o s = Ok (s', r) ->
      (forall k, o = Get k \/ o = Peek k -> r = RVal (slookup k (st s))) /\
      (forall k, slookup k (st s') = if mem k (ev s') then None else spec_after o k (slookup k (st s))).
  Proof. exact (readable_until_gone V U SK pinned apply sk_record sk_gt). Qed.

  Theorem C16_readable_run :
    forall (c : cfg), wf_cfg c -> forall (sk0 : SK) ops s tr k,
      run_from c ops (init sk0) = Ok (s, tr) ->
      slookup k (st s) = spec_run V U apply ops tr k None.
  Proof. exact (readable_run V U SK pinned apply sk_record sk_gt). Qed.

  (** (c) resident entries <= policy capacity + length of the Pinned region + 32 *)
  Theorem C16_bounded :
    forall (c : cfg), wf_cfg c -> forall (sk0 : SK) s,
      reachable c sk0 s -> len (st s) <= maxcap c + cnt (r_pin (lr s)) + 32.
  Proof. exact (bounded V U SK pinned apply sk_record sk_gt). Qed.

  (** (d) counters = list lengths; no key twice in the regions; no key stored twice; every
      stored key is tracked by a region or its Insert message is still buffered; regions
      within the capacities of Policy::new; at most 32 buffered messages between operations *)
  Theorem C16_region_accounting :
    forall (c : cfg), wf_cfg c -> forall (sk0 : SK) s,
      reachable c sk0 s ->
      (forall r, cnt (getr r (lr s)) = len (items (getr r (lr s)))) /\
      NoDup (all_keys (lr s)) /\
      NoDup (map fst (st s)) /\
      (forall k, In k (map fst (st s)) -> In k (all_keys (lr s)) \/ In (WInsert k) (wb s)) /\
      len (items (r_win (lr s))) <= wcap c /\
      len (items (r_prot (lr s))) <= pcap c /\
      len (items (r_prob (lr s))) + len (items (r_prot (lr s))) <= maxcap c - wcap c /\
      len (wb s) <= 32.
  Proof. exact (region_accounting V U SK pinned apply sk_record sk_gt). Qed.

  (** (e) no operation sequence panics or gets stuck in the repaired variant; in the code
      as it was the only possible failure is the unwrap at policy.rs:172 *)
  Theorem C16_total :
    forall (c : cfg), wf_cfg c -> forall (sk0 : SK),
      as_code c = false -> forall ops, exists s tr, run_from c ops (init sk0) = Ok (s, tr).
  Proof. exact (total V U SK pinned apply sk_record sk_gt). Qed.

  Theorem C16_total_or_panic_172 :
    forall (c : cfg), wf_cfg c -> forall (sk0 : SK) ops,
      (as_code c = true /\ run_from c ops (init sk0) = Panic 172) \/
      exists s tr, run_from c ops (init sk0) = Ok (s, tr).
  Proof. exact (total_or_panic_172 V U SK pinned apply sk_record sk_gt). Qed.
End Statements.

(** every configuration the code can build is well formed, and its capacity is at most the
    configured one + 1 (f64 arithmetic of Policy::new, checked for capacities 0..2048) *)
Theorem C16_cfg_wf : forall cap poll_ as_code_, wf_cfg (mk_cfg cap poll_ as_code_).
Proof. exact wf_mk_cfg. Qed.

Theorem C16_capacity_arith :
  forall cap, In cap (map N.of_nat (seq 0 2049)) ->
    max_capacity cap <= cap + 1 /\ cap <= max_capacity cap /\ window_capacity cap <= cap.
Proof. exact capacity_arith. Qed.

(** (e) is FALSE for the code as it was: capacity 4, Notify, the exact sketch *)
Theorem C16_total_refuted :
  exists ops,
    run_from cval cupd sketch cpinned capply sketch_record sketch_gt (mk_cfg 4 false true) ops (cinit 4)
    = Panic 172.
Proof. exact total_refuted. Qed.

(** lock table: pinned = "strong count > 1" *)
Theorem C16_lock_table_same_lock :
  forall (U SK : Type) (apply : U -> lock_val -> lock_val) (sk_record : SK -> N -> SK)
         (sk_gt : SK -> N -> N -> bool) (c : cfg), wf_cfg c -> forall (sk0 : SK) s k id rc,
    reachable lock_val U SK lock_pinned apply sk_record sk_gt c sk0 s ->
    slookup k (st s) = Some (id, rc) -> 1 < rc ->
    (forall s' r, step lock_val U SK lock_pinned apply sk_record sk_gt c (Get k) s = Ok (s', r) ->
                  r = RVal (Some (id, rc)) /\ slookup k (st s') = Some (id, rc)) /\
    (forall v s' r, step lock_val U SK lock_pinned apply sk_record sk_gt c (Insert k v) s = Ok (s', r) ->
                  r = RBool false /\ slookup k (st s') = Some (id, rc)).
Proof. exact same_lock. Qed.

Theorem C16_lock_table_held :
  forall (U SK : Type) (apply : U -> lock_val -> lock_val) (sk_record : SK -> N -> SK)
         (sk_gt : SK -> N -> N -> bool) (c : cfg), wf_cfg c -> forall ops s s' tr k,
    inv lock_val SK c s ->
    run_from lock_val U SK lock_pinned apply sk_record sk_gt c ops s = Ok (s', tr) ->
    held U apply k ops (slookup k (st s)) ->
    slookup k (st s') = spec_fold U apply k ops (slookup k (st s)) /\
    Forall (fun x => ~ In k (snd x)) tr.
Proof. exact lock_never_evicted_while_held. Qed.

Theorem C16_lock_table_same_instance :
  forall (U : Type) (apply : U -> lock_val -> lock_val),
    (forall u v, fst (apply u v) = fst v) ->
    forall ops k id rc, held U apply k ops (Some (id, rc)) ->
      exists rc', spec_fold U apply k ops (Some (id, rc)) = Some (id, rc').
Proof. exact lock_same_instance. Qed.

(** the hypotheses are satisfiable by non-trivial reachable states (Lfu/Examples.v) *)
Check ex_reachable. Check ex_nontrivial. Check ex_pre_reachable. Check ex_step.
Check witness_repaired. Check accounting_not_exact. Check lock_held.

Print Assumptions C16_pinned_never_evicted.
Print Assumptions C16_readable_until_gone.
Print Assumptions C16_readable_run.
Print Assumptions C16_bounded.
Print Assumptions C16_region_accounting.
Print Assumptions C16_total.
Print Assumptions C16_total_or_panic_172.
Print Assumptions C16_cfg_wf.
Print Assumptions C16_capacity_arith.
Print Assumptions C16_total_refuted.
Print Assumptions C16_lock_table_same_lock.
Print Assumptions C16_lock_table_held.
Print Assumptions C16_lock_table_same_instance.
