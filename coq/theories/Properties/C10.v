(** C10 — write-behind applies every batch exactly once, in order, by shutdown.
    This file only pins statements and reports their assumptions.

    Vocabulary (WriteBehind/Model.v): [bs] are the logical batches in creation order,
    [tasks_of bs] pairs each with its epoch 0,1,2,…; an event list [evs] is what the
    single committer thread sees: tasks arriving in any order ([Arrive]) interleaved
    with the shutdown flag going up; [run] is the committer loop (hold-back heap +
    [process_pending_commits]), [finish] its tail after the channel is closed (drain,
    unconditional flush, assertion that the heap is empty); [more] is the store's
    [should_write_more] as an arbitrary function of the open physical batch;
    [log] is the list of physical commits, each a list of (epoch, operations). *)
From QV Require Import Common.Prelude WriteBehind.Model WriteBehind.Order WriteBehind.Examples.
From Coq Require Import Permutation.
Open Scope N_scope.

(** Whatever the arrival order and the grouping oracle: the commit log is exactly the
    grouping of the batches taken in creation order (so it does not depend on the
    arrival order); flattened, it is the task list itself — every physical commit is a
    run of consecutive epochs and the runs follow each other without gap or overlap;
    the operations reach the store in creation order; nothing is left in the heap or
    in an open group and the final assertion holds. *)
Theorem C10_order : forall (more : list (list op) -> bool) (bs : list (list op)) (evs : list event),
  Permutation (arrivals evs) (tasks_of bs) ->
  let st := finish more (run more evs) in
  log st = group more (tasks_of bs) /\
  concat (log st) = tasks_of bs /\
  map fst (concat (log st)) = epochs (length bs) /\
  concat (map snd (concat (log st))) = concat bs /\
  heap st = [] /\ cur st = [] /\ assert_ok st = true.
Proof. exact order. Qed.

Theorem C10_arrival_independent : forall more bs evs evs',
  Permutation (arrivals evs) (tasks_of bs) -> Permutation (arrivals evs') (tasks_of bs) ->
  log (finish more (run more evs)) = log (finish more (run more evs')).
Proof. exact order_independent. Qed.

(** Every intermediate commit log (after any prefix [evs1] of the events) consists of
    whole physical commits of the final log, and what has been taken out of the heap
    so far (committed or in the open group) is a prefix of the creation order cut at a
    batch boundary. *)
Theorem C10_prefix : forall more bs evs1 evs2,
  Permutation (arrivals (evs1 ++ evs2)) (tasks_of bs) ->
  exists groups j,
    log (finish more (run more (evs1 ++ evs2))) = log (run more evs1) ++ groups /\
    concat (log (run more evs1)) ++ cur (run more evs1) = firstn j (tasks_of bs).
Proof. exact prefix. Qed.

(** Folding the physical commits into any initial store gives what applying the
    batches one after another in creation order gives (put / delete / insert-member /
    delete-member over arbitrary, overlapping cells). *)
Theorem C10_store : forall more bs evs s0,
  Permutation (arrivals evs) (tasks_of bs) ->
  fold_left commit (log (finish more (run more evs))) s0 = fold_left apply_batch bs s0.
Proof. exact store_eq. Qed.

Theorem C10_exactly_once : forall more bs evs,
  Permutation (arrivals evs) (tasks_of bs) ->
  let st := finish more (run more evs) in
  Permutation (concat (log st)) (arrivals evs) /\ NoDup (map fst (concat (log st))).
Proof. exact exactly_once. Qed.

(** Without any assumption on what arrives (gaps, duplicated epochs): committed and
    held-back tasks together are exactly the arrived ones — nothing is lost or applied
    twice. *)
Theorem C10_conservation : forall more evs,
  Permutation (concat (log (finish more (run more evs))) ++ heap (finish more (run more evs))) (arrivals evs).
Proof. exact conservation. Qed.

(** Hazard: if epoch [g] is never submitted, nothing at or above [g] is ever committed,
    every later task that arrived is still in the heap at shutdown, and the
    committer's final assertion fails. *)
Theorem C10_gap_stalls : forall more g evs,
  (forall t, In t (arrivals evs) -> fst t <> g) ->
  let st := finish more (run more evs) in
  (forall t, In t (concat (log st)) -> fst t < g) /\
  (forall t, In t (arrivals evs) -> g < fst t -> In t (heap st)) /\
  ((exists t, In t (arrivals evs) /\ g < fst t) -> assert_ok st = false).
Proof. exact gap_stalls. Qed.

(** Cache notifications (after-commit tasks) are only ever sent for batches that are
    already in the commit log. *)
Theorem C10_notify_after_commit : forall more evs,
  incl (notified (finish more (run more evs))) (map fst (concat (log (finish more (run more evs))))).
Proof. exact notified_committed. Qed.

(** the store is a map: the last write to a cell wins, other cells are untouched *)
Theorem C10_store_is_map : forall s c c' v,
  sget (sset s c v) c = Some v /\ sget (sdel s c) c = None /\
  (c' <> c -> sget (sset s c v) c' = sget s c' /\ sget (sdel s c) c' = sget s c').
Proof.
  intros s c c' v. split; [apply sget_sset_same|]. split; [apply sget_sdel_same|].
  intros H. split; [apply sget_sset_other|apply sget_sdel_other]; exact H.
Qed.

Check evsx_perm : Permutation (arrivals evsx) (tasks_of bsx).   (* hypotheses satisfiable *)
Check runx.
Check storex.
Check gapx.
Check gapx_hyp.

Print Assumptions C10_order.
Print Assumptions C10_arrival_independent.
Print Assumptions C10_prefix.
Print Assumptions C10_store.
Print Assumptions C10_exactly_once.
Print Assumptions C10_conservation.
Print Assumptions C10_gap_stalls.
Print Assumptions C10_notify_after_commit.
Print Assumptions C10_store_is_map.
