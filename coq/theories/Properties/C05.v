(** C05 — cancellation or an executor panic never corrupts the engine.
    Proved for the core fragment of the engine model and ([C05_model_cancel_sound]) for the full
    model with every query kind.  Publications run in non-cancellable
    sections, and every publication is the last action of a (sub-)request, so what a query
    that is dropped at a suspension point leaves behind is the effect of the sub-requests
    that had completed; its computing entries are volatile.  That is modelled by [CPartial]:
    a request with ARBITRARY caller kind, pedantic flag, previous-dependency list, frame and
    computing stack, interleaved anywhere in a history, whose outcome is discarded.  The
    only side condition is on the stack ([cstack_ok]: no stack member is reachable from the
    requested query, unless the query itself is on the stack), satisfied by every stack
    that arises inside a run ([RStkOk_cstack_ok]) and necessary ([ex_cancel_bad_stack]).
    PARTIAL: that dropping a Rust future really lands on such a boundary (the `Guard`
    re-spawn), executor panics, and the absence of lock deadlocks are validated on the real
    engine by `engine cancel` (cancellation after every number of polls, panics, dropped
    commit futures), not proved. *)
From QV Require Import Common.Prelude Engine.Model Engine.Core Engine.CoreSpec Engine.CoreCancel.
From QV Require Import Engine.MdlSpec Engine.MdlCancel Engine.MdlCancelOnce Engine.MdlRunBase Engine.MdlRun Engine.MdlSites.

Theorem C05_core_cancel_sound : forall fuel p ops i n r z,
  wf_core p -> csessions_fuelled fuel p ops i -> cpartials_ok p ops i ->
  nth_error ops i = Some (CUser (OQuery n)) ->
  nth_error (crun_cancel_f fuel p cinit ops) i = Some (Some r) -> r_out r = RValue z ->
  Spec p (cinputs_after (firstn i ops)) n z.
Proof. exact CoreCancel.C05_core_cancel_sound. Qed.

Theorem C05_core_cancel_no_panic : forall fuel p ops i n r,
  wf_core p -> cpartials_ok p ops i ->
  nth_error ops i = Some (CUser (OQuery n)) -> alookup p n <> None ->
  nth_error (crun_cancel_f fuel p cinit ops) i = Some (Some r) ->
  inputs_cover p (cinputs_after (firstn i ops)) ->
  (exists z, r_out r = RValue z) \/ r_out r = RFuel.
Proof. exact CoreCancel.C05_core_cancel_no_panic. Qed.

(** a query executed by cancelled work is not executed again in the same epoch *)
Theorem C05_core_cancel_once : forall fuel p ops i j m lj li,
  let ex := cexecs_cancel_f fuel p cinit ops in
  (nth_error ex i = Some li -> NoDup li) /\
  ((j < i)%nat -> nth_error ex j = Some lj -> In m lj -> nth_error ex i = Some li -> In m li ->
   ~ cno_session_between ops j i).
Proof. exact CoreCancel.C05_core_cancel_once. Qed.

(** The FULL model [Engine/Model.v] (Normal, Firewall, Projection queries, unordered groups,
    external inputs): [MPartial stk c fr n] is a completed sub-request [query_for] with ARBITRARY
    stack, caller, flags, previous-dependency list and frame, interleaved anywhere, whose outcome
    is discarded.  Side condition [mpartial_ok]: every stack member reads the requested query
    (true of every real stack), root-kind callers have the empty stack, and a NON-pedantic
    sub-request is only started where the engine starts one (its transitive firewall callees,
    resp. the firewalls accounted for by the caller, are verified) - shown necessary
    ([C05_model_cancel_side_condition_needed]). *)
Theorem C05_model_cancel_sound :
  forall p ops i n r z,
    wf_model_x p -> mcsessions_fuelled fuel0 4000 p ops i -> mpartials_ok fuel0 4000 p ops i ->
    nth_error ops i = Some (MUser (OQuery n)) ->
    nth_error (mrun_cancel_f fuel0 4000 p init_state ops) i = Some (Some r) -> r_out r = RValue z ->
    MdlSpecX p (minputs_after (firstn i ops),
                ext_after_c (firstn (S i) ops) (firstn (S i) (mexecs_cancel_f fuel0 4000 p init_state ops))) n z.
Proof. exact MdlCancel.model_cancel_sound_x. Qed.
Theorem C05_model_cancel_sound_any_task_order :
  forall tord bord p ops i n r z, order_ok tord -> order_ok bord ->
    wf_model_x p -> mcsessions_fuelled_o tord bord fuel0 4000 p ops i -> mpartials_ok_o tord bord fuel0 4000 p ops i ->
    nth_error ops i = Some (MUser (OQuery n)) ->
    nth_error (mrun_cancel_fo tord bord fuel0 4000 p init_state ops) i = Some (Some r) -> r_out r = RValue z ->
    MdlSpecX p (minputs_after (firstn i ops),
                ext_after_c (firstn (S i) ops) (firstn (S i) (mexecs_cancel_fo tord bord fuel0 4000 p init_state ops))) n z.
Proof. exact MdlCancel.model_cancel_sound_x_o. Qed.
Theorem C05_model_cancel_user_step_is_step : forall p s o,
  mstep_cancel_f fuel0 4000 p s (MUser o) = (let '(s', r) := step p s o in (s', Some r)).
Proof. exact MdlCancel.mstep_cancel_user. Qed.
Theorem C05_model_cancel_side_condition_needed : ~ model_cancel_sound_unguarded.
Proof. exact MdlCancel.model_cancel_side_condition_needed. Qed.
(** nothing is executed twice in an epoch, cancelled work included (any program, arbitrary
    partial requests - no side condition; sessions without refresh) *)
Theorem C05_model_cancel_once :
  forall p ops i j m lj li, Forall mop_once_scope ops ->
    let ex := mexecs_cancel_f fuel0 4000 p init_state ops in
    (nth_error ex i = Some li -> NoDup li) /\
    ((j < i)%nat -> nth_error ex j = Some lj -> In m lj -> nth_error ex i = Some li -> In m li ->
     ~ mno_session_between ops j i).
Proof. exact MdlCancelOnce.model_cancel_once. Qed.
(** ... and without any restriction on the history (refresh, world changes, queries of external inputs) *)
Theorem C05_model_cancel_once_all :
  forall p ops i j m lj li,
    let ex := mexecs_cancel_f fuel0 4000 p init_state ops in
    (nth_error ex i = Some li -> NoDup li) /\
    ((j < i)%nat -> nth_error ex j = Some lj -> In m lj -> nth_error ex i = Some li -> In m li ->
     ~ mno_session_between ops j i).
Proof. exact MdlCancelOnce.model_cancel_once_all. Qed.
(** the side condition is exactly the request premises of the soundness induction, which that
    induction establishes at every call site of [query_for] (one lemma per site in MdlSites.v) *)
Theorem C05_model_side_condition_is_the_induction_premise : forall p stk c n s,
  mpartial_ok p s stk c n <-> (StkR p stk n /\ (is_cq c = false -> stk = []) /\ MNPq c n s).
Proof. exact MdlSites.request_premises_partial_ok. Qed.
Check site_user. Check site_tfc. Check site_bp. Check site_retry. Check site_read. Check site_walk.
Check mpartial_unchanged.
Check mcx_run_ok.     (* cancelled pedantic work is reused: right answer afterwards *)

(** a partial request that does not complete (panic, fuel) leaves the state untouched *)
Check cpartial_unchanged.
Check RStkOk_cstack_ok.     (* every stack of a real run satisfies the side condition *)
Check ex_cancel_run.
Check ex_cancel_bad_stack.  (* and the side condition is needed *)

Print Assumptions C05_core_cancel_sound.
Print Assumptions C05_core_cancel_no_panic.
Print Assumptions C05_core_cancel_once.
Print Assumptions C05_model_cancel_sound.
Print Assumptions C05_model_cancel_sound_any_task_order.
Print Assumptions C05_model_cancel_user_step_is_step.
Print Assumptions C05_model_cancel_side_condition_needed.
Print Assumptions C05_model_cancel_once.
Print Assumptions C05_model_cancel_once_all.
Print Assumptions C05_model_side_condition_is_the_induction_premise.
