(** C05 — cancellation or an executor panic never corrupts the engine.
    Proved for the core fragment of the engine model.  Publications run in non-cancellable
    sections, and every publication is the last action of a (sub-)request, so what a query
    that is dropped at a suspension point leaves behind is the effect of the sub-requests
    that had completed; its computing entries are volatile.  That is modelled by [CPartial]:
    a request with ARBITRARY caller kind, pedantic flag, previous-dependency list, frame and
    computing stack, interleaved anywhere in a history, whose outcome is discarded.  The
    only side condition is on the stack ([cstack_ok]: no stack member is reachable from the
    requested query, unless the query itself is on the stack), satisfied by every stack
    that arises inside a run ([RStkOk_cstack_ok]) and necessary ([ex_cancel_bad_stack]).
    PARTIAL: that dropping a Rust future really lands on such a boundary (the `Guard`
    re-spawn), executor panics, and the absence of lock deadlocks are validated on the real
    engine by `engine cancel` (cancellation after every number of polls, panics, dropped
    commit futures), not proved. *)
From QV Require Import Common.Prelude Engine.Model Engine.Core Engine.CoreSpec Engine.CoreCancel.

Theorem C05_core_cancel_sound : forall fuel p ops i n r z,
  wf_core p -> csessions_fuelled fuel p ops i -> cpartials_ok p ops i ->
  nth_error ops i = Some (CUser (OQuery n)) ->
  nth_error (crun_cancel_f fuel p cinit ops) i = Some (Some r) -> r_out r = RValue z ->
  Spec p (cinputs_after (firstn i ops)) n z.
Proof. exact CoreCancel.C05_core_cancel_sound. Qed.

Theorem C05_core_cancel_no_panic : forall fuel p ops i n r,
  wf_core p -> cpartials_ok p ops i ->
  nth_error ops i = Some (CUser (OQuery n)) -> alookup p n <> None ->
  nth_error (crun_cancel_f fuel p cinit ops) i = Some (Some r) ->
  inputs_cover p (cinputs_after (firstn i ops)) ->
  (exists z, r_out r = RValue z) \/ r_out r = RFuel.
Proof. exact CoreCancel.C05_core_cancel_no_panic. Qed.

(** a query executed by cancelled work is not executed again in the same epoch *)
Theorem C05_core_cancel_once : forall fuel p ops i j m lj li,
  let ex := cexecs_cancel_f fuel p cinit ops in
  (nth_error ex i = Some li -> NoDup li) /\
  ((j < i)%nat -> nth_error ex j = Some lj -> In m lj -> nth_error ex i = Some li -> In m li ->
   ~ cno_session_between ops j i).
Proof. exact CoreCancel.C05_core_cancel_once. Qed.

(** a partial request that does not complete (panic, fuel) leaves the state untouched *)
Check cpartial_unchanged.
Check RStkOk_cstack_ok.     (* every stack of a real run satisfies the side condition *)
Check ex_cancel_run.
Check ex_cancel_bad_stack.  (* and the side condition is needed *)

Print Assumptions C05_core_cancel_sound.
Print Assumptions C05_core_cancel_no_panic.
Print Assumptions C05_core_cancel_once.
