(** C13 — stable hashes are deterministic, history-free and discriminating.
    This file only pins statements and reports their assumptions.

    Notation of the statements (Hash/Model.v): [fstream t v] is the byte stream that a
    value [v] of the Rust type described by [t] feeds to the hasher ([FSub] nodes keep the
    per-entry sub-hasher streams of an unordered collection); [feq] is equality of such
    streams up to the order of the sub-hasher streams (their sub-hashes are added up);
    [veq t] is value identity as hashing sees it (entry order of unordered collections
    and NaN payloads are irrelevant; +0.0 and -0.0 differ); [wt t v] says that [v] is a
    value of type [t]. *)
From Coq Require Import Permutation.
From QV Require Import Common.Prelude Codec.Varint Codec.Model Hash.Model Hash.Framing Hash.Unordered
  Hash.Fingerprint Hash.WellTyped Hash.Examples.
Open Scope N_scope.

(** Different values feed different streams: the stream determines the value. *)
Theorem C13_injective : forall t v v',
  wt t v -> wt t v' -> feq (fstream t v) (fstream t v') -> veq t v v'.
Proof. exact injective. Qed.

(** The stream is self-delimiting: whatever follows two streams of one type, equal
    concatenations have equal heads and equal tails.  This is what makes the plain
    concatenation in tuples, structs, variants and sequence elements unambiguous; in
    particular no stream is a proper prefix of another stream of the same type. *)
Theorem C13_prefix_free : forall t v v' r r',
  wt t v -> wt t v' -> feq (fstream t v ++ r) (fstream t v' ++ r') -> veq t v v' /\ feq r r'.
Proof. exact prefix_free. Qed.

Corollary C13_no_proper_prefix : forall t v v' r,
  wt t v -> wt t v' -> fstream t v' = fstream t v ++ r -> r = [].
Proof. exact no_proper_prefix. Qed.

(** Equal values hash equally whatever their construction history: any permutation of
    the entry list of an unordered collection gives the same stream, owned and shared
    storage are transparent, and more generally [veq] values have [feq] streams. *)
Theorem C13_history_free :
  (forall t vs vs', Permutation vs vs' ->
     feq (fstream (HUnord t) (VList vs)) (fstream (HUnord t) (VList vs'))) /\
  (forall t v id, stream (HPtr t) v = stream t v /\ fstream (HPtr t) v = fstream t v /\
                  fstream (HIntern id t) (VList [v]) = fstream t v) /\
  (forall t v v', wt t v -> wt t v' -> veq t v v' -> feq (fstream t v) (fstream t v')).
Proof. split; [exact history_free|split; [exact pointer_transparent|exact deterministic]]. Qed.

(** ... and the same 128-bit fingerprint, for EVERY function [sip] in the place of
    SipHash-128 and every seed (no hypothesis on the hash function is needed for this
    direction; [fingerprint] models [Engine::hash] with [Sip128Hasher::sub_hash]). *)
Theorem C13_fingerprint_deterministic : forall (sip : list N -> N) seed t v v',
  wt t v -> wt t v' -> veq t v v' -> fingerprint sip seed t v = fingerprint sip seed t v'.
Proof. exact fingerprint_deterministic. Qed.

(** Hashing after decode (encode v): for a type without serializer-skipped fields the
    decoded value ([canon], C12_roundtrip) has the stream of the original, and so has every
    value that differs from it only in the iteration order of rebuilt hash maps. *)
Theorem C13_roundtrip_stable : forall t v,
  no_skip t -> wt t v ->
  fstream t (canon (erase t) v) = fstream t v /\
  forall v2, wt t v2 -> veq t v2 (canon (erase t) v) -> feq (fstream t v2) (fstream t v).
Proof. exact roundtrip_stable. Qed.

(** Equal fingerprints mean equal values up to a collision.  H-hash, explicit: on the set
    [Play] of streams in play, the map  stream |-> sip (seed ++ resolve stream)  is
    injective up to [feq].  It covers the collision resistance of SipHash-128 AND the step
    from the multiset of sub-hashes of an unordered collection to their wrapping sum. *)
Theorem C13_fingerprint_discriminates :
  forall (sip : list N -> N) (Play : list fatom -> Prop) (seed : N),
    (forall s s', Play s -> Play s' ->
       sip (le_bytes 8 seed ++ resolve sip (le_bytes 8 seed) s) =
       sip (le_bytes 8 seed ++ resolve sip (le_bytes 8 seed) s') -> feq s s') ->
    forall t v v', wt t v -> wt t v' -> Play (fstream t v) -> Play (fstream t v') ->
      fingerprint sip seed t v = fingerprint sip seed t v' -> veq t v v'.
Proof. exact fingerprint_discriminates. Qed.

(** The correspondence check evaluates [wtb] on every value the harness derives from a real
    Rust value: those values lie in the domain [wt] of the theorems above. *)
Theorem C13_domain_check_sound : forall t v, wtb t v = true -> wt t v.
Proof. exact wtb_sound. Qed.

(** the hypotheses are satisfiable and the conclusions are not trivial (Hash/Examples.v) *)
Check wt_vx : wt tx vx.
Check streams_differ_syntactically : fstream tx vx <> fstream tx vx'.
Check streams_equivalent : feq (fstream tx vx) (fstream tx vx').
Check streams_of_different_values : ~ feq (fstream tx vx) (fstream tx vy).
Check toy_hhash.
Check discriminates_example : fingerprint toy 7 tx vx <> fingerprint toy 7 tx vy.
Check roundtrip_changes_skipped_field.
Check nan_payloads_collapse.
Check signed_zero_distinct.
Check type_not_hashed.

Print Assumptions C13_injective.
Print Assumptions C13_prefix_free.
Print Assumptions C13_no_proper_prefix.
Print Assumptions C13_history_free.
Print Assumptions C13_fingerprint_deterministic.
Print Assumptions C13_roundtrip_stable.
Print Assumptions C13_fingerprint_discriminates.
Print Assumptions C13_domain_check_sound.
