(** C02 — concurrent querying is sound, single-flight and terminates.
    What is proved are the three protocols that carry the property, each under an arbitrary
    scheduler and for any number of tasks/threads:
    (1) the computing table (Conc/SingleFlight.v): at most one task executes a key at a time,
        at most one publication per epoch, no execution starts once the key is verified,
        waiting tasks are always registered with a live owner and are all woken when the entry
        goes away (also when the owner is cancelled), and some task can always move;
        the order "publish, then remove the entry" is necessary;
    (2) the tiered backward-edge set (Conc/TieredSet.v): with the upgrade under the exclusive
        lock (the shape the source has now, read from database.rs on every run) no
        acknowledged insert is ever lost, for every threshold; the earlier shape loses one;
    (3) the cycle search and the phase lock are C06 / C04.
    PARTIAL: that the Rust futures take exactly these steps (tokio, scc, dashmap, parking_lot
    are H-atomic), soundness of answers under real parallelism and termination are validated
    on the real engine (8-16 worker threads, fan-in across the 32-caller and 1024-member
    thresholds followed by input edits, overlap detector for executors of one key, progress
    timeouts, direct stress of the real tiered set through the verif_hooks handle), not
    proved. *)
From QV Require Import Common.Prelude Generated.TieredUpgradeShape.
From QV Require Conc.TieredSet Conc.TieredSetProof.
From QV Require Import Conc.SingleFlight Conc.SingleFlightProof.

Theorem C02_single_flight : forall n sched, let s := run sched (init n) in
  forall i j p q, nth_error (pcs s) i = Some p -> nth_error (pcs s) j = Some q ->
    is_owner_pc p = true -> is_owner_pc q = true -> i = j.
Proof. exact single_flight. Qed.

Theorem C02_at_most_one_publication : forall n sched, let s := run sched (init n) in
  (published s <= 1)%nat /\ (verified s = true <-> published s = 1%nat) /\
  started s = (published s + cancelled s + execs s)%nat /\ (started s <= 1 + cancelled s)%nat.
Proof. exact at_most_one_publication. Qed.

Theorem C02_no_start_once_verified : forall n sched sched', let s := run sched (init n) in
  verified s = true -> verified (run sched' s) = true /\ started (run sched' s) = started s.
Proof. exact no_start_once_verified. Qed.

Theorem C02_no_lost_wakeup : forall n sched, let s := run sched (init n) in
  (forall i, nth_error (pcs s) i = Some Waiting ->
     In i (waiters s) /\ entry s <> None /\
     exists o p, entry s = Some o /\ nth_error (pcs s) o = Some p /\ is_owner_pc p = true) /\
  (forall w, In w (waiters s) -> nth_error (pcs s) w = Some Waiting) /\
  NoDup (waiters s) /\
  (forall a, entry s <> None -> entry (step s a) = None ->
     waiters (step s a) = [] /\
     forall i, nth_error (pcs s) i = Some Waiting -> nth_error (pcs (step s a)) i = Some Idle).
Proof. exact no_lost_wakeup. Qed.

Theorem C02_never_all_blocked : forall n sched, let s := run sched (init n) in
  (exists i p, nth_error (pcs s) i = Some p /\ p <> Done) -> exists a, step s a <> s.
Proof. exact never_all_blocked. Qed.

Theorem C02_release_before_publish_refuted : exists n sched, let s := run_bad sched (init n) in
  started s = 2%nat /\ cancelled s = 0%nat /\ published s = 0%nat /\ owners s = 1%nat.
Proof. exact bad_order_refuted. Qed.

(** the tiered set as the source has it now *)
Definition upgrade_locked_now : bool :=
  match tiered_upgrade_shape with UpgradeLocked => true | _ => false end.
Theorem C02_no_acknowledged_insert_lost : forall threshold prefill work sched,
  TieredSet.no_lost prefill (TieredSet.run threshold upgrade_locked_now sched (TieredSet.start prefill work)) = true.
Proof.
  change upgrade_locked_now with true.      (* fails if the upgrade is no longer done under the write lock *)
  exact TieredSetProof.locked_upgrade_never_loses.
Qed.
Theorem C02_unlocked_upgrade_refuted : exists threshold prefill work sched,
  TieredSet.no_lost prefill (TieredSet.run threshold false sched (TieredSet.start prefill work)) = false.
Proof. exact TieredSetProof.unlocked_upgrade_loses. Qed.

Check one_waits.
Check cancelled_owner.
Check TieredSetProof.locked_same_schedule.

Print Assumptions C02_single_flight.
Print Assumptions C02_at_most_one_publication.
Print Assumptions C02_no_start_once_verified.
Print Assumptions C02_no_lost_wakeup.
Print Assumptions C02_never_all_blocked.
Print Assumptions C02_release_before_publish_refuted.
Print Assumptions C02_no_acknowledged_insert_lost.
Print Assumptions C02_unlocked_upgrade_refuted.
