(** C09 — cached maps always return the latest write (read-your-writes).
    This file only pins statements and reports their assumptions. *)
From QV Require Import Common.Prelude Cache.Wide Cache.WideProof Cache.SetLog Cache.SetCache
  Cache.SetProof Cache.SetCacheProof Cache.FillRace.
Open Scope N_scope.

(** Single-value and multi-type map.  [run init ops = Some _]: every operation of the
    sequence is enabled where it stands (writes go to open batches, the commit thread takes
    batches in epoch order and only submitted ones, a notification follows its commit, an
    eviction hits an entry whose pin count is not positive) — background steps are placed
    arbitrarily by [ops].  [ordered [] ops]: writes to one key are issued in the epoch order
    of their batches.  Then the answers of all [Get]s are those of a last-write-wins map. *)
Theorem C09_wide_ryw : forall ops s outs,
  run init ops = Some (s, outs) -> ordered [] ops = true -> outs = spec [] ops.
Proof. exact wide_ryw. Qed.

(** The hypothesis [ordered] cannot be dropped (the store applies batches in epoch order). *)
Theorem C09_wide_unordered_refuted :
  exists ops s outs, run init ops = Some (s, outs) /\ ordered [] ops = false /\ outs <> spec [] ops.
Proof. exact wide_unordered_refuted. Qed.

(** With the miss path split into read and install (other threads in between) the last
    answer of a history can be stale: finding F8. *)
Theorem C09_wide_concurrent_fill_refuted :
  exists ops s outs,
    crun cinit ops = Some (s, outs) /\ ordered [] (flat_map seq_of ops) = true /\
    last outs None <> last (spec [] (flat_map seq_of ops)) None.
Proof. exact wide_concurrent_fill_refuted. Qed.

(** Key→set map, model of the code as it is: read-your-writes is refuted by each of the two
    defects on its own (F2: spilled iteration; F3: cancelling overlay, with and without a
    background step). *)
Theorem C09_set_ryw_refuted_spill : exists thr ops, refutes thr false true ops.
Proof. exact set_ryw_refuted_spill. Qed.
Theorem C09_set_ryw_refuted_overlay : exists thr ops, refutes thr true false ops.
Proof. exact set_ryw_refuted_overlay. Qed.
Theorem C09_set_ryw_refuted_overlay_no_background : exists thr ops, refutes thr true false ops.
Proof. exact set_ryw_refuted_overlay_no_background. Qed.

(** Key→set map with both repairs (patches/fix_c09_spilled_iter.diff: the spilled iterator
    keeps draining; patches/fix_c09_overlay_lww.diff: per element the operation issued last
    decides), ANY spill threshold [thr]: for every enabled operation sequence (background
    commits, per-key notifications, evictions of the value cache at any time and of a
    staging log when it is not dirty, placed arbitrarily) whose writes to one key are issued
    in the epoch order of their batches, every [SGet] yields, as a set, exactly the members
    after all inserts and removes issued before it.  The model keeps the staging log in
    binary-heap array order with the all-or-nothing [FlushUpTo] of a max-heap. *)
Theorem C09_set_ryw : forall thr ops s outs,
  srun thr true true sinit ops = Some (s, outs) -> sordered [] ops = true ->
  same_sets outs (sspec [] ops) = true.
Proof. exact set_ryw. Qed.

Check sample_history_ok.   (* the hypotheses of C09_wide_ryw are satisfiable: Cache/WideProof.v *)
Check set_sample_ok.       (* ... and those of C09_set_ryw, with a spilling set: Cache/SetCacheProof.v *)

Print Assumptions C09_wide_ryw.
Print Assumptions C09_wide_unordered_refuted.
Print Assumptions C09_wide_concurrent_fill_refuted.
Print Assumptions C09_set_ryw_refuted_spill.
Print Assumptions C09_set_ryw_refuted_overlay.
Print Assumptions C09_set_ryw_refuted_overlay_no_background.
Print Assumptions C09_set_ryw.
