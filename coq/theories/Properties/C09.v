(** C09 — cached maps always return the latest write (read-your-writes).
    This file only pins statements and reports their assumptions. *)
From QV Require Import Common.Prelude Cache.Wide Cache.WideProof Cache.SetLog Cache.SetCache
  Cache.SetProof Cache.SetCacheProof Cache.FillRace.
From QV Require Import Cache.FillGuard Cache.FillGuardProof Cache.FillGuardSet Cache.FillGuardSetProof.
Open Scope N_scope.

(** Single-value and multi-type map.  [run init ops = Some _]: every operation of the
    sequence is enabled where it stands (writes go to open batches, the commit thread takes
    batches in epoch order and only submitted ones, a notification follows its commit, an
    eviction hits an entry whose pin count is not positive) — background steps are placed
    arbitrarily by [ops].  [ordered [] ops]: writes to one key are issued in the epoch order
    of their batches.  Then the answers of all [Get]s are those of a last-write-wins map. *)
Theorem C09_wide_ryw : forall ops s outs,
  run init ops = Some (s, outs) -> ordered [] ops = true -> outs = spec [] ops.
Proof. exact wide_ryw. Qed.

(** The hypothesis [ordered] cannot be dropped (the store applies batches in epoch order). *)
Theorem C09_wide_unordered_refuted :
  exists ops s outs, run init ops = Some (s, outs) /\ ordered [] ops = false /\ outs <> spec [] ops.
Proof. exact wide_unordered_refuted. Qed.

(** With the miss path split into read and install (other threads in between) the last
    answer of a history can be stale: finding F8. *)
Theorem C09_wide_concurrent_fill_refuted :
  exists ops s outs,
    crun cinit ops = Some (s, outs) /\ ordered [] (flat_map seq_of ops) = true /\
    last outs None <> last (spec [] (flat_map seq_of ops)) None.
Proof. exact wide_concurrent_fill_refuted. Qed.

(** Key→set map, model of the code as it is: read-your-writes is refuted by each of the two
    defects on its own (F2: spilled iteration; F3: cancelling overlay, with and without a
    background step). *)
Theorem C09_set_ryw_refuted_spill : exists thr ops, refutes thr false true ops.
Proof. exact set_ryw_refuted_spill. Qed.
Theorem C09_set_ryw_refuted_overlay : exists thr ops, refutes thr true false ops.
Proof. exact set_ryw_refuted_overlay. Qed.
Theorem C09_set_ryw_refuted_overlay_no_background : exists thr ops, refutes thr true false ops.
Proof. exact set_ryw_refuted_overlay_no_background. Qed.

(** Key→set map with both repairs (patches/fix_c09_spilled_iter.diff: the spilled iterator
    keeps draining; patches/fix_c09_overlay_lww.diff: per element the operation issued last
    decides), ANY spill threshold [thr]: for every enabled operation sequence (background
    commits, per-key notifications, evictions of the value cache at any time and of a
    staging log when it is not dirty, placed arbitrarily) whose writes to one key are issued
    in the epoch order of their batches, every [SGet] yields, as a set, exactly the members
    after all inserts and removes issued before it.  The model keeps the staging log in
    binary-heap array order with the all-or-nothing [FlushUpTo] of a max-heap. *)
Theorem C09_set_ryw : forall thr ops s outs,
  srun thr true true sinit ops = Some (s, outs) -> sordered [] ops = true ->
  same_sets outs (sspec [] ops) = true.
Proof. exact set_ryw. Qed.

(** The miss paths as repaired in /repo (649e55c + cea103e, 597cc55): a per-key-group counter
    of writes, remembered by a miss before it looks for the entry and compared again, under the
    entry lock, before it installs what it read.  The concurrent model splits a miss into
    start / miss / read / install and a counted write into its entry operation and its
    [fetch_add] ([GBump]); every other step of writers, the commit thread, the after-commit
    thread and the eviction policy may come in between, in any enabled order, with any number
    of loading threads and any grouping [grp] of keys into counters.  [BumpAfter] is the code as
    it is now; counting the write BEFORE the entry operation (the first repair, 649e55c) is
    refuted - that refutation, found while proving, led to cea103e. *)
Theorem C09_wide_guard_ryw : forall (grp : key -> N) ops s outs,
  grun grp BumpAfter ginit ops = Some (s, outs) -> ordered [] (flat_map gseq_of ops) = true ->
  outs = spec [] (flat_map gseq_of ops).
Proof. intros grp ops s outs. apply guard_ryw. discriminate. Qed.
Theorem C09_wide_guard_cache_coherent : forall (grp : key -> N) ops s outs,
  grun grp BumpAfter ginit ops = Some (s, outs) -> ordered [] (flat_map gseq_of ops) = true ->
  forall k v p, alookup k (cache (gbase s)) = Some (v, p) ->
                v = last (spec [] (flat_map gseq_of ops ++ [Get k])) None.
Proof. intros grp ops s outs. apply guard_cache_coherent. discriminate. Qed.
Theorem C09_wide_guard_before_refuted : forall grp : key -> N,
  exists ops s outs,
    grun grp BumpBefore ginit ops = Some (s, outs) /\ ordered [] (flat_map gseq_of ops) = true /\
    outs = [None] /\ spec [] (flat_map gseq_of ops) = [Some 1].
Proof. exact guard_before_refuted_any_grouping. Qed.

(** key->set map: [apply_op] split into stage (log append) / count / apply-to-cached-set, the miss
    of [get_entry] into start (count) / snapshot / miss / scan / install-if-count-unchanged.
    Every uninterrupted [get] yields the reference set; without the guard it does not. *)
Theorem C09_set_guard_ryw : forall thr (grp : key -> N) ops s outs,
  gsrun thr grp true false gsinit ops = Some (s, outs) -> sordered [] (flat_map qseq_of ops) = true ->
  same_sets outs (sspec [] (flat_map qseq_of ops)) = true.
Proof. exact set_guard_ryw. Qed.
Theorem C09_set_fill_unguarded_refuted :
  exists thr grp ops s outs,
    gsrun thr grp false false gsinit ops = Some (s, outs) /\ sordered [] (flat_map qseq_of ops) = true /\
    same_sets outs (sspec [] (flat_map qseq_of ops)) = false.
Proof. exact set_fill_unguarded_refuted. Qed.

Check retry_history_ok.        (* a refused and retried fill, right answers: Cache/FillGuardProof.v *)
Check set_retry_history_ok.    (* the same for sets: Cache/FillGuardSetProof.v *)
Check sample_history_ok.   (* the hypotheses of C09_wide_ryw are satisfiable: Cache/WideProof.v *)
Check set_sample_ok.       (* ... and those of C09_set_ryw, with a spilling set: Cache/SetCacheProof.v *)

Print Assumptions C09_wide_ryw.
Print Assumptions C09_wide_unordered_refuted.
Print Assumptions C09_wide_concurrent_fill_refuted.
Print Assumptions C09_set_ryw_refuted_spill.
Print Assumptions C09_set_ryw_refuted_overlay.
Print Assumptions C09_set_ryw_refuted_overlay_no_background.
Print Assumptions C09_set_ryw.
Print Assumptions C09_wide_guard_ryw.
Print Assumptions C09_wide_guard_cache_coherent.
Print Assumptions C09_wide_guard_before_refuted.
Print Assumptions C09_set_guard_ryw.
Print Assumptions C09_set_fill_unguarded_refuted.
