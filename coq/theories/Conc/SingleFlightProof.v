(** Single flight, no lost wake-up, at most one publication per epoch: for every number of
    tasks and every schedule (including cancellations of the owner), by one inductive
    invariant [Inv].  The wrong order (remove the entry, then publish) is refuted by a
    concrete schedule ([bad_order_refuted]). *)
From QV Require Import Common.Prelude Conc.SingleFlight.

(** * Lists: [update], counting *)

Lemma nth_update_same {A} (l : list A) i x : (i < length l)%nat -> nth_error (update l i x) i = Some x.
Proof. revert i; induction l as [|y r IH]; intros i H; [cbn in H; lia|]. destruct i; cbn; [reflexivity|apply IH; cbn in H; lia]. Qed.
Lemma nth_update_other {A} (l : list A) i j x : i <> j -> nth_error (update l i x) j = nth_error l j.
Proof. revert i j; induction l as [|y r IH]; intros i j H; [destruct i; reflexivity|]. destruct i, j; cbn; try reflexivity; [congruence|apply IH; congruence]. Qed.
Lemma length_update {A} (l : list A) i x : length (update l i x) = length l.
Proof. revert i; induction l as [|y r IH]; intros i; [destruct i; reflexivity|]. destruct i; cbn; [reflexivity|f_equal; apply IH]. Qed.
Lemma nth_lt {A} (l : list A) i x : nth_error l i = Some x -> (i < length l)%nat.
Proof. intros H. apply nth_error_Some. rewrite H. discriminate. Qed.

Definition b2n (b : bool) : nat := if b then 1 else 0.
Local Notation count f l := (length (filter f l)).

Lemma count_update {A} (f : A -> bool) (l : list A) i old x :
  nth_error l i = Some old -> count f (update l i x) + b2n (f old) = count f l + b2n (f x).
Proof.
  revert i; induction l as [|y r IH]; intros i H; [destruct i; discriminate|].
  destruct i as [|i]; cbn in H.
  - injection H as ->. cbn [update filter]. destruct (f old), (f x); cbn [length b2n]; lia.
  - specialize (IH i H). cbn [update filter]. destruct (f y); cbn [length]; lia.
Qed.

Lemma count_ext {A} (f : A -> bool) : forall l l' : list A,
  (forall j, option_map f (nth_error l j) = option_map f (nth_error l' j)) -> count f l = count f l'.
Proof.
  induction l as [|y r IH]; intros [|y' r'] H.
  - reflexivity.
  - specialize (H 0%nat); discriminate.
  - specialize (H 0%nat); discriminate.
  - pose proof (H 0%nat) as H0; cbn in H0. injection H0 as H0.
    specialize (IH r' (fun j => H (S j))). cbn [filter]. rewrite H0.
    destruct (f y'); cbn [length]; congruence.
Qed.

Lemma count_repeat_false {A} (f : A -> bool) x n : f x = false -> count f (repeat x n) = 0%nat.
Proof. intros H. induction n as [|n IH]; cbn [repeat filter]; [reflexivity|]. rewrite H. exact IH. Qed.

Lemma nth_repeat {A} (x y : A) n i : nth_error (repeat x n) i = Some y -> y = x.
Proof. intros H. apply nth_error_In in H. eapply repeat_spec; eassumption. Qed.

(** * Waking: every waiter becomes Idle, everybody else is untouched *)

Lemma wake_spec ws : forall l j,
  nth_error (wake ws l) j = if existsb (Nat.eqb j) ws then (match nth_error l j with Some _ => Some Idle | None => None end) else nth_error l j.
Proof.
  induction ws as [|w r IH]; intros l j; cbn [wake fold_left existsb]; [reflexivity|].
  change (fold_left (fun l w => update l w Idle) r (update l w Idle)) with (wake r (update l w Idle)).
  rewrite IH. destruct (Nat.eqb_spec j w) as [->|Hne]; cbn [orb].
  - destruct (nth_error l w) eqn:E.
    + rewrite (nth_update_same l w Idle (nth_lt _ _ _ E)). destruct (existsb (Nat.eqb w) r); reflexivity.
    + assert (E' : nth_error (update l w Idle) w = None).
      { apply nth_error_None. rewrite length_update. apply nth_error_None. exact E. }
      rewrite E'. destruct (existsb (Nat.eqb w) r); reflexivity.
  - rewrite (nth_update_other l w j Idle) by congruence. reflexivity.
Qed.

Lemma existsb_eqb_in j ws : existsb (Nat.eqb j) ws = true <-> In j ws.
Proof.
  rewrite existsb_exists. split.
  - intros (x & Hx & E). apply Nat.eqb_eq in E. subst. exact Hx.
  - intros H. exists j. split; [exact H|apply Nat.eqb_refl].
Qed.

Lemma wake_in ws l j :
  (forall w, In w ws -> nth_error l w = Some Waiting) -> In j ws -> nth_error (wake ws l) j = Some Idle.
Proof.
  intros H Hin. rewrite wake_spec. pose proof (proj2 (existsb_eqb_in j ws) Hin) as E.
  rewrite E, (H j Hin). reflexivity.
Qed.

Lemma wake_notin ws l j : ~ In j ws -> nth_error (wake ws l) j = nth_error l j.
Proof.
  intros Hn. rewrite wake_spec. destruct (existsb (Nat.eqb j) ws) eqn:E; [|reflexivity].
  apply existsb_eqb_in in E. contradiction.
Qed.

Lemma wake_count (f : pc -> bool) ws l :
  f Waiting = f Idle -> (forall w, In w ws -> nth_error l w = Some Waiting) -> count f (wake ws l) = count f l.
Proof.
  intros Hf H. apply count_ext. intros j. destruct (in_dec Nat.eq_dec j ws) as [Hin|Hn].
  - rewrite (wake_in _ _ _ H Hin), (H j Hin). cbn [option_map]. congruence.
  - rewrite (wake_notin _ _ _ Hn). reflexivity.
Qed.

(** * The invariant *)

Definition is_plain (p : pc) : bool := match p with Idle | Try | Done => true | _ => false end.

(** per task, in terms of the entry, the verified flag and the waiter list *)
Definition thread_ok (e : option nat) (v : bool) (ws : list nat) (i : nat) (p : pc) : Prop :=
  match p with
  | Exec => e = Some i /\ v = false
  | Published => e = Some i /\ v = true
  | Waiting => In i ws /\ e <> None
  | Released => False
  | _ => True
  end.
Definition exp_owners (e : option nat) : nat := match e with Some _ => 1 | None => 0 end.
Definition exp_execs (e : option nat) (v : bool) : nat := match e with Some _ => if v then 0 else 1 | None => 0 end.

Record Inv (s : state) : Prop := Inv_intro {
  inv_th : forall i p, nth_error (pcs s) i = Some p -> thread_ok (entry s) (verified s) (waiters s) i p;
  inv_w : forall w, In w (waiters s) -> nth_error (pcs s) w = Some Waiting;
  inv_nodup : NoDup (waiters s);
  inv_none : entry s = None -> waiters s = [];
  inv_own : forall o, entry s = Some o -> exists p, nth_error (pcs s) o = Some p /\ is_owner_pc p = true;
  inv_owners : owners s = exp_owners (entry s);
  inv_execs : execs s = exp_execs (entry s) (verified s);
  inv_pub : published s = b2n (verified s);
  inv_started : started s = (published s + cancelled s + execs s)%nat
}.

Lemma Inv_init n : Inv (init n).
Proof.
  apply Inv_intro; unfold init, owners, execs; cbn [entry verified waiters pcs started published cancelled].
  - intros i p H. apply nth_repeat in H. subst. exact I.
  - intros w [].
  - constructor.
  - reflexivity.
  - discriminate.
  - apply count_repeat_false. reflexivity.
  - apply count_repeat_false. reflexivity.
  - reflexivity.
  - rewrite count_repeat_false by reflexivity. reflexivity.
Qed.

(** the waiters are not disturbed by a step of a task that is not waiting *)
Lemma waiters_after_update s k p q :
  Inv s -> nth_error (pcs s) k = Some p -> p <> Waiting ->
  forall w, In w (waiters s) -> nth_error (update (pcs s) k q) w = Some Waiting.
Proof.
  intros HI Ek Hp w Hin. pose proof (inv_w s HI w Hin) as Hw.
  destruct (Nat.eq_dec k w) as [<-|Hne]; [congruence|].
  rewrite nth_update_other by exact Hne. exact Hw.
Qed.

(** the owner survives a step of another task *)
Lemma owner_after_update s k p q :
  Inv s -> nth_error (pcs s) k = Some p -> is_owner_pc p = false ->
  forall o, entry s = Some o -> exists r, nth_error (update (pcs s) k q) o = Some r /\ is_owner_pc r = true.
Proof.
  intros HI Ek Hp o Ho. destruct (inv_own s HI o Ho) as (r & Hr & Hr').
  destruct (Nat.eq_dec k o) as [<-|Hne]; [congruence|].
  exists r. rewrite nth_update_other by exact Hne. auto.
Qed.

Lemma count_update_same (f : pc -> bool) (l : list pc) i p q :
  nth_error l i = Some p -> f p = f q -> count f (update l i q) = count f l.
Proof. intros E H. pose proof (count_update f l i p q E) as C. rewrite H in C. lia. Qed.

(** Idle -> Done, Idle -> Try, Try -> Idle *)
Lemma Inv_set_plain s i p q :
  Inv s -> nth_error (pcs s) i = Some p -> is_plain p = true -> is_plain q = true -> Inv (set_pc s i q).
Proof.
  intros HI Ei Hp Hq. pose proof (nth_lt _ _ _ Ei) as Hlt.
  pose proof HI as [Hth Hw Hnd Hnone Hown Hno Hne Hpub Hst].
  unfold owners, execs in *.
  apply Inv_intro; unfold set_pc, owners, execs; cbn [entry verified waiters pcs started published cancelled].
  - intros j r Hr. destruct (Nat.eq_dec i j) as [<-|Hne'].
    + rewrite nth_update_same in Hr by exact Hlt. injection Hr as <-. destruct q; try discriminate Hq; exact I.
    + rewrite nth_update_other in Hr by exact Hne'. exact (Hth j r Hr).
  - apply (waiters_after_update s i p q HI Ei). intros ->. discriminate Hp.
  - exact Hnd.
  - exact Hnone.
  - apply (owner_after_update s i p q HI Ei). destruct p; try discriminate Hp; reflexivity.
  - rewrite (count_update_same is_owner_pc _ i p q Ei); [exact Hno|].
    destruct p; try discriminate Hp; destruct q; try discriminate Hq; reflexivity.
  - rewrite (count_update_same is_exec_pc _ i p q Ei); [exact Hne|].
    destruct p; try discriminate Hp; destruct q; try discriminate Hq; reflexivity.
  - exact Hpub.
  - rewrite (count_update_same is_exec_pc _ i p q Ei); [exact Hst|].
    destruct p; try discriminate Hp; destruct q; try discriminate Hq; reflexivity.
Qed.

(** Try -> Waiting (entry occupied) *)
Lemma Inv_wait s i o :
  Inv s -> nth_error (pcs s) i = Some Try -> verified s = false -> entry s = Some o ->
  Inv (mkS (Some o) false (i :: waiters s) (update (pcs s) i Waiting) (started s) (published s) (cancelled s)).
Proof.
  intros HI Ei Ev Ee. pose proof (nth_lt _ _ _ Ei) as Hlt.
  pose proof HI as [Hth Hw Hnd Hnone Hown Hno Hne Hpub Hst].
  unfold owners, execs in *. rewrite Ee in *. rewrite Ev in *.
  assert (Hni : ~ In i (waiters s)).
  { intros Hin. specialize (Hw i Hin). congruence. }
  apply Inv_intro; unfold owners, execs; cbn [entry verified waiters pcs started published cancelled].
  - intros j r Hr. destruct (Nat.eq_dec i j) as [<-|Hne'].
    + rewrite nth_update_same in Hr by exact Hlt. injection Hr as <-.
      cbn [thread_ok]. split; [left; reflexivity|discriminate].
    + rewrite nth_update_other in Hr by exact Hne'. specialize (Hth j r Hr).
      destruct r; cbn [thread_ok] in Hth |- *; try exact Hth.
      destruct Hth as [H1 H2]. split; [right; exact H1|exact H2].
  - intros w [<-|Hin]; [apply nth_update_same; exact Hlt|].
    apply (waiters_after_update s i Try Waiting HI Ei); [discriminate|exact Hin].
  - constructor; assumption.
  - discriminate.
  - intros o' Ho'. apply (owner_after_update s i Try Waiting HI Ei); [reflexivity|congruence].
  - rewrite (count_update_same is_owner_pc _ i Try Waiting Ei) by reflexivity. exact Hno.
  - rewrite (count_update_same is_exec_pc _ i Try Waiting Ei) by reflexivity. exact Hne.
  - exact Hpub.
  - rewrite (count_update_same is_exec_pc _ i Try Waiting Ei) by reflexivity. exact Hst.
Qed.

(** Try -> Exec (entry vacant, not verified): the only place where an execution starts *)
Lemma Inv_exec s i :
  Inv s -> nth_error (pcs s) i = Some Try -> verified s = false -> entry s = None ->
  Inv (mkS (Some i) false (waiters s) (update (pcs s) i Exec) (S (started s)) (published s) (cancelled s)).
Proof.
  intros HI Ei Ev Ee. pose proof (nth_lt _ _ _ Ei) as Hlt.
  pose proof HI as [Hth Hw Hnd Hnone Hown Hno Hne Hpub Hst].
  pose proof (Hnone Ee) as Hws.
  unfold owners, execs in *. rewrite Ee in *. rewrite Ev in *.
  pose proof (count_update is_owner_pc _ i Try Exec Ei) as Co.
  pose proof (count_update is_exec_pc _ i Try Exec Ei) as Ce.
  cbn [is_owner_pc is_exec_pc b2n exp_owners exp_execs] in *.
  apply Inv_intro; unfold owners, execs; cbn [entry verified waiters pcs started published cancelled exp_owners exp_execs].
  - intros j r Hr. destruct (Nat.eq_dec i j) as [<-|Hne'].
    + rewrite nth_update_same in Hr by exact Hlt. injection Hr as <-.
      cbn [thread_ok]. split; reflexivity.
    + rewrite nth_update_other in Hr by exact Hne'. specialize (Hth j r Hr).
      destruct r; cbn [thread_ok] in Hth |- *; try exact I; try (destruct Hth; congruence).
  - rewrite Hws. intros w [].
  - exact Hnd.
  - discriminate.
  - intros o Ho. injection Ho as <-. exists Exec. split; [apply nth_update_same; exact Hlt|reflexivity].
  - lia.
  - lia.
  - exact Hpub.
  - lia.
Qed.

(** Exec -> Published *)
Lemma Inv_publish s i :
  Inv s -> nth_error (pcs s) i = Some Exec ->
  Inv (mkS (entry s) true (waiters s) (update (pcs s) i Published) (started s) (S (published s)) (cancelled s)).
Proof.
  intros HI Ei. pose proof (nth_lt _ _ _ Ei) as Hlt.
  pose proof HI as [Hth Hw Hnd Hnone Hown Hno Hne Hpub Hst].
  destruct (Hth i Exec Ei) as [Ee Ev].
  unfold owners, execs in *. rewrite Ee in *. rewrite Ev in *.
  pose proof (count_update is_owner_pc _ i Exec Published Ei) as Co.
  pose proof (count_update is_exec_pc _ i Exec Published Ei) as Ce.
  cbn [is_owner_pc is_exec_pc b2n exp_owners exp_execs] in *.
  apply Inv_intro; unfold owners, execs; cbn [entry verified waiters pcs started published cancelled exp_owners exp_execs b2n].
  - intros j r Hr. destruct (Nat.eq_dec i j) as [<-|Hne'].
    + rewrite nth_update_same in Hr by exact Hlt. injection Hr as <-.
      cbn [thread_ok]. split; reflexivity.
    + rewrite nth_update_other in Hr by exact Hne'. specialize (Hth j r Hr).
      destruct r; cbn [thread_ok] in Hth |- *; try exact I; try exact Hth; destruct Hth; congruence.
  - apply (waiters_after_update s i Exec Published HI Ei). discriminate.
  - exact Hnd.
  - discriminate.
  - intros o Ho. injection Ho as <-. exists Published. split; [apply nth_update_same; exact Hlt|reflexivity].
  - lia.
  - lia.
  - lia.
  - lia.
Qed.

(** the owner [i] (in Exec: cancellation; in Published: normal completion) removes the entry
    and wakes the waiters *)
Lemma release_plain s i p q :
  Inv s -> nth_error (pcs s) i = Some p -> is_owner_pc p = true -> is_plain q = true ->
  forall j r, nth_error (wake (waiters s) (update (pcs s) i q)) j = Some r -> is_plain r = true.
Proof.
  intros HI Ei Hp Hq j r Hr. pose proof (nth_lt _ _ _ Ei) as Hlt.
  assert (Hpw : p <> Waiting) by (intros ->; discriminate Hp).
  assert (Ee : entry s = Some i).
  { pose proof (inv_th s HI i p Ei) as H. destruct p; try discriminate Hp; apply H. }
  destruct (in_dec Nat.eq_dec j (waiters s)) as [Hin|Hn].
  - rewrite (wake_in _ _ _ (waiters_after_update s i p q HI Ei Hpw) Hin) in Hr. injection Hr as <-. reflexivity.
  - rewrite (wake_notin _ _ _ Hn) in Hr. destruct (Nat.eq_dec i j) as [<-|Hne].
    + rewrite nth_update_same in Hr by exact Hlt. injection Hr as <-. exact Hq.
    + rewrite nth_update_other in Hr by exact Hne. pose proof (inv_th s HI j r Hr) as H.
      destruct r; cbn [thread_ok] in H; try reflexivity.
      * destruct H as [H _]. contradiction.
      * destruct H as [H _]. congruence.
      * destruct H as [H _]. congruence.
      * destruct H.
Qed.

Lemma Inv_release s i p q st pu ca :
  Inv s -> nth_error (pcs s) i = Some p -> is_owner_pc p = true -> is_plain q = true ->
  pu = b2n (verified s) -> st = (pu + ca)%nat ->
  Inv (mkS None (verified s) [] (wake (waiters s) (update (pcs s) i q)) st pu ca).
Proof.
  intros HI Ei Hp Hq Hpu Hsum.
  assert (Hpw : p <> Waiting) by (intros ->; discriminate Hp).
  pose proof (waiters_after_update s i p q HI Ei Hpw) as Hws.
  pose proof (release_plain s i p q HI Ei Hp Hq) as Hplain.
  pose proof HI as [Hth Hw Hnd Hnone Hown Hno Hne Hpub Hst].
  assert (Ee : entry s = Some i).
  { pose proof (Hth i p Ei) as H. destruct p; try discriminate Hp; apply H. }
  assert (Cown : count is_owner_pc (wake (waiters s) (update (pcs s) i q)) = 0%nat).
  { rewrite wake_count by (reflexivity || exact Hws).
    pose proof (count_update is_owner_pc _ i p q Ei) as C. unfold owners in Hno.
    rewrite Ee in Hno. cbn [exp_owners] in Hno. rewrite Hp in C.
    assert (is_owner_pc q = false) as Hq' by (destruct q; try discriminate Hq; reflexivity).
    rewrite Hq' in C. cbn [b2n] in C. lia. }
  assert (Cex : count is_exec_pc (wake (waiters s) (update (pcs s) i q)) = 0%nat).
  { rewrite wake_count by (reflexivity || exact Hws).
    pose proof (count_update is_exec_pc _ i p q Ei) as C. unfold execs in Hne.
    rewrite Ee in Hne. cbn [exp_execs] in Hne.
    assert (is_exec_pc q = false) as Hq' by (destruct q; try discriminate Hq; reflexivity).
    rewrite Hq' in C. cbn [b2n] in C.
    pose proof (Hth i p Ei) as H.
    destruct p; try discriminate Hp; cbn [thread_ok] in H; destruct H as [_ Hv]; rewrite Hv in Hne;
      cbn [is_exec_pc b2n] in C; lia. }
  apply Inv_intro; unfold owners, execs; cbn [entry verified waiters pcs started published cancelled exp_owners exp_execs].
  - intros j r Hr. specialize (Hplain j r Hr). destruct r; try discriminate Hplain; exact I.
  - intros w [].
  - constructor.
  - reflexivity.
  - discriminate.
  - exact Cown.
  - exact Cex.
  - exact Hpu.
  - rewrite Cex. lia.
Qed.

Lemma Inv_step s a : Inv s -> Inv (step s a).
Proof.
  intros HI. destruct a as [i|i]; cbn [step]; destruct (nth_error (pcs s) i) as [p|] eqn:Ei; try exact HI.
  - destruct p; try exact HI.
    + (* Idle *)
      destruct (verified s).
      * exact (Inv_set_plain s i Idle Done HI Ei eq_refl eq_refl).
      * exact (Inv_set_plain s i Idle Try HI Ei eq_refl eq_refl).
    + (* Try *)
      destruct (verified s) eqn:Ev; [exact (Inv_set_plain s i Try Idle HI Ei eq_refl eq_refl)|].
      destruct (entry s) as [o|] eqn:Ee.
      * exact (Inv_wait s i o HI Ei Ev Ee).
      * exact (Inv_exec s i HI Ei Ev Ee).
    + (* Exec *)
      exact (Inv_publish s i HI Ei).
    + (* Published *)
      destruct (inv_th s HI i Published Ei) as [Ee Ev].
      apply (Inv_release s i Published Idle); try assumption; try reflexivity.
      * exact (inv_pub s HI).
      * pose proof (inv_started s HI) as Hst. pose proof (inv_execs s HI) as Hne.
        rewrite Ee, Ev in Hne. cbn [exp_execs] in Hne. lia.
  - destruct p; try exact HI.
    (* Cancel of the executing owner *)
    destruct (inv_th s HI i Exec Ei) as [Ee Ev].
    apply (Inv_release s i Exec Done); try assumption; try reflexivity.
    + exact (inv_pub s HI).
    + pose proof (inv_started s HI) as Hst. pose proof (inv_execs s HI) as Hne.
      rewrite Ee, Ev in Hne. cbn [exp_execs] in Hne. lia.
Qed.

Lemma Inv_run sched : forall s, Inv s -> Inv (run sched s).
Proof.
  induction sched as [|a r IH]; intros s HI; [exact HI|].
  cbn [run fold_left]. apply IH, Inv_step, HI.
Qed.

Theorem reachable_inv (n : nat) (sched : list action) : Inv (run sched (init n)).
Proof. apply Inv_run, Inv_init. Qed.

(** * Consequences of the invariant (any state satisfying [Inv]) *)

Lemma Inv_owner_is_entry s : Inv s ->
  forall i, (exists p, nth_error (pcs s) i = Some p /\ is_owner_pc p = true) <-> entry s = Some i.
Proof.
  intros HI i. split.
  - intros (p & Hp & Ho). pose proof (inv_th s HI i p Hp) as H.
    destruct p; try discriminate Ho; apply H.
  - apply (inv_own s HI).
Qed.

Lemma Inv_single_flight s : Inv s ->
  forall i j p q, nth_error (pcs s) i = Some p -> nth_error (pcs s) j = Some q ->
    is_owner_pc p = true -> is_owner_pc q = true -> i = j.
Proof.
  intros HI i j p q Hp Hq Op Oq.
  assert (Ei : entry s = Some i) by (apply (Inv_owner_is_entry s HI); eauto).
  assert (Ej : entry s = Some j) by (apply (Inv_owner_is_entry s HI); eauto).
  congruence.
Qed.

Lemma Inv_published_le s : Inv s -> (published s <= 1)%nat.
Proof. intros HI. rewrite (inv_pub s HI). destruct (verified s); cbn [b2n]; lia. Qed.

Lemma Inv_verified_iff s : Inv s -> verified s = true <-> published s = 1%nat.
Proof. intros HI. rewrite (inv_pub s HI). destruct (verified s); cbn [b2n]; split; intros H; try reflexivity; discriminate H. Qed.

Lemma Inv_started_le s : Inv s -> (started s <= 1 + cancelled s)%nat.
Proof.
  intros HI. rewrite (inv_started s HI), (inv_execs s HI), (inv_pub s HI).
  destruct (entry s), (verified s); cbn [exp_execs b2n]; lia.
Qed.

(** when the entry is removed (by the [Published] step or by [Cancel]) every waiter is woken *)
Lemma removal_wakes_all s a : Inv s -> entry s <> None -> entry (step s a) = None ->
  waiters (step s a) = [] /\
  forall i, nth_error (pcs s) i = Some Waiting -> nth_error (pcs (step s a)) i = Some Idle.
Proof.
  intros HI Hne.
  assert (Hrel : forall k p q, nth_error (pcs s) k = Some p -> p <> Waiting ->
            forall i, nth_error (pcs s) i = Some Waiting ->
            nth_error (wake (waiters s) (update (pcs s) k q)) i = Some Idle).
  { intros k p q Ek Hp i Hi. apply wake_in.
    - exact (waiters_after_update s k p q HI Ek Hp).
    - apply (inv_th s HI i Waiting Hi). }
  destruct a as [k|k]; cbn [step]; destruct (nth_error (pcs s) k) as [p|] eqn:Ek;
    try (intros Hnone; exfalso; exact (Hne Hnone)).
  - destruct p; try (intros Hnone; exfalso; exact (Hne Hnone)).
    + destruct (verified s); unfold set_pc; cbn [entry]; intros Hnone; exfalso; exact (Hne Hnone).
    + destruct (verified s); [unfold set_pc; cbn [entry]; intros Hnone; exfalso; exact (Hne Hnone)|].
      destruct (entry s) eqn:Ee; cbn [entry]; intros Hnone; discriminate Hnone.
    + intros _. cbn [waiters pcs]. split; [reflexivity|]. apply (Hrel k Published Idle Ek). discriminate.
  - destruct p; try (intros Hnone; exfalso; exact (Hne Hnone)).
    intros _. cbn [waiters pcs]. split; [reflexivity|]. apply (Hrel k Exec Done Ek). discriminate.
Qed.

(** once verified, it stays verified and no execution starts (no invariant needed) *)
Lemma verified_step s a : verified s = true -> verified (step s a) = true /\ started (step s a) = started s.
Proof.
  intros Hv. destruct a as [i|i]; cbn [step]; destruct (nth_error (pcs s) i) as [p|]; auto;
    destruct p; rewrite ?Hv; unfold set_pc; cbn [verified started]; auto.
Qed.

Lemma verified_run sched : forall s, verified s = true -> verified (run sched s) = true /\ started (run sched s) = started s.
Proof.
  induction sched as [|a r IH]; intros s Hv; [auto|].
  cbn [run fold_left]. destruct (verified_step s a Hv) as [Hv' Hs'].
  destruct (IH _ Hv') as [H1 H2]. unfold run in *. split; congruence.
Qed.

(** a state change is always possible while somebody is unfinished *)
Lemma step_changes_pc s a i p q :
  nth_error (pcs s) i = Some p -> nth_error (pcs (step s a)) i = Some q -> p <> q -> step s a <> s.
Proof. intros Hp Hq Hne E. rewrite E in Hq. congruence. Qed.
Lemma step_changes_entry s a : entry (step s a) <> entry s -> step s a <> s.
Proof. intros H E. apply H. rewrite E. reflexivity. Qed.

Lemma Inv_never_all_blocked s : Inv s ->
  (exists i p, nth_error (pcs s) i = Some p /\ p <> Done) -> exists a, step s a <> s.
Proof.
  intros HI (i & p & Ei & Hp). pose proof (nth_lt _ _ _ Ei) as Hlt.
  pose proof (inv_th s HI i p Ei) as Hth.
  destruct p; cbn [thread_ok] in Hth.
  - (* Idle *)
    exists (Act i). apply (step_changes_pc s (Act i) i Idle (if verified s then Done else Try) Ei).
    + cbn [step]. rewrite Ei. destruct (verified s); unfold set_pc; cbn [pcs]; apply nth_update_same; exact Hlt.
    + destruct (verified s); discriminate.
  - (* Try *)
    exists (Act i).
    apply (step_changes_pc s (Act i) i Try
             (if verified s then Idle else match entry s with None => Exec | Some _ => Waiting end) Ei).
    + cbn [step]. rewrite Ei. destruct (verified s); [|destruct (entry s)]; unfold set_pc; cbn [pcs];
        apply nth_update_same; exact Hlt.
    + destruct (verified s); [|destruct (entry s)]; discriminate.
  - (* Waiting: the owner can move *)
    destruct Hth as [_ Hne]. destruct (entry s) as [o|] eqn:Ee; [|congruence].
    destruct (inv_own s HI o Ee) as (r & Hr & Ho). exists (Act o).
    destruct r; try discriminate Ho.
    + apply (step_changes_pc s (Act o) o Exec Published Hr); [|discriminate].
      cbn [step]. rewrite Hr. cbn [pcs]. apply nth_update_same. exact (nth_lt _ _ _ Hr).
    + apply step_changes_entry. cbn [step]. rewrite Hr. cbn [entry]. rewrite Ee. discriminate.
  - (* Exec *)
    exists (Act i). apply (step_changes_pc s (Act i) i Exec Published Ei); [|discriminate].
    cbn [step]. rewrite Ei. cbn [pcs]. apply nth_update_same. exact Hlt.
  - (* Published *)
    destruct Hth as [Ee _]. exists (Act i). apply step_changes_entry.
    cbn [step]. rewrite Ei. cbn [entry]. rewrite Ee. discriminate.
  - congruence.
  - destruct Hth.
Qed.

(** * Main theorems: every number of tasks, every schedule *)

Theorem single_flight (n : nat) (sched : list action) :
  let s := run sched (init n) in
  forall i j p q, nth_error (pcs s) i = Some p -> nth_error (pcs s) j = Some q ->
    is_owner_pc p = true -> is_owner_pc q = true -> i = j.
Proof. exact (Inv_single_flight _ (reachable_inv n sched)). Qed.

Theorem single_flight_count (n : nat) (sched : list action) : (owners (run sched (init n)) <= 1)%nat.
Proof. rewrite (inv_owners _ (reachable_inv n sched)). destruct (entry _); cbn [exp_owners]; lia. Qed.

Theorem owner_is_entry (n : nat) (sched : list action) :
  let s := run sched (init n) in
  forall i, (exists p, nth_error (pcs s) i = Some p /\ is_owner_pc p = true) <-> entry s = Some i.
Proof. exact (Inv_owner_is_entry _ (reachable_inv n sched)). Qed.

Theorem no_lost_wakeup (n : nat) (sched : list action) :
  let s := run sched (init n) in
  (forall i, nth_error (pcs s) i = Some Waiting ->
     In i (waiters s) /\ entry s <> None /\
     exists o p, entry s = Some o /\ nth_error (pcs s) o = Some p /\ is_owner_pc p = true) /\
  (forall w, In w (waiters s) -> nth_error (pcs s) w = Some Waiting) /\
  NoDup (waiters s) /\
  (forall a, entry s <> None -> entry (step s a) = None ->
     waiters (step s a) = [] /\
     forall i, nth_error (pcs s) i = Some Waiting -> nth_error (pcs (step s a)) i = Some Idle).
Proof.
  intros s. pose proof (reachable_inv n sched) as HI. fold s in HI.
  split; [|split; [|split]].
  - intros i Hi. destruct (inv_th s HI i Waiting Hi) as [Hin Hne]. split; [exact Hin|]. split; [exact Hne|].
    destruct (entry s) as [o|] eqn:Ee; [|congruence].
    destruct (inv_own s HI o Ee) as (p & Hp & Ho). exists o, p. auto.
  - exact (inv_w s HI).
  - exact (inv_nodup s HI).
  - intros a. exact (removal_wakes_all s a HI).
Qed.

Theorem at_most_one_publication (n : nat) (sched : list action) :
  let s := run sched (init n) in
  (published s <= 1)%nat /\
  (verified s = true <-> published s = 1%nat) /\
  started s = (published s + cancelled s + execs s)%nat /\
  (started s <= 1 + cancelled s)%nat.
Proof.
  intros s. pose proof (reachable_inv n sched) as HI. fold s in HI.
  split; [exact (Inv_published_le s HI)|]. split; [exact (Inv_verified_iff s HI)|].
  split; [exact (inv_started s HI)|exact (Inv_started_le s HI)].
Qed.

(** no execution starts once the key is verified, whatever happens afterwards *)
Theorem no_start_once_verified (n : nat) (sched sched' : list action) :
  let s := run sched (init n) in
  verified s = true -> verified (run sched' s) = true /\ started (run sched' s) = started s.
Proof. intros s. apply verified_run. Qed.

Theorem executions_see_unverified (n : nat) (sched : list action) :
  let s := run sched (init n) in
  forall i, nth_error (pcs s) i = Some Exec -> verified s = false.
Proof. intros s i Hi. exact (proj2 (inv_th _ (reachable_inv n sched) i Exec Hi)). Qed.

Theorem never_all_blocked (n : nat) (sched : list action) :
  let s := run sched (init n) in
  (exists i p, nth_error (pcs s) i = Some p /\ p <> Done) -> exists a, step s a <> s.
Proof. exact (Inv_never_all_blocked _ (reachable_inv n sched)). Qed.

(** [Released] belongs to the wrong-order variant only *)
Theorem released_unreachable (n : nat) (sched : list action) :
  forall i, nth_error (pcs (run sched (init n))) i <> Some Released.
Proof. intros i Hi. exact (inv_th _ (reachable_inv n sched) i Released Hi). Qed.

(** * The order "publish, then remove the entry" matters *)

(** task 0 executes and releases the entry before publishing; task 1 then finds the key
    neither verified nor computing and executes it again: two executions, no cancellation *)
Definition bad_schedule : list action := [Act 0; Act 0; Act 0; Act 1; Act 1]%nat.

Theorem bad_order_refuted :
  exists n sched, let s := run_bad sched (init n) in
    started s = 2%nat /\ cancelled s = 0%nat /\ published s = 0%nat /\ owners s = 1%nat.
Proof. exists 2%nat, bad_schedule. vm_compute. repeat split. Qed.

(** * Examples *)

(** three tasks: 0 executes, 1 waits, 0 publishes and wakes 1, 2 arrives late; one execution *)
Example one_waits :
  let s := run [Act 0; Act 0; Act 1; Act 1; Act 0; Act 0; Act 0; Act 1; Act 2]%nat (init 3) in
  pcs s = [Done; Done; Done] /\ started s = 1%nat /\ published s = 1%nat /\ cancelled s = 0%nat /\
  entry s = None /\ waiters s = [] /\ verified s = true.
Proof. vm_compute. repeat split. Qed.

(** the waiter really waits in the middle of that schedule *)
Example one_waits_midway :
  let s := run [Act 0; Act 0; Act 1; Act 1]%nat (init 3) in
  pcs s = [Exec; Waiting; Idle] /\ entry s = Some 0%nat /\ waiters s = [1%nat].
Proof. vm_compute. repeat split. Qed.

(** the owner is cancelled while 1 waits: 1 is woken, retries and executes (a second,
    legitimate, execution) *)
Example cancelled_owner :
  let s := run [Act 0; Act 0; Act 1; Act 1; Cancel 0; Act 1; Act 1; Act 1; Act 1; Act 1; Act 2]%nat (init 3) in
  pcs s = [Done; Done; Done] /\ started s = 2%nat /\ cancelled s = 1%nat /\ published s = 1%nat /\
  entry s = None /\ waiters s = [] /\ verified s = true.
Proof. vm_compute. repeat split. Qed.

Print Assumptions reachable_inv.
Print Assumptions single_flight.
Print Assumptions single_flight_count.
Print Assumptions owner_is_entry.
Print Assumptions no_lost_wakeup.
Print Assumptions at_most_one_publication.
Print Assumptions no_start_once_verified.
Print Assumptions executions_see_unverified.
Print Assumptions never_all_blocked.
Print Assumptions released_unreachable.
Print Assumptions bad_order_refuted.
