(** With the upgrade under the exclusive lock no acknowledged insert is ever lost, for every
    threshold, any number of threads and every schedule; the older shape loses one. *)
From QV Require Import Common.Prelude Conc.TieredSet.
Open Scope N_scope.

Lemma nmemN_add x e l : nmemN x (addN e l) = ((x =? e) || nmemN x l)%bool.
Proof.
  unfold addN. destruct (nmemN e l) eqn:E.
  - destruct (N.eqb_spec x e) as [->|]; [rewrite E; reflexivity|reflexivity].
  - unfold nmemN. rewrite existsb_app. cbn [existsb]. rewrite orb_false_r. apply orb_comm.
Qed.
Lemma nmemN_add_old x e l : nmemN x l = true -> nmemN x (addN e l) = true.
Proof. intros H. rewrite nmemN_add, H. apply orb_true_r. Qed.
Lemma nmemN_add_self e l : nmemN e (addN e l) = true.
Proof. rewrite nmemN_add, N.eqb_refl. reflexivity. Qed.

(** * the repaired shape: the content only grows, and an element is in it when acknowledged *)
Section Locked.
Variable threshold : nat.

Lemma sectionA_mono st e : forall x, nmemN x (content st) = true ->
  nmemN x (content (fst (fst (sectionA threshold true st e)))) = true.
Proof.
  intros x Hx. unfold sectionA. destruct st as [v|s]; cbn [content fst].
  - destruct (Nat.ltb (length v) threshold); cbn [content fst]; [apply nmemN_add_old|]; exact Hx.
  - apply nmemN_add_old, Hx.
Qed.
Lemma sectionA_ack st e : snd (sectionA threshold true st e) = true ->
  nmemN e (content (fst (fst (sectionA threshold true st e)))) = true.
Proof.
  unfold sectionA. destruct st as [v|s]; cbn [content fst snd].
  - destruct (Nat.ltb (length v) threshold); cbn [content fst snd]; [intros _; apply nmemN_add_self|discriminate].
  - intros _. apply nmemN_add_self.
Qed.
Lemma sectionB_mono st e c : forall x, nmemN x (content st) = true -> nmemN x (content (sectionB threshold true st e c)) = true.
Proof.
  intros x Hx. unfold sectionB. destruct st as [v|s]; cbn [content].
  - destruct (Nat.ltb (length v) threshold); cbn [content]; apply nmemN_add_old, Hx.
  - apply nmemN_add_old, Hx.
Qed.
Lemma sectionB_ack st e c : nmemN e (content (sectionB threshold true st e c)) = true.
Proof.
  unfold sectionB. destruct st as [v|s]; cbn [content].
  - destruct (Nat.ltb (length v) threshold); cbn [content]; apply nmemN_add_self.
  - apply nmemN_add_self.
Qed.

Lemma step_thread_spec st t st' t' : step_thread threshold true st t = (st', t') ->
  (forall x, nmemN x (content st) = true -> nmemN x (content st') = true) /\
  (forall x, In x (acked t') -> In x (acked t) \/ nmemN x (content st') = true).
Proof.
  unfold step_thread. destruct (inflight t) as [[e c]|].
  - intros [= <- <-]. split; [intros x Hx; apply (sectionB_mono st e c x Hx)|].
    intros x Hx. cbn [acked] in Hx. apply in_app_or in Hx as [Hx|[<-|[]]]; [left; exact Hx|right; apply (sectionB_ack st e c)].
  - destruct (todo t) as [|e r]; [intros [= <- <-]; split; auto|].
    destruct (sectionA threshold true st e) as [[st1 fl] ok] eqn:EA. intros [= <- <-].
    split.
    + intros x Hx. pose proof (sectionA_mono st e x Hx) as H. rewrite EA in H. exact H.
    + intros x Hx. cbn [acked] in Hx. destruct ok; [|left; exact Hx].
      apply in_app_or in Hx as [Hx|[<-|[]]]; [left; exact Hx|right].
      pose proof (sectionA_ack st e) as H. rewrite EA in H. apply H. reflexivity.
Qed.

Lemma all_acked_update ths i t t' : nth_error ths i = Some t ->
  forall x, In x (flat_map acked (update ths i t')) -> In x (flat_map acked ths) \/ (In x (acked t') /\ ~ In x (acked t) \/ In x (acked t')).
Proof.
  revert i. induction ths as [|y r IH]; intros i Hn x Hx; [destruct i; discriminate|].
  destruct i as [|i]; cbn [nth_error] in Hn.
  - injection Hn as ->. cbn [update flat_map] in Hx. apply in_app_or in Hx as [Hx|Hx].
    + right. right. exact Hx.
    + left. cbn [flat_map]. apply in_or_app. right. exact Hx.
  - cbn [update flat_map] in Hx. apply in_app_or in Hx as [Hx|Hx].
    + left. cbn [flat_map]. apply in_or_app. left. exact Hx.
    + destruct (IH i Hn x Hx) as [H|H]; [left; cbn [flat_map]; apply in_or_app; right; exact H|right; exact H].
Qed.
Lemma acked_in_all ths i t : nth_error ths i = Some t -> forall x, In x (acked t) -> In x (flat_map acked ths).
Proof.
  revert i. induction ths as [|y r IH]; intros i Hn x Hx; [destruct i; discriminate|].
  destruct i as [|i]; cbn [nth_error] in Hn; cbn [flat_map]; apply in_or_app.
  - injection Hn as ->. left. exact Hx.
  - right. eapply IH; eassumption.
Qed.

Definition Inv (prefill : list N) (s : state) : Prop :=
  forall x, In x (prefill ++ all_acked s) -> nmemN x (content (store s)) = true.

Lemma Inv_step prefill s i : Inv prefill s -> Inv prefill (step threshold true s i).
Proof.
  intros HI. unfold step. destruct (nth_error (threads s) i) as [t|] eqn:En; [|exact HI].
  destruct (step_thread threshold true (store s) t) as [st' t'] eqn:Es.
  destruct (step_thread_spec _ _ _ _ Es) as [Hmono Hack].
  intros x Hx. cbn [store]. apply in_app_or in Hx as [Hx|Hx].
  - apply Hmono, HI. apply in_or_app. left. exact Hx.
  - unfold all_acked in Hx. cbn [threads] in Hx.
    destruct (all_acked_update _ _ _ t' En x Hx) as [H|[[H _]|H]].
    + apply Hmono, HI. apply in_or_app. right. exact H.
    + destruct (Hack x H) as [H1|H1]; [|exact H1]. apply Hmono, HI. apply in_or_app. right. eapply acked_in_all; eassumption.
    + destruct (Hack x H) as [H1|H1]; [|exact H1]. apply Hmono, HI. apply in_or_app. right. eapply acked_in_all; eassumption.
Qed.

Theorem locked_upgrade_never_loses prefill work sched :
  no_lost prefill (run threshold true sched (start prefill work)) = true.
Proof.
  assert (H : Inv prefill (run threshold true sched (start prefill work))).
  { assert (H0 : Inv prefill (start prefill work)).
    { intros x Hx. cbn [start store content]. apply in_app_or in Hx as [Hx|Hx].
      - unfold nmemN. apply existsb_exists. exists x. split; [exact Hx|apply N.eqb_refl].
      - exfalso. unfold all_acked, start in Hx. cbn [threads] in Hx.
        induction work as [|w r IH]; cbn in Hx; [exact Hx|exact (IH Hx)]. }
    revert H0. generalize (start prefill work). induction sched as [|i r IH]; intros s Hs; [exact Hs|].
    cbn [run fold_left]. apply IH, Inv_step, Hs. }
  unfold no_lost. apply forallb_forall. exact H.
Qed.
End Locked.

(** * the older shape loses an acknowledged insert (threshold 2, two threads) *)
Theorem unlocked_upgrade_loses :
  exists threshold prefill work sched,
    no_lost prefill (run threshold false sched (start prefill work)) = false.
Proof. exists 2%nat, [1; 2], [[10]; [20]], [0; 1; 0]%nat. vm_compute. reflexivity. Qed.

(** non-vacuity: the same schedule on the repaired shape keeps everything, and upgrades *)
Example locked_same_schedule :
  let s := run 2 true [0; 1; 0; 1]%nat (start [1; 2] [[10]; [20]]) in
  (store s, no_lost [1; 2] s) = (Large [1; 2; 10; 20], true).
Proof. vm_compute. reflexivity. Qed.
