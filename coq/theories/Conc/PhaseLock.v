(** The phase lock of database/sync.rs: input sessions (one writer) against tracked engines
    (any number of readers), at the granularity of the synchronisation calls of
    [acquire_active_input_session_guard] and [acquire_active_computation_guard].

    The ORDER of those calls is a parameter: the writer performs the four steps of
    [writer_order] (lock, create the session's write batch, bump the timestamp, stage the
    timestamp) in the order the source has them, then writes its inputs and commits; a reader
    performs [reader_order] (lock, load the timestamp), computes (possibly creating write
    batches of its own) and drops.  The scheduler is arbitrary: a schedule is any list of
    actions, an action that is not enabled is a no-op (the thread stays blocked).

    Safety 1 (C04): a reader that holds the lock and has loaded timestamp [t] sees exactly the
    inputs of the first [t] sessions: [t] = number of committed sessions, and no session is
    half-written.  Safety 2 (F9): when the session holds the lock, its write batch is younger
    (larger creation epoch) than every batch a reader created before.

    [order_ok] characterises the orders for which both hold under every schedule. *)
From QV Require Import Common.Prelude Generated.PhaseOrder.
Open Scope N_scope.

Definition wstep_eqb (a b : wstep) : bool :=
  match a, b with WLock, WLock | WBatch, WBatch | WBump, WBump | WStamp, WStamp => true | _, _ => false end.
Definition rstep_eqb (a b : rstep) : bool :=
  match a, b with RLock, RLock | RLoad, RLoad => true | _, _ => false end.

Record rstate := mkR { r_pc : nat; r_lock : bool; r_ts : option N }.
Definition r_idle : rstate := mkR 0 false None.

Record state := mkS {
  ts : N;                    (* the atomic timestamp *)
  committed : N;             (* sessions whose commit completed *)
  midsession : bool;         (* the session has written some but not all of its inputs *)
  w_pc : nat;                (* writer: index into its step list; length = writing/committing *)
  w_lock : bool;             (* writer holds the exclusive lock *)
  w_bumped : bool;           (* timestamp bumped in the current session *)
  w_epoch : option N;        (* creation epoch of the session's write batch *)
  next_epoch : N;            (* the write manager's epoch counter *)
  last_reader_epoch : N;     (* 1 + epoch of the youngest batch created by a reader, 0 if none *)
  readers : list (nat * rstate);
}.
Definition init : state := mkS 0 0 false 0 false false None 0 0 [].

Fixpoint rget (l : list (nat * rstate)) (k : nat) : rstate :=
  match l with [] => r_idle | (k', r) :: t => if Nat.eqb k' k then r else rget t k end.
Fixpoint rset (l : list (nat * rstate)) (k : nat) (r : rstate) : list (nat * rstate) :=
  match l with
  | [] => [(k, r)]
  | (k', r') :: t => if Nat.eqb k' k then (k, r) :: t else (k', r') :: rset t k r
  end.
Definition any_reader_locked (s : state) : bool := existsb (fun '(_, r) => r_lock r) (readers s).

Inductive action :=
| AW                (* the writer takes its next step *)
| AWSet             (* the writer writes one more input (only between hand-out and commit) *)
| AR (k : nat)      (* reader k takes its next step *)
| ARBatch (k : nat).  (* reader k creates a write batch while computing *)

Section Orders.
Variable wo : list wstep.
Variable ro : list rstep.

Definition set_readers s x := mkS (ts s) (committed s) (midsession s) (w_pc s) (w_lock s) (w_bumped s) (w_epoch s) (next_epoch s) (last_reader_epoch s) x.

Definition step (s : state) (a : action) : state :=
  match a with
  | AW =>
      match nth_error wo (w_pc s) with
      | Some WLock =>
          if w_lock s || any_reader_locked s then s       (* blocked *)
          else mkS (ts s) (committed s) (midsession s) (S (w_pc s)) true (w_bumped s) (w_epoch s) (next_epoch s) (last_reader_epoch s) (readers s)
      | Some WBatch =>
          mkS (ts s) (committed s) (midsession s) (S (w_pc s)) (w_lock s) (w_bumped s) (Some (next_epoch s)) (next_epoch s + 1) (last_reader_epoch s) (readers s)
      | Some WBump =>
          mkS (ts s + 1) (committed s) (midsession s) (S (w_pc s)) (w_lock s) true (w_epoch s) (next_epoch s) (last_reader_epoch s) (readers s)
      | Some WStamp =>
          mkS (ts s) (committed s) (midsession s) (S (w_pc s)) (w_lock s) (w_bumped s) (w_epoch s) (next_epoch s) (last_reader_epoch s) (readers s)
      | None =>
          (* commit (or drop) of the session: submits the batch, releases the lock *)
          if w_lock s
          then mkS (ts s) (committed s + 1) false 0 false false None (next_epoch s) (last_reader_epoch s) (readers s)
          else s      (* a session without the lock cannot exist: handing it out needs the guard *)
      end
  | AWSet =>
      if Nat.eqb (w_pc s) (length wo) && w_lock s
      then mkS (ts s) (committed s) true (w_pc s) (w_lock s) (w_bumped s) (w_epoch s) (next_epoch s) (last_reader_epoch s) (readers s)
      else s
  | AR k =>
      let r := rget (readers s) k in
      match nth_error ro (r_pc r) with
      | Some RLock =>
          if w_lock s then s                                (* blocked *)
          else set_readers s (rset (readers s) k (mkR (S (r_pc r)) true (r_ts r)))
      | Some RLoad => set_readers s (rset (readers s) k (mkR (S (r_pc r)) (r_lock r) (Some (ts s))))
      | None => set_readers s (rset (readers s) k r_idle)   (* drop the tracked engine *)
      end
  | ARBatch k =>
      let r := rget (readers s) k in
      if r_lock r && Nat.eqb (r_pc r) (length ro)
      then mkS (ts s) (committed s) (midsession s) (w_pc s) (w_lock s) (w_bumped s) (w_epoch s) (next_epoch s + 1) (next_epoch s + 1) (readers s)
      else s
  end.

Definition run (sched : list action) (s : state) : state := fold_left step sched s.

(** Safety 1: what a tracked engine that has been handed out observes *)
Definition reader_ok (s : state) (r : rstate) : bool :=
  if r_lock r && Nat.eqb (r_pc r) (length ro)
  then match r_ts r with Some t => (t =? committed s) && negb (midsession s) | None => false end
  else true.
Definition safe_snapshot (s : state) : bool := forallb (fun '(_, r) => reader_ok s r) (readers s).
(** Safety 2: the session batch is younger than every reader batch created before *)
Definition safe_epoch (s : state) : bool :=
  if w_lock s then match w_epoch s with Some e => last_reader_epoch s <=? e | None => true end else true.
Definition safe (s : state) : bool := safe_snapshot s && safe_epoch s.

End Orders.

(** * which orders are right *)
Fixpoint index_of {A} (eqb : A -> A -> bool) (x : A) (l : list A) : nat :=
  match l with [] => 0 | y :: r => if eqb y x then 0 else S (index_of eqb x r) end.
Definition before {A} (eqb : A -> A -> bool) (x y : A) (l : list A) : bool :=
  Nat.ltb (index_of eqb x l) (index_of eqb y l).
Definition wperm (wo : list wstep) : bool :=
  Nat.eqb (length wo) 4 && existsb (wstep_eqb WLock) wo && existsb (wstep_eqb WBatch) wo
  && existsb (wstep_eqb WBump) wo && existsb (wstep_eqb WStamp) wo.
Definition rperm (ro : list rstep) : bool :=
  Nat.eqb (length ro) 2 && existsb (rstep_eqb RLock) ro && existsb (rstep_eqb RLoad) ro.
Definition order_ok (wo : list wstep) (ro : list rstep) : bool :=
  wperm wo && rperm ro
  && before wstep_eqb WLock WBump wo && before wstep_eqb WLock WBatch wo
  && before rstep_eqb RLock RLoad ro.

(** the order the current source has (Generated/PhaseOrder.v) *)
Definition current_ok : bool := order_ok writer_order reader_order.

(** * counterexample schedules for the wrong orders *)
Definition repeat_w (n : nat) : list action := repeat AW n.
Definition cex (wo : list wstep) (ro : list rstep) : list action :=
  if negb (before rstep_eqb RLock RLoad ro) then
    (* the reader loads, the writer runs a whole session, the reader gets the lock *)
    [AR 1] ++ repeat_w 5 ++ [AR 1]
  else if negb (before wstep_eqb WLock WBump wo) then
    (* the reader holds the lock, the writer bumps before it needs the lock, the reader loads *)
    [AR 1] ++ repeat_w 4 ++ [AR 1]
  else
    (* the reader holds the lock and has loaded; the writer creates its batch, the reader creates a
       younger one and leaves; the writer gets the lock *)
    [AR 1; AR 1] ++ repeat_w 4 ++ [ARBatch 1; AR 1] ++ repeat_w 4.

Definition all_worders : list (list wstep) :=
  let xs := [WLock; WBatch; WBump; WStamp] in
  flat_map (fun a => flat_map (fun b => flat_map (fun c => flat_map (fun d =>
     let l := [a; b; c; d] in if wperm l then [l] else []) xs) xs) xs) xs.
Definition all_rorders : list (list rstep) := [[RLock; RLoad]; [RLoad; RLock]].

(** some state along the counterexample schedule is unsafe *)
Fixpoint unsafe_along (wo : list wstep) (ro : list rstep) (sched : list action) (s : state) : bool :=
  negb (safe ro s) ||
  match sched with [] => false | a :: r => unsafe_along wo ro r (step wo ro s a) end.
