(** The ANSWER of the cycle search of computing.rs ([Conc/CycleSearch.v]: [search_v]) is right:
    it says "the target is reachable" exactly when it is - on every computing graph, cyclic ones
    included - provided the answers of the callees are ACCUMULATED ([found |= reaches]).  With
    the answers overwritten ([search_w]: [found = reaches]) a reachable target is missed. *)
From QV Require Import Common.Prelude Conc.CycleSearch.
Open Scope N_scope.

(** * reachability through the computing queries *)
Inductive reach (g : graph) : list N -> N -> Prop :=
| reach_here : forall cs target, In target cs -> reach g cs target
| reach_step : forall cs k cs' target, In k cs -> succ g k = Some cs' -> reach g cs' target -> reach g cs target.

Lemma mem_In x l : mem x l = true <-> In x l.
Proof.
  unfold mem. rewrite existsb_exists. split.
  - intros [y [Hy E]]. apply N.eqb_eq in E. subst. exact Hy.
  - intros H. exists x. split; [exact H|apply N.eqb_refl].
Qed.
Lemma mem_false x l : mem x l = false <-> ~ In x l.
Proof. rewrite <- mem_In. destruct (mem x l); intuition congruence. Qed.

Lemma memo_get_cons m k b x : memo_get ((k, b) :: m) x = if k =? x then Some b else memo_get m x.
Proof. unfold memo_get. cbn [find]. destruct (k =? x); reflexivity. Qed.

(** the loop over the callees, as a function (the inner [fix] of [search_v]) *)
Section Loop.
Variables (f : nat) (g : graph) (target : N).
Fixpoint vgo (l : list N) (found : bool) (m : memo) : option (bool * memo) :=
  match l with
  | [] => Some (found, m)
  | k :: r =>
      match memo_get m k with
      | Some b => vgo r (found || b) m
      | None =>
          match succ g k with
          | None => vgo r found ((k, false) :: m)
          | Some cs' =>
              do (b, m') <- search_v f g cs' target ((k, false) :: m);
              vgo r (found || b) ((k, b) :: m')
          end
      end
  end.
End Loop.
Lemma search_v_S f g cs target m :
  search_v (S f) g cs target m = if mem target cs then Some (true, m) else vgo f g target cs false m.
Proof. reflexivity. Qed.

(** * soundness, on every graph: a [true] answer (and every [true] in the memo table) is a
    query from which the target is reachable *)
Definition kreach (g : graph) (target k : N) : Prop := exists cs', succ g k = Some cs' /\ reach g cs' target.
Definition memo_sound (g : graph) (target : N) (m : memo) : Prop :=
  forall k, memo_get m k = Some true -> kreach g target k.

Theorem search_v_sound_memo g target : forall fuel cs m b m',
  memo_sound g target m -> search_v fuel g cs target m = Some (b, m') ->
  memo_sound g target m' /\ (b = true -> reach g cs target).
Proof.
  induction fuel as [|f IH]; intros cs m b m' HM H; [discriminate|].
  rewrite search_v_S in H. destruct (mem target cs) eqn:Et.
  - inversion H. subst. split; [exact HM|]. intros _. apply reach_here. apply mem_In. exact Et.
  - assert (Hgo : forall l found m0 b0 m1, (forall y, In y l -> In y cs) -> memo_sound g target m0 ->
              (found = true -> reach g cs target) -> vgo f g target l found m0 = Some (b0, m1) ->
              memo_sound g target m1 /\ (b0 = true -> reach g cs target)).
    { induction l as [|k r IHl]; intros found m0 b0 m1 Hin HM0 Hf H0; cbn [vgo] in H0.
      - inversion H0. subst. auto.
      - assert (Hr : forall y, In y r -> In y cs) by (intros y Hy; apply Hin; right; exact Hy).
        assert (Hk : In k cs) by (apply Hin; left; reflexivity).
        destruct (memo_get m0 k) as [bk|] eqn:Em.
        + apply (IHl _ _ _ _ Hr HM0) in H0; [exact H0|].
          intro E. apply orb_true_iff in E. destruct E as [E|E]; [auto|]. subst bk.
          destruct (HM0 k Em) as (cs' & Hs & Hrc). eapply reach_step; eauto.
        + destruct (succ g k) as [cs'|] eqn:Ek.
          * destruct (search_v f g cs' target ((k, false) :: m0)) as [[bk mk]|] eqn:Es; [|discriminate]. cbn in H0.
            assert (HMk : memo_sound g target ((k, false) :: m0)).
            { intros x Hx. rewrite memo_get_cons in Hx. destruct (k =? x); [discriminate|apply HM0; exact Hx]. }
            destruct (IH _ _ _ _ HMk Es) as [HM1 Hb].
            apply (IHl _ _ _ _ Hr) in H0; [exact H0| |].
            -- intros x Hx. rewrite memo_get_cons in Hx. destruct (N.eqb_spec k x) as [Ekx|_]; [subst x|apply HM1; exact Hx].
               inversion Hx. subst bk. exists cs'. auto.
            -- intro E. apply orb_true_iff in E. destruct E as [E|E]; [auto|]. eapply reach_step; eauto.
          * apply (IHl _ _ _ _ Hr) in H0; [exact H0| |exact Hf].
            intros x Hx. rewrite memo_get_cons in Hx. destruct (k =? x); [discriminate|apply HM0; exact Hx]. }
    apply (Hgo cs false m b m'); auto. discriminate.
Qed.

Corollary search_v_sound g cs target fuel m' :
  search_v fuel g cs target [] = Some (true, m') -> reach g cs target.
Proof.
  intro H. eapply (search_v_sound_memo g target fuel cs [] true m'); [|exact H|reflexivity].
  intros k Hk. discriminate.
Qed.

(** * completeness, on every graph: when the search answers [false], every query it has entered
    (= every key of the memo table) has all its callees in the table and none of them is the
    target; hence nothing reachable from the start is the target *)
Definition closed_from (g : graph) (target : N) (m m' : memo) : Prop :=
  (forall x, memo_get m x <> None -> memo_get m' x <> None) /\
  (forall x cs_x, memo_get m x = None -> memo_get m' x <> None -> succ g x = Some cs_x ->
     ~ In target cs_x /\ forall y, In y cs_x -> memo_get m' y <> None).
Lemma closed_from_refl g target m : closed_from g target m m.
Proof. split; [auto|]. intros x cs_x H1 H2. contradiction. Qed.
Lemma closed_from_trans g target m m1 m2 :
  closed_from g target m m1 -> closed_from g target m1 m2 -> closed_from g target m m2.
Proof.
  intros [A1 B1] [A2 B2]. split; [auto|]. intros x cs_x Hn H2 Hs.
  destruct (memo_get m1 x) eqn:E1.
  - destruct (B1 x cs_x Hn ltac:(congruence) Hs) as [C D]. split; [exact C|]. intros y Hy. apply A2. apply D. exact Hy.
  - apply (B2 x cs_x E1 H2 Hs).
Qed.

Definition keys_mono (m m' : memo) : Prop := forall x, memo_get m x <> None -> memo_get m' x <> None.
Lemma keys_mono_cons m k b : keys_mono m ((k, b) :: m).
Proof. intros x Hx. rewrite memo_get_cons. destruct (k =? x); [discriminate|exact Hx]. Qed.
Lemma keys_mono_trans a b c : keys_mono a b -> keys_mono b c -> keys_mono a c.
Proof. intros H1 H2 x Hx. apply H2, H1, Hx. Qed.
Lemma key_cons_same m k b : memo_get ((k, b) :: m) k <> None.
Proof. rewrite memo_get_cons, N.eqb_refl. discriminate. Qed.

Theorem search_v_false_closed g target : forall fuel cs m b m',
  search_v fuel g cs target m = Some (b, m') ->
  keys_mono m m' /\
  (b = false -> closed_from g target m m' /\ ~ In target cs /\ forall y, In y cs -> memo_get m' y <> None).
Proof.
  induction fuel as [|f IH]; intros cs m b m' H; [discriminate|].
  rewrite search_v_S in H. destruct (mem target cs) eqn:Et.
  { inversion H. subst. split; [intros x Hx; exact Hx|discriminate]. }
  assert (Hgo : forall l found m0 b1 m1, vgo f g target l found m0 = Some (b1, m1) ->
            keys_mono m0 m1 /\ (forall y, In y l -> memo_get m1 y <> None) /\
            (b1 = false -> found = false /\ closed_from g target m0 m1)).
  { induction l as [|k r IHl]; intros found m0 b1 m1 H0; cbn [vgo] in H0.
    - inversion H0. subst. split; [intros x Hx; exact Hx|]. split; [intros y []|]. intros ->. split; [reflexivity|apply closed_from_refl].
    - destruct (memo_get m0 k) as [bk|] eqn:Em.
      + destruct (IHl _ _ _ _ H0) as (A & B & C). split; [exact A|]. split.
        * intros y [<-|Hy]; [apply A; congruence|apply B; exact Hy].
        * intros E. destruct (C E) as [C1 C2]. apply orb_false_iff in C1. split; [apply C1|exact C2].
      + destruct (succ g k) as [cs'|] eqn:Ek.
        * destruct (search_v f g cs' target ((k, false) :: m0)) as [[bk mk]|] eqn:Es; [|discriminate]. cbn in H0.
          destruct (IH _ _ _ _ Es) as [K1 F1]. destruct (IHl _ _ _ _ H0) as (A & B & C).
          assert (K01 : keys_mono m0 ((k, bk) :: mk)).
          { eapply keys_mono_trans; [apply (keys_mono_cons m0 k false)|]. eapply keys_mono_trans; [exact K1|apply keys_mono_cons]. }
          split; [eapply keys_mono_trans; eauto|]. split.
          -- intros y [<-|Hy]; [apply A; apply key_cons_same|apply B; exact Hy].
          -- intros E. destruct (C E) as [C1 C2]. apply orb_false_iff in C1. destruct C1 as [-> ->]. split; [reflexivity|].
             destruct (F1 eq_refl) as ((A1 & B1) & Nt & Hk).
             eapply closed_from_trans; [|exact C2]. split; [exact K01|].
             intros x cs_x Hn H2 Hs. rewrite memo_get_cons in H2. destruct (N.eqb_spec k x) as [Ekx|Hne].
             ++ subst x. assert (cs_x = cs') by congruence. subst cs_x. split; [exact Nt|].
                intros y Hy. rewrite memo_get_cons. destruct (k =? y); [discriminate|apply Hk; exact Hy].
             ++ destruct (B1 x cs_x) as [C0 D0]; auto.
                { rewrite memo_get_cons. destruct (N.eqb_spec k x); [contradiction|exact Hn]. }
                split; [exact C0|]. intros y Hy. rewrite memo_get_cons. destruct (k =? y); [discriminate|apply D0; exact Hy].
        * destruct (IHl _ _ _ _ H0) as (A & B & C).
          split; [eapply keys_mono_trans; [apply (keys_mono_cons m0 k false)|exact A]|]. split.
          -- intros y [<-|Hy]; [apply A; apply key_cons_same|apply B; exact Hy].
          -- intros E. destruct (C E) as [C1 C2]. split; [exact C1|].
             eapply closed_from_trans; [|exact C2]. split; [apply keys_mono_cons|].
             intros x cs_x Hn H2 Hs. rewrite memo_get_cons in H2. destruct (N.eqb_spec k x) as [Ekx|Hne]; [subst x; congruence|contradiction]. }
  destruct (Hgo _ _ _ _ _ H) as (A & B & C). split; [exact A|]. intros E. destruct (C E) as [_ C2].
  split; [exact C2|]. split; [apply mem_false; exact Et|exact B].
Qed.

(** nothing reachable from queries whose callees are all in a closed table is the target *)
Lemma closed_no_reach g target m' :
  closed_from g target [] m' ->
  forall cs t, reach g cs t -> t = target -> ~ In target cs -> (forall y, In y cs -> memo_get m' y <> None) -> False.
Proof.
  intros [_ B] cs t H. induction H as [cs t Hin|cs k cs' t Hk Hs Hr IH]; intros -> Hn Hkeys.
  - contradiction.
  - destruct (B k cs' eq_refl (Hkeys k Hk) Hs) as [C D]. apply IH; auto.
Qed.

Theorem search_v_complete_fuel g cs target fuel b m' :
  search_v fuel g cs target [] = Some (b, m') -> reach g cs target -> b = true.
Proof.
  intros H Hr. destruct b; [reflexivity|]. exfalso.
  destruct (search_v_false_closed g target fuel cs [] false m' H) as [_ F]. destruct (F eq_refl) as (C & Nt & Hk).
  eapply closed_no_reach; eauto.
Qed.

(** the search with the fuel of [search_v_terminates] decides reachability, on EVERY graph *)
Theorem search_v_complete g cs target :
  reach g cs target -> exists m', search_v (S (length g)) g cs target [] = Some (true, m').
Proof.
  intro Hr. destruct (search_v_terminates g cs target) as (b & m' & E).
  rewrite (search_v_complete_fuel g cs target _ b m' E Hr) in E. eauto.
Qed.
Theorem search_v_correct g cs target :
  exists b m', search_v (S (length g)) g cs target [] = Some (b, m') /\ (b = true <-> reach g cs target).
Proof.
  destruct (search_v_terminates g cs target) as (b & m' & E). exists b, m'. split; [exact E|]. split.
  - intros ->. eapply search_v_sound; eauto.
  - intro Hr. eapply search_v_complete_fuel; eauto.
Qed.

(** the acyclic case of [CycleSearch.Section Ranked] (the computing queries are the evaluation
    stack and their pending callees) is an instance *)
Corollary search_v_complete_ranked g (rank : N -> nat) cs target :
  (forall x cs0 y, succ g x = Some cs0 -> In y cs0 -> succ g y <> None -> (rank y < rank x)%nat) ->
  reach g cs target -> exists m', search_v (S (length g)) g cs target [] = Some (true, m').
Proof. intros _. apply search_v_complete. Qed.


(** on an ACYCLIC computing graph the whole table is exact: every entry says whether the target is
    reachable from that query (so the marks derived from the [true] entries are the queries on a
    path to the target) *)
Section RankedExact.
Variable g : graph.
Variable rank : N -> nat.
Hypothesis Hrank : forall x cs y, succ g x = Some cs -> In y cs -> succ g y <> None -> (rank y < rank x)%nat.
Variable target : N.

(** a [false] entry is exact, or belongs to a query still being searched (an ancestor: rank >= B) *)
Definition false_ok (B : nat) (m : memo) : Prop :=
  forall k, memo_get m k = Some false -> ~ kreach g target k \/ ((B <= rank k)%nat /\ succ g k <> None).
Definition false_from (m m' : memo) : Prop :=
  forall x, memo_get m' x = Some false -> ~ kreach g target x \/ memo_get m x = Some false.

Lemma kreach_succ k cs' : succ g k = Some cs' -> (kreach g target k <-> reach g cs' target).
Proof. intro Hs. split; [intros (c & Hc & Hr); congruence|intro Hr; exists cs'; auto]. Qed.

Lemma search_v_exact_step : forall fuel cs m B b m',
  (forall y, In y cs -> succ g y <> None -> (rank y < B)%nat) -> false_ok B m ->
  search_v fuel g cs target m = Some (b, m') ->
  (reach g cs target -> b = true) /\ false_from m m'.
Proof.
  induction fuel as [|f IH]; intros cs m B b m' Hb HI H; [discriminate|].
  rewrite search_v_S in H. destruct (mem target cs) eqn:Et.
  { inversion H. subst. split; [reflexivity|]. intros x Hx. right. exact Hx. }
  assert (Hgo : forall l pre found m0 b1 m1, cs = pre ++ l -> false_ok B m0 -> false_from m m0 ->
            (forall k, In k pre -> kreach g target k -> found = true) ->
            vgo f g target l found m0 = Some (b1, m1) ->
            (forall k, In k cs -> kreach g target k -> b1 = true) /\ false_from m m1).
  { induction l as [|k r IHl]; intros pre found m0 b1 m1 Ecs HI0 HF0 Hfound H0; cbn [vgo] in H0.
    - inversion H0. subst. rewrite app_nil_r in *. auto.
    - assert (Ecs' : cs = (pre ++ [k]) ++ r) by (rewrite <- app_assoc; exact Ecs).
      assert (Hk : In k cs) by (rewrite Ecs; apply in_or_app; right; left; reflexivity).
      destruct (memo_get m0 k) as [bk|] eqn:Em.
      + apply (IHl (pre ++ [k]) _ _ _ _ Ecs' HI0 HF0) in H0; [exact H0|].
        intros x Hx Kx. apply in_app_or in Hx. destruct Hx as [Hx|[<-|[]]]; [rewrite (Hfound x Hx Kx); reflexivity|].
        destruct bk; [apply orb_true_r|]. exfalso. destruct (HI0 k Em) as [N0|[N1 N2]]; [contradiction|].
        specialize (Hb k Hk N2). lia.
      + destruct (succ g k) as [cs'|] eqn:Ek.
        * destruct (search_v f g cs' target ((k, false) :: m0)) as [[bk mk]|] eqn:Es; [|discriminate]. cbn in H0.
          assert (Hrk : (rank k < B)%nat) by (apply Hb; [exact Hk|congruence]).
          assert (HIk : false_ok (rank k) ((k, false) :: m0)).
          { intros x Hx. rewrite memo_get_cons in Hx. destruct (N.eqb_spec k x) as [Ekx|Hne].
            - subst x. right. split; [lia|congruence].
            - destruct (HI0 x Hx) as [N0|[N1 N2]]; [left; exact N0|right; split; [lia|exact N2]]. }
          destruct (IH cs' _ (rank k) _ _ (fun y Hy Hc => Hrank k cs' y Ek Hy Hc) HIk Es) as [Hc1 HF1].
          assert (HFk : false_from m0 ((k, bk) :: mk)).
          { intros x Hx. rewrite memo_get_cons in Hx. destruct (N.eqb_spec k x) as [Ekx|Hne].
            - subst x. inversion Hx. subst bk. left. intro K. apply (kreach_succ k cs' Ek) in K. specialize (Hc1 K). discriminate.
            - destruct (HF1 x Hx) as [N0|N0]; [left; exact N0|]. rewrite memo_get_cons in N0.
              destruct (N.eqb_spec k x); [contradiction|right; exact N0]. }
          apply (IHl (pre ++ [k]) _ _ _ _ Ecs') in H0; [exact H0| | |].
          -- intros x Hx. destruct (HFk x Hx) as [N0|N0]; [left; exact N0|apply HI0; exact N0].
          -- intros x Hx. destruct (HFk x Hx) as [N0|N0]; [left; exact N0|apply HF0; exact N0].
          -- intros x Hx Kx. apply in_app_or in Hx. destruct Hx as [Hx|[<-|[]]]; [rewrite (Hfound x Hx Kx); reflexivity|].
             apply (kreach_succ k cs' Ek) in Kx. rewrite (Hc1 Kx). apply orb_true_r.
        * assert (Nk : ~ kreach g target k) by (intros (c & Hc & _); congruence).
          apply (IHl (pre ++ [k]) _ _ _ _ Ecs') in H0; [exact H0| | |].
          -- intros x Hx. rewrite memo_get_cons in Hx. destruct (N.eqb_spec k x) as [Ekx|Hne]; [subst x; left; exact Nk|apply HI0; exact Hx].
          -- intros x Hx. rewrite memo_get_cons in Hx. destruct (N.eqb_spec k x) as [Ekx|Hne]; [subst x; left; exact Nk|apply HF0; exact Hx].
          -- intros x Hx Kx. apply in_app_or in Hx. destruct Hx as [Hx|[<-|[]]]; [exact (Hfound x Hx Kx)|contradiction]. }
  destruct (Hgo cs [] false m b m' eq_refl HI (fun x Hx => or_intror Hx) (fun k Hk => match Hk with end) H) as [A F].
  split; [|exact F]. intro Hr. inversion Hr; subst.
  - exfalso. apply mem_false in Et. contradiction.
  - eapply A; eauto. eexists; eauto.
Qed.

Lemma rank_bound : forall cs : list N, exists B, forall y, In y cs -> (rank y < B)%nat.
Proof.
  induction cs as [|a r [B IH]]; [exists O; intros y []|]. exists (S (Nat.max (rank a) B)).
  intros y [<-|Hy]; [lia|]. specialize (IH y Hy). lia.
Qed.

Theorem search_v_memo_exact_ranked : forall fuel cs b m',
  search_v fuel g cs target [] = Some (b, m') ->
  (b = true <-> reach g cs target) /\
  forall k bk, memo_get m' k = Some bk -> (bk = true <-> kreach g target k).
Proof.
  intros fuel cs b m' H.
  destruct (search_v_sound_memo g target fuel cs [] b m' (fun k Hk => ltac:(discriminate Hk)) H) as [HS Hb].
  destruct (rank_bound cs) as [B HB0]. assert (HB : forall y, In y cs -> succ g y <> None -> (rank y < B)%nat) by (intros y Hy _; apply HB0; exact Hy).
  destruct (search_v_exact_step fuel cs [] B b m' HB (fun k Hk => ltac:(discriminate Hk)) H) as [Hc HF].
  split; [split; [exact Hb|exact Hc]|].
  intros k bk Hk. destruct bk.
  - split; [intros _; apply HS; exact Hk|reflexivity].
  - split; [discriminate|]. intro K. destruct (HF k Hk) as [N0|N0]; [contradiction|discriminate].
Qed.
End RankedExact.

(** the table itself is NOT exact on a computing graph with a cycle: a query entered while one of
    its ancestors is still being searched can be recorded [false] although the target is
    reachable from it (through that ancestor).  The top-level answer is right all the same. *)
Example search_v_memo_inexact :
  let g := [(1, [2; 3]); (2, [1]); (3, [9])] in
  exists m', search_v (S (length g)) g [1] 9 [] = Some (true, m') /\ memo_get m' 2 = Some false /\
             reach g [1] 9 /\ kreach g 9 2.
Proof.
  cbv zeta. eexists. split; [vm_compute; reflexivity|]. split; [reflexivity|].
  assert (R1 : reach [(1, [2; 3]); (2, [1]); (3, [9])] [1] 9).
  { eapply reach_step; [left; reflexivity|reflexivity|]. eapply reach_step; [right; left; reflexivity|reflexivity|].
    apply reach_here. left. reflexivity. }
  split; [exact R1|]. exists [1]. split; [reflexivity|exact R1].
Qed.

(** * the overwrite variant ([found = reaches] instead of [found |= reaches]) misses targets *)
Fixpoint search_w (fuel : nat) (g : graph) (cs : list N) (target : N) (m : memo) : option (bool * memo) :=
  match fuel with
  | O => None
  | S f =>
      if mem target cs then Some (true, m)
      else
        (fix go (l : list N) (found : bool) (m : memo) : option (bool * memo) :=
           match l with
           | [] => Some (found, m)
           | k :: r =>
               match memo_get m k with
               | Some b => go r b m
               | None =>
                   match succ g k with
                   | None => go r found ((k, false) :: m)
                   | Some cs' =>
                       do (b, m') <- search_w f g cs' target ((k, false) :: m);
                       go r b ((k, b) :: m')
                   end
               end
           end) cs false m
  end.

(** the reader has two callees; the first reaches the target, the second does not *)
Theorem search_w_incomplete :
  exists g cs target m', reach g cs target /\ search_w (S (length g)) g cs target [] = Some (false, m').
Proof.
  exists [(2, [9]); (3, [])], [2; 3], 9. eexists. split; [|vm_compute; reflexivity].
  eapply reach_step; [left; reflexivity|reflexivity|]. apply reach_here. left. reflexivity.
Qed.
(** ... and on the same input the accumulating search answers [true] *)
Example search_v_on_witness : exists m', search_v 3 [(2, [9]); (3, [])] [2; 3] 9 [] = Some (true, m').
Proof. eexists. vm_compute. reflexivity. Qed.

Print Assumptions search_v_sound_memo.
Print Assumptions search_v_correct.
Print Assumptions search_v_memo_exact_ranked.
Print Assumptions search_w_incomplete.
