(** The cycle search of computing.rs (`check_cyclic` / `check_cyclic_internal`), over the
    graph "computing query -> the callees it has registered".  Two variants:
    [search] follows callees without remembering where it has been (the code before commit
    d861567) and [search_v] visits every computing query once and reuses its answer (the
    code now).  [Generated/CycleSearchShape.v] records which shape the current source has;
    the property file instantiates the matching theorem. *)
From QV Require Import Common.Prelude.
Open Scope N_scope.

Definition graph := list (N * list N).          (* computing queries only *)
Definition succ (g : graph) (x : N) : option (list N) :=
  match find (fun '(k, _) => k =? x) g with Some (_, cs) => Some cs | None => None end.
Definition mem (x : N) (l : list N) : bool := existsb (N.eqb x) l.

(** as in the old code: [None] = the search does not return within [fuel] steps *)
Fixpoint search (fuel : nat) (g : graph) (cs : list N) (target : N) : option bool :=
  match fuel with
  | O => None
  | S f =>
      if mem target cs then Some true
      else
        (fix go (l : list N) (found : bool) : option bool :=
           match l with
           | [] => Some found
           | k :: r =>
               match succ g k with
               | None => go r found                       (* not computing *)
               | Some cs' => do b <- search f g cs' target; go r (found || b)
               end
           end) cs false
  end.

(** with the memo table of the repaired code: (query, answer) for every query entered *)
Definition memo := list (N * bool).
Definition memo_get (m : memo) (k : N) : option bool :=
  match find (fun '(x, _) => x =? k) m with Some (_, b) => Some b | None => None end.
Fixpoint search_v (fuel : nat) (g : graph) (cs : list N) (target : N) (m : memo) : option (bool * memo) :=
  match fuel with
  | O => None
  | S f =>
      if mem target cs then Some (true, m)
      else
        (fix go (l : list N) (found : bool) (m : memo) : option (bool * memo) :=
           match l with
           | [] => Some (found, m)
           | k :: r =>
               match memo_get m k with
               | Some b => go r (found || b) m
               | None =>
                   match succ g k with
                   | None => go r found ((k, false) :: m)
                   | Some cs' =>
                       do (b, m') <- search_v f g cs' target ((k, false) :: m);
                       go r (found || b) ((k, b) :: m')
                   end
               end
           end) cs false m
  end.

(** * the old search does not terminate on a computing cycle that avoids the target *)
Definition g_f5 : graph := [(1, [2]); (2, [1])].
Lemma search_single f g k cs' target :
  mem target [k] = false -> succ g k = Some cs' ->
  search (S f) g [k] target = do b <- search f g cs' target; Some (false || b)%bool.
Proof. intros Hm Hs. cbn [search]. rewrite Hm, Hs. reflexivity. Qed.
Lemma search_f5_none : forall fuel, search fuel g_f5 [2] 3 = None /\ search fuel g_f5 [1] 3 = None.
Proof.
  induction fuel as [|f [IH2 IH1]]; [split; reflexivity|].
  split.
  - rewrite (search_single f g_f5 2 [1] 3) by reflexivity. rewrite IH1. reflexivity.
  - rewrite (search_single f g_f5 1 [2] 3) by reflexivity. rewrite IH2. reflexivity.
Qed.
Theorem search_refuted : exists g start target, forall fuel, search fuel g start target = None.
Proof. exists g_f5, [2], 3. intros fuel. apply search_f5_none. Qed.

(** * the old search does terminate when the computing graph is acyclic *)
Section Ranked.
Variable g : graph.
Variable rank : N -> nat.
Hypothesis Hrank : forall x cs y, succ g x = Some cs -> In y cs -> succ g y <> None -> (rank y < rank x)%nat.

Lemma search_ranked target : forall fuel cs bound,
  (forall y, In y cs -> succ g y <> None -> (rank y < bound)%nat) -> (bound <= fuel)%nat ->
  search (S fuel) g cs target <> None.
Proof.
  induction fuel as [fuel IH] using lt_wf_ind. intros cs bound Hb Hf.
  cbn [search]. destruct (mem target cs); [discriminate|].
  assert (Hgo : forall l found, (forall y, In y l -> In y cs) ->
            (fix go (l : list N) (found : bool) : option bool :=
               match l with
               | [] => Some found
               | k :: r =>
                   match succ g k with
                   | None => go r found
                   | Some cs' => do b <- search fuel g cs' target; go r (found || b)
                   end
               end) l found <> None).
  { induction l as [|k r IHl]; intros found Hin; [discriminate|].
    destruct (succ g k) as [cs'|] eqn:Ek.
    - assert (Hk : (rank k < bound)%nat) by (apply Hb; [apply Hin; left; reflexivity|congruence]).
      destruct fuel as [|fuel']; [lia|].
      assert (Hs : search (S fuel') g cs' target <> None).
      { apply (IH fuel' ltac:(lia) cs' (rank k)).
        - intros y Hy Hc. eapply Hrank; eassumption.
        - lia. }
      destruct (search (S fuel') g cs' target) as [b|]; [|congruence].
      apply IHl. intros y Hy. apply Hin. right. exact Hy.
    - apply IHl. intros y Hy. apply Hin. right. exact Hy. }
  apply Hgo. auto.
Qed.
End Ranked.

(** * the repaired search always terminates: every entered query is added to the memo table,
    so the number of queries not yet in the table bounds the recursion depth *)
Definition keys (m : memo) : list N := map fst m.
Definition fresh (g : graph) (m : memo) : nat :=
  length (filter (fun '(k, _) => negb (mem k (keys m))) g).

Lemma memo_get_none_not_in m k : memo_get m k = None -> mem k (keys m) = false.
Proof.
  unfold memo_get. induction m as [|[x b] r IH]; [reflexivity|].
  cbn [find keys map fst mem existsb]. destruct (N.eqb_spec x k) as [->|Hne].
  - discriminate.
  - intros Hf. rewrite (N.eqb_sym k x). destruct (N.eqb_spec x k); [contradiction|]. cbn. apply IH, Hf.
Qed.

(** memo tables only grow *)
Definition extends (m m' : memo) : Prop := forall k, mem k (keys m) = true -> mem k (keys m') = true.
Lemma extends_refl m : extends m m. Proof. intros k Hk; exact Hk. Qed.
Lemma extends_cons m k b : extends m ((k, b) :: m).
Proof. intros x Hx. unfold mem, keys in *. cbn [map fst existsb]. rewrite Hx. apply orb_true_r. Qed.
Lemma extends_trans a b c : extends a b -> extends b c -> extends a c.
Proof. intros H1 H2 k Hk. apply H2, H1, Hk. Qed.

Lemma fresh_mono g m m' : extends m m' -> (fresh g m' <= fresh g m)%nat.
Proof.
  intros He. unfold fresh. induction g as [|[k cs] r IH]; [cbn; lia|].
  cbn [filter]. destruct (mem k (keys m)) eqn:E1; destruct (mem k (keys m')) eqn:E2; cbn [negb length]; try lia.
  rewrite (He k E1) in E2. discriminate.
Qed.

Lemma mem_cons x k l : mem x (k :: l) = ((x =? k) || mem x l)%bool.
Proof. reflexivity. Qed.
Lemma fresh_cons g x xs m :
  fresh ((x, xs) :: g) m = ((if mem x (keys m) then 0 else 1) + fresh g m)%nat.
Proof. unfold fresh. cbn [filter]. destruct (mem x (keys m)); reflexivity. Qed.

Lemma fresh_cons_lt g m k b cs : succ g k = Some cs -> mem k (keys m) = false ->
  (fresh g ((k, b) :: m) < fresh g m)%nat.
Proof.
  unfold succ. induction g as [|[x xs] r IH]; [discriminate|].
  cbn [find]. intros Hf Hm. rewrite !fresh_cons.
  change (keys ((k, b) :: m)) with (k :: keys m). rewrite mem_cons.
  destruct (N.eqb_spec x k) as [->|Hne].
  - rewrite Hm. cbn [orb].
    pose proof (fresh_mono r m ((k, b) :: m) (extends_cons m k b)). lia.
  - cbn [orb]. specialize (IH Hf Hm). destruct (mem x (keys m)); lia.
Qed.

Theorem search_v_total g target : forall fuel cs m,
  (fresh g m < fuel)%nat ->
  exists b m', search_v fuel g cs target m = Some (b, m') /\ extends m m'.
Proof.
  induction fuel as [|f IH]; intros cs m Hf; [lia|].
  cbn [search_v]. destruct (mem target cs); [exists true, m; split; [reflexivity|apply extends_refl]|].
  assert (Hgo : forall l found m0, extends m m0 ->
            exists b m', (fix go (l : list N) (found : bool) (m : memo) : option (bool * memo) :=
               match l with
               | [] => Some (found, m)
               | k :: r =>
                   match memo_get m k with
                   | Some b => go r (found || b) m
                   | None =>
                       match succ g k with
                       | None => go r found ((k, false) :: m)
                       | Some cs' =>
                           do (b, m') <- search_v f g cs' target ((k, false) :: m);
                           go r (found || b) ((k, b) :: m')
                       end
                   end
               end) l found m0 = Some (b, m') /\ extends m0 m').
  { induction l as [|k r IHl]; intros found m0 Hext.
    - exists found, m0. split; [reflexivity|apply extends_refl].
    - destruct (memo_get m0 k) as [b|] eqn:Em.
      + apply IHl. exact Hext.
      + destruct (succ g k) as [cs'|] eqn:Ek.
        * assert (Hlt : (fresh g ((k, false) :: m0) < f)%nat).
          { pose proof (fresh_cons_lt g m0 k false cs' Ek (memo_get_none_not_in _ _ Em)).
            pose proof (fresh_mono g m m0 Hext). lia. }
          destruct (IH cs' ((k, false) :: m0) Hlt) as (b & m1 & E1 & X1).
          rewrite E1. cbn.
          destruct (IHl (found || b)%bool ((k, b) :: m1)) as (b2 & m2 & E2 & X2).
          { eapply extends_trans; [exact Hext|]. eapply extends_trans; [apply (extends_cons m0 k false)|].
            eapply extends_trans; [exact X1|apply extends_cons]. }
          exists b2, m2. split; [exact E2|].
          eapply extends_trans; [apply (extends_cons m0 k false)|].
          eapply extends_trans; [exact X1|]. eapply extends_trans; [apply (extends_cons m1 k b)|exact X2].
        * destruct (IHl found ((k, false) :: m0)) as (b2 & m2 & E2 & X2).
          { eapply extends_trans; [exact Hext|apply extends_cons]. }
          exists b2, m2. split; [exact E2|]. eapply extends_trans; [apply (extends_cons m0 k false)|exact X2].
  }
  apply Hgo. apply extends_refl.
Qed.

Corollary search_v_terminates g cs target :
  exists b m', search_v (S (length g)) g cs target [] = Some (b, m').
Proof.
  destruct (search_v_total g target (S (length g)) cs []) as (b & m' & E & _).
  - assert (Hle : forall (f : N * list N -> bool) (l : list (N * list N)), (length (filter f l) <= length l)%nat).
    { intros f l. induction l as [|a l IHl]; cbn [filter length]; [lia|]. destruct (f a); cbn [length]; lia. }
    unfold fresh. pose proof (Hle (fun '(k, _) => negb (mem k (keys []))) g). lia.
  - exists b, m'. exact E.
Qed.

(** the repaired search still finds a target that a computing query has registered directly,
    and agrees with the old one on the witness of the second root of F5 *)
Example search_v_f5 : exists m, search_v 3 g_f5 [2] 3 [] = Some (false, m).
Proof. eexists. vm_compute. reflexivity. Qed.
Example search_v_finds : exists m, search_v 4 [(1, [2]); (2, [1; 7])] [1] 7 [] = Some (true, m).
Proof. eexists. vm_compute. reflexivity. Qed.
