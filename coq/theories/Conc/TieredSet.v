(** The tiered backward-edge set (database.rs: CompressedBackwardEdgeSet::insert_element)
    at lock granularity, any number of inserting threads, arbitrary scheduler, threshold a
    parameter (32 in the code).

    [upgrade_locked = false] is the code before commit 5093676: on a full small vector the
    inserter drains it under the read lock, releases everything, and installs the large set
    in a second critical section.  [upgrade_locked = true] is the code now: a full vector is
    left alone in the first section; the second section (exclusive lock) re-checks the tier
    and either pushes, upgrades (vector + element -> large set) or inserts into the large
    set.  C02 needs: an acknowledged insert is never lost. *)
From QV Require Import Common.Prelude.
Open Scope N_scope.

Definition nmemN (x : N) (l : list N) : bool := existsb (N.eqb x) l.
Definition addN (x : N) (l : list N) : list N := if nmemN x l then l else l ++ [x].

Inductive tier := Small (v : list N) | Large (s : list N).
Definition content (t : tier) : list N := match t with Small v => v | Large s => s end.

(** a thread: elements still to insert, and (between the two critical sections) the element
    in flight with, in the old code, the drained copy it is about to install *)
Record thread := mkT { todo : list N; inflight : option (N * list N); acked : list N }.

Record state := mkS { store : tier; threads : list thread }.

Section Variant.
Variable threshold : nat.
Variable upgrade_locked : bool.

(** first critical section (outer read lock + vector lock) *)
Definition sectionA (st : tier) (e : N) : tier * option (N * list N) (* in flight *) * bool (* acked *) :=
  match st with
  | Large s => (Large (addN e s), None, true)
  | Small v =>
      if Nat.ltb (length v) threshold then (Small (addN e v), None, true)
      else if upgrade_locked then (Small v, Some (e, []), false)
      else (Small [], Some (e, addN e v), false)          (* drained; the copy travels with the thread *)
  end.
(** second critical section (outer write lock) *)
Definition sectionB (st : tier) (e : N) (copy : list N) : tier :=
  if upgrade_locked then
    match st with
    | Large s => Large (addN e s)
    | Small v => if Nat.ltb (length v) threshold then Small (addN e v) else Large (addN e v)
    end
  else Large copy.                                        (* overwrite whatever is there *)

Definition step_thread (st : tier) (t : thread) : tier * thread :=
  match inflight t with
  | Some (e, copy) => (sectionB st e copy, mkT (todo t) None (acked t ++ [e]))
  | None =>
      match todo t with
      | [] => (st, t)
      | e :: r =>
          let '(st', fl, ok) := sectionA st e in
          (st', mkT r fl (if ok then acked t ++ [e] else acked t))
      end
  end.

Fixpoint update {A} (l : list A) (i : nat) (x : A) : list A :=
  match l, i with
  | [], _ => []
  | _ :: r, O => x :: r
  | y :: r, S i' => y :: update r i' x
  end.

Definition step (s : state) (i : nat) : state :=
  match nth_error (threads s) i with
  | None => s
  | Some t => let '(st', t') := step_thread (store s) t in mkS st' (update (threads s) i t')
  end.
Definition run (sched : list nat) (s : state) : state := fold_left step sched s.

Definition all_acked (s : state) : list N := flat_map acked (threads s).
(** the property: every acknowledged element (and everything that was there) is in the set *)
Definition no_lost (prefill : list N) (s : state) : bool :=
  forallb (fun x => nmemN x (content (store s))) (prefill ++ all_acked s).
End Variant.

Definition start (prefill : list N) (work : list (list N)) : state :=
  mkS (Small prefill) (map (fun w => mkT w None []) work).
