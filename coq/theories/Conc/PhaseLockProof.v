(** Proofs about the phase-lock model: the orders accepted by [order_ok] are safe under every
    schedule, and every other order has a schedule that breaks safety. *)
From QV Require Import Common.Prelude Generated.PhaseOrder Conc.PhaseLock.
Open Scope N_scope.

(** * the finitely many orders *)
Definition good_worders : list (list wstep) :=
  [[WLock; WBatch; WBump; WStamp]; [WLock; WBatch; WStamp; WBump]; [WLock; WBump; WBatch; WStamp];
   [WLock; WBump; WStamp; WBatch]; [WLock; WStamp; WBatch; WBump]; [WLock; WStamp; WBump; WBatch];
   [WStamp; WLock; WBatch; WBump]; [WStamp; WLock; WBump; WBatch]].

Lemma wperm_in wo : wperm wo = true -> In wo all_worders.
Proof.
  destruct wo as [|a [|b [|c [|d [|e r]]]]]; try discriminate.
  destruct a, b, c, d; intros H; try discriminate H; vm_compute; tauto.
Qed.
Lemma rperm_in ro : rperm ro = true -> In ro all_rorders.
Proof.
  destruct ro as [|a [|b [|c r]]]; try discriminate.
  destruct a, b; intros H; try discriminate H; vm_compute; tauto.
Qed.
Lemma order_ok_good wo ro : order_ok wo ro = true -> In wo good_worders /\ ro = [RLock; RLoad].
Proof.
  unfold order_ok. intros H.
  apply andb_prop in H as [H Hr]. apply andb_prop in H as [H Hb]. apply andb_prop in H as [H Hu].
  apply andb_prop in H as [Hw Hrp].
  pose proof (wperm_in wo Hw) as Hin. pose proof (rperm_in ro Hrp) as Hrin.
  split.
  - vm_compute in Hin.
    repeat (destruct Hin as [<-|Hin]; [first [discriminate Hu | discriminate Hb | (vm_compute; tauto)]|]).
    contradiction.
  - destruct Hrin as [<-|[<-|[]]]; [reflexivity|discriminate Hr].
Qed.

(** * every wrong order is broken by its counterexample schedule (finite check + lifting) *)
Definition bad_orders_checked : bool :=
  forallb (fun wo => forallb (fun ro =>
     order_ok wo ro || unsafe_along wo ro (cex wo ro) init) all_rorders) all_worders.
Lemma bad_orders_checked_true : bad_orders_checked = true.
Proof. vm_compute. reflexivity. Qed.

Theorem wrong_order_unsafe wo ro :
  wperm wo = true -> rperm ro = true -> order_ok wo ro = false ->
  unsafe_along wo ro (cex wo ro) init = true.
Proof.
  intros Hw Hr Hbad.
  pose proof bad_orders_checked_true as H. unfold bad_orders_checked in H.
  rewrite forallb_forall in H. specialize (H wo (wperm_in wo Hw)).
  rewrite forallb_forall in H. specialize (H ro (rperm_in ro Hr)).
  rewrite Hbad in H. exact H.
Qed.

Lemma unsafe_along_exists wo ro : forall sched s, unsafe_along wo ro sched s = true ->
  exists pre, safe ro (run wo ro pre s) = false.
Proof.
  induction sched as [|a r IH]; intros s H; cbn [unsafe_along] in H.
  - rewrite orb_false_r in H. exists []. cbn. destruct (safe ro s); [discriminate|reflexivity].
  - destruct (safe ro s) eqn:E.
    + cbn in H. destruct (IH _ H) as (pre & Hp). exists (a :: pre). exact Hp.
    + exists []. exact E.
Qed.

Theorem wrong_order_has_bad_schedule wo ro :
  wperm wo = true -> rperm ro = true -> order_ok wo ro = false ->
  exists sched, safe ro (run wo ro sched init) = false.
Proof. intros Hw Hr Hb. eapply unsafe_along_exists. apply wrong_order_unsafe; assumption. Qed.

(** * the right orders are safe under every schedule *)
Section Good.
Variable wo : list wstep.
Hypothesis Hgood : In wo good_worders.
Let ro := [RLock; RLoad].

Definition lockidx := index_of wstep_eqb WLock wo.
Definition bumpidx := index_of wstep_eqb WBump wo.
Definition batchidx := index_of wstep_eqb WBatch wo.

Definition rinv (s : state) (r : rstate) : Prop :=
  match r_pc r with
  | O => r_lock r = false
  | S O => r_lock r = true
  | S (S O) => r_lock r = true /\ r_ts r = Some (committed s)
  | _ => False
  end.

Definition Inv (s : state) : Prop :=
  (w_pc s <= 4)%nat /\
  w_lock s = Nat.ltb lockidx (w_pc s) /\
  w_bumped s = Nat.ltb bumpidx (w_pc s) /\
  match w_epoch s with
  | Some e => Nat.ltb batchidx (w_pc s) = true /\ last_reader_epoch s <= e /\ e < next_epoch s
  | None => Nat.ltb batchidx (w_pc s) = false
  end /\
  last_reader_epoch s <= next_epoch s /\
  ts s = committed s + (if w_bumped s then 1 else 0) /\
  (midsession s = true -> w_lock s = true) /\
  (w_lock s = true -> any_reader_locked s = false) /\
  Forall (fun kr : nat * rstate => rinv s (snd kr)) (readers s).

Lemma rget_inv s l k : Forall (fun kr : nat * rstate => rinv s (snd kr)) l -> rinv s (rget l k).
Proof.
  induction l as [|[k' r] t IH]; intros H; cbn [rget].
  - cbn. reflexivity.
  - inversion H; subst. destruct (Nat.eqb k' k); [assumption|apply IH; assumption].
Qed.
Lemma rset_inv s l k r : Forall (fun kr : nat * rstate => rinv s (snd kr)) l -> rinv s r ->
  Forall (fun kr : nat * rstate => rinv s (snd kr)) (rset l k r).
Proof.
  induction l as [|[k' r'] t IH]; intros H Hr; cbn [rset].
  - constructor; [exact Hr|constructor].
  - inversion H; subst. destruct (Nat.eqb k' k); constructor; auto.
Qed.
Lemma locked_rget l k : existsb (fun '(_, r) => r_lock r) l = false -> r_lock (rget l k) = false.
Proof.
  induction l as [|[k' r] t IH]; intros H; cbn [rget]; [reflexivity|].
  cbn [existsb] in H. apply orb_false_elim in H as [H1 H2].
  destruct (Nat.eqb k' k); [exact H1|apply IH, H2].
Qed.
Lemma locked_rset_false l k r : existsb (fun '(_, r) => r_lock r) l = false -> r_lock r = false ->
  existsb (fun '(_, r) => r_lock r) (rset l k r) = false.
Proof.
  induction l as [|[k' r'] t IH]; intros H Hr; cbn [rset existsb].
  - rewrite Hr. reflexivity.
  - cbn [existsb] in H. apply orb_false_elim in H as [H1 H2].
    destruct (Nat.eqb k' k); cbn [existsb]; [rewrite Hr, H2; reflexivity|rewrite H1, IH; auto].
Qed.
(** when no reader is locked every reader is idle at pc 0, so its invariant does not depend
    on the global fields *)
Lemma rinv_transfer s s' l : existsb (fun '(_, r) => r_lock r) l = false ->
  Forall (fun kr : nat * rstate => rinv s (snd kr)) l -> Forall (fun kr : nat * rstate => rinv s' (snd kr)) l.
Proof.
  induction l as [|[k r] t IH]; intros H HF; [constructor|].
  cbn [existsb] in H. apply orb_false_elim in H as [H1 H2].
  inversion HF as [|x l' Hx Hl']; subst.
  constructor; [|apply IH; assumption].
  cbn [snd] in *. unfold rinv in *. destruct (r_pc r) as [|[|[|?]]].
  - exact Hx.
  - rewrite H1 in Hx. discriminate.
  - destruct Hx as [Hx _]. rewrite H1 in Hx. discriminate.
  - contradiction.
Qed.
Lemma rinv_same_committed s s' l : committed s' = committed s ->
  Forall (fun kr : nat * rstate => rinv s (snd kr)) l -> Forall (fun kr : nat * rstate => rinv s' (snd kr)) l.
Proof.
  intros E HF. eapply Forall_impl; [|exact HF]. intros [k r]. cbn [snd]. unfold rinv. rewrite E. auto.
Qed.

Lemma Inv_init : Inv init.
Proof.
  unfold Inv, init; cbn. repeat split; try lia; try discriminate; try constructor;
  unfold lockidx, bumpidx, batchidx;
  (let H := fresh "Hg" in pose proof Hgood as H; cbn [In good_worders] in H;
   repeat (destruct H as [<-|H]; [reflexivity|]); contradiction).
Qed.

Ltac orders := unfold lockidx, bumpidx, batchidx in *;
  repeat match goal with
         | X : context [wo] |- _ => lazymatch X with Hgood => fail | _ => revert X end
         end;
  let H := fresh "Hg" in pose proof Hgood as H; cbn [In good_worders] in H;
  repeat (destruct H as [<-|H]; [|]); try contradiction; intros.

Lemma wo_len : length wo = 4%nat.
Proof. orders; reflexivity. Qed.

Lemma Inv_intro s :
  (w_pc s <= 4)%nat ->
  w_lock s = Nat.ltb lockidx (w_pc s) ->
  w_bumped s = Nat.ltb bumpidx (w_pc s) ->
  match w_epoch s with
  | Some e => Nat.ltb batchidx (w_pc s) = true /\ last_reader_epoch s <= e /\ e < next_epoch s
  | None => Nat.ltb batchidx (w_pc s) = false
  end ->
  last_reader_epoch s <= next_epoch s ->
  ts s = committed s + (if w_bumped s then 1 else 0) ->
  (midsession s = true -> w_lock s = true) ->
  (w_lock s = true -> any_reader_locked s = false) ->
  Forall (fun kr : nat * rstate => rinv s (snd kr)) (readers s) ->
  Inv s.
Proof. intros. unfold Inv. repeat split; assumption. Qed.

Lemma nth_error_nil' {A} (n : nat) : nth_error (@nil A) n = None.
Proof. destruct n; reflexivity. Qed.

(* facts about the program counter for the concrete good orders *)
Ltac pcs s := orders; destruct (w_pc s) as [|[|[|[|?]]]]; cbn in *;
  rewrite ?nth_error_nil' in *;
  try discriminate; try reflexivity; try lia; try congruence.

Lemma Inv_step s a : Inv s -> Inv (step wo ro s a).
Proof.
  intros (Hpc & Hl & Hb & He & Hle & Hts & Hmid & Hex & HF).
  destruct a as [| |k|k]; cbn [step].
  - (* writer step *)
    destruct (nth_error wo (w_pc s)) as [st|] eqn:En.
    + assert (Hlt : (w_pc s < 4)%nat).
      { rewrite <- wo_len. apply nth_error_Some. rewrite En. discriminate. }
      destruct st.
      * (* WLock *)
        destruct (w_lock s || any_reader_locked s) eqn:Eb; [apply Inv_intro; assumption|].
        apply orb_false_elim in Eb as [Ebl Ebr].
        apply Inv_intro; cbn [w_pc w_lock w_bumped w_epoch last_reader_epoch next_epoch ts committed midsession readers].
        -- lia.
        -- clear - En Hgood. pcs s.
        -- rewrite Hb. clear - En Hgood. pcs s.
        -- destruct (w_epoch s) as [e|].
           ++ destruct He as (H1 & H2 & H3). split; [|split; assumption]. clear - En H1 Hgood. pcs s.
           ++ clear - En He Hgood. pcs s.
        -- assumption.
        -- assumption.
        -- reflexivity.
        -- intros _. exact Ebr.
        -- eapply rinv_same_committed; [|exact HF]. reflexivity.
      * (* WBatch *)
        assert (Hlk : w_lock s = true). { rewrite Hl; clear - En Hgood; pcs s. }
        apply Inv_intro; cbn [w_pc w_lock w_bumped w_epoch last_reader_epoch next_epoch ts committed midsession readers].
        -- lia.
        -- rewrite Hl. clear - En Hgood. pcs s.
        -- rewrite Hb. clear - En Hgood. pcs s.
        -- split; [clear - En Hgood; pcs s|split; [exact Hle|lia]].
        -- lia.
        -- assumption.
        -- intros _. exact Hlk.
        -- assumption.
        -- eapply rinv_same_committed; [|exact HF]. reflexivity.
      * (* WBump *)
        assert (Hlk : w_lock s = true). { rewrite Hl; clear - En Hgood; pcs s. }
        assert (Hnb : w_bumped s = false). { rewrite Hb; clear - En Hgood; pcs s. }
        apply Inv_intro; cbn [w_pc w_lock w_bumped w_epoch last_reader_epoch next_epoch ts committed midsession readers].
        -- lia.
        -- rewrite Hl. clear - En Hgood. pcs s.
        -- clear - En Hgood. pcs s.
        -- destruct (w_epoch s) as [e|].
           ++ destruct He as (H1 & H2 & H3). split; [|split; assumption]. clear - En H1 Hgood. pcs s.
           ++ clear - En He Hgood. pcs s.
        -- assumption.
        -- rewrite Hts, Hnb. lia.
        -- intros _. exact Hlk.
        -- assumption.
        -- eapply rinv_same_committed; [|exact HF]. reflexivity.
      * (* WStamp *)
        apply Inv_intro; cbn [w_pc w_lock w_bumped w_epoch last_reader_epoch next_epoch ts committed midsession readers].
        -- lia.
        -- rewrite Hl. clear - En Hgood. pcs s.
        -- rewrite Hb. clear - En Hgood. pcs s.
        -- destruct (w_epoch s) as [e|].
           ++ destruct He as (H1 & H2 & H3). split; [|split; assumption]. clear - En H1 Hgood. pcs s.
           ++ clear - En He Hgood. pcs s.
        -- assumption.
        -- assumption.
        -- assumption.
        -- assumption.
        -- eapply rinv_same_committed; [|exact HF]. reflexivity.
    + (* commit *)
      destruct (w_lock s) eqn:Elk; [|apply Inv_intro; try assumption; rewrite Elk; assumption].
      assert (Hpc4 : w_pc s = 4%nat).
      { apply nth_error_None in En. rewrite wo_len in En. lia. }
      assert (Hbu : w_bumped s = true). { rewrite Hb, Hpc4; clear - Hgood; orders; reflexivity. }
      apply Inv_intro; cbn [w_pc w_lock w_bumped w_epoch last_reader_epoch next_epoch ts committed midsession readers].
      -- lia.
      -- clear - Hgood. orders; reflexivity.
      -- clear - Hgood. orders; reflexivity.
      -- clear - Hgood. orders; reflexivity.
      -- assumption.
      -- rewrite Hts, Hbu. lia.
      -- discriminate.
      -- discriminate.
      -- eapply rinv_transfer; [apply Hex; reflexivity|exact HF].
  - (* writer writes an input *)
    destruct (Nat.eqb (w_pc s) (length wo) && w_lock s) eqn:Eb; [|apply Inv_intro; assumption].
    apply andb_prop in Eb as [_ Elk].
    apply Inv_intro; cbn [w_pc w_lock w_bumped w_epoch last_reader_epoch next_epoch ts committed midsession readers]; try assumption.
    all: try (intros _; exact Elk).
    all: try (eapply rinv_same_committed; [|exact HF]; reflexivity).
  - (* reader step *)
    pose proof (rget_inv s (readers s) k HF) as Hr.
    remember (rget (readers s) k) as r eqn:Er.
    unfold ro. destruct (r_pc r) as [|[|[|n]]] eqn:Epc; cbn [nth_error].
    + (* lock *)
      destruct (w_lock s) eqn:Elk; [apply Inv_intro; try assumption; rewrite ?Elk; assumption|].
      apply Inv_intro; cbn [w_pc w_lock w_bumped w_epoch last_reader_epoch next_epoch ts committed midsession readers set_readers]; rewrite ?Elk; try assumption.
      all: try discriminate.
      all: try (apply rset_inv; [eapply rinv_same_committed; [|exact HF]; reflexivity|]; unfold rinv; cbn; reflexivity).
    + (* load *)
      unfold rinv in Hr. rewrite Epc in Hr.
      assert (Hnl : w_lock s = false).
      { destruct (w_lock s) eqn:Elk; [|reflexivity].
        pose proof (locked_rget (readers s) k (Hex eq_refl)) as Hc. rewrite <- Er in Hc. congruence. }
      assert (Hnb : w_bumped s = false).
      { rewrite Hb. rewrite Hl in Hnl. clear - Hnl Hgood Hpc. pcs s. }
      apply Inv_intro; cbn [w_pc w_lock w_bumped w_epoch last_reader_epoch next_epoch ts committed midsession readers set_readers]; try assumption.
      all: try (intros Hx; rewrite Hnl in Hx; discriminate).
      all: try (apply rset_inv; [eapply rinv_same_committed; [|exact HF]; reflexivity|];
                unfold rinv; cbn; split; [exact Hr|]; rewrite Hts, Hnb; f_equal; lia).
    + (* drop *)
      apply Inv_intro; cbn [w_pc w_lock w_bumped w_epoch last_reader_epoch next_epoch ts committed midsession readers set_readers]; try assumption.
      all: try (intros Hx; specialize (Hex Hx); unfold any_reader_locked in *; cbn [readers];
                apply locked_rset_false; [exact Hex|reflexivity]).
      all: try (apply rset_inv; [eapply rinv_same_committed; [|exact HF]; reflexivity|]; unfold rinv; cbn; reflexivity).
    + unfold rinv in Hr. rewrite Epc in Hr. contradiction.
  - (* reader creates a batch *)
    remember (rget (readers s) k) as r eqn:Er.
    destruct (r_lock r && Nat.eqb (r_pc r) (length ro)) eqn:Eb; [|apply Inv_intro; assumption].
    apply andb_prop in Eb as [Erl _].
    assert (Hnl : w_lock s = false).
    { destruct (w_lock s) eqn:Elk; [|reflexivity].
      pose proof (locked_rget (readers s) k (Hex eq_refl)) as Hc. rewrite <- Er in Hc. congruence. }
    assert (Hne : w_epoch s = None).
    { destruct (w_epoch s) as [e|] eqn:Ee; [|reflexivity]. destruct He as (H1 & _).
      rewrite Hl in Hnl. exfalso. clear - Hnl H1 Hgood Hpc. pcs s. }
    apply Inv_intro; cbn [w_pc w_lock w_bumped w_epoch last_reader_epoch next_epoch ts committed midsession readers]; try assumption.
    all: try (rewrite Hne in *; exact He).
    all: try lia.
    all: try (eapply rinv_same_committed; [|exact HF]; reflexivity).
Qed.

Lemma Inv_run sched : forall s, Inv s -> Inv (run wo ro sched s).
Proof. induction sched as [|a r IH]; intros s H; [exact H|]. cbn [run fold_left]. apply IH, Inv_step, H. Qed.

Lemma existsb_false_in {A} (f : A -> bool) l x : existsb f l = false -> In x l -> f x = false.
Proof.
  induction l as [|y r IH]; intros H Hin; [contradiction|].
  cbn [existsb] in H. apply orb_false_elim in H as [H1 H2]. destruct Hin as [<-|Hin]; [exact H1|apply IH; assumption].
Qed.

Lemma Inv_safe s : Inv s -> safe ro s = true.
Proof.
  intros (Hpc & Hl & Hb & He & Hle & Hts & Hmid & Hex & HF).
  unfold safe. apply andb_true_intro. split.
  - unfold safe_snapshot. apply forallb_forall. intros [k r] Hin.
    rewrite Forall_forall in HF. specialize (HF _ Hin). cbn [snd] in HF.
    unfold reader_ok. destruct (r_lock r && Nat.eqb (r_pc r) (length ro)) eqn:Eb; [|reflexivity].
    apply andb_prop in Eb as [Erl Epc]. apply Nat.eqb_eq in Epc. cbn in Epc.
    unfold rinv in HF. rewrite Epc in HF. destruct HF as [_ Ht]. rewrite Ht, N.eqb_refl. cbn [andb].
    destruct (midsession s) eqn:Em; [|reflexivity].
    specialize (Hex (Hmid eq_refl)). unfold any_reader_locked in Hex.
    pose proof (existsb_false_in _ _ _ Hex Hin) as Hc. cbn in Hc. congruence.
  - unfold safe_epoch. destruct (w_lock s); [|reflexivity].
    destruct (w_epoch s) as [e|]; [|reflexivity]. destruct He as (_ & H2 & _). apply N.leb_le. exact H2.
Qed.
End Good.

Theorem right_order_safe wo ro : order_ok wo ro = true ->
  forall sched, safe ro (run wo ro sched init) = true.
Proof.
  intros Hok sched. destruct (order_ok_good wo ro Hok) as [Hin ->].
  eapply Inv_safe. eapply Inv_run; try exact Hin. eapply Inv_init; exact Hin.
Qed.

(** non-vacuity: a schedule with two readers and two sessions on which everything is enabled *)
Example busy_schedule :
  let s := run [WLock; WBatch; WBump; WStamp] [RLock; RLoad]
               [AR 1; AR 1; ARBatch 1; AW; AR 1; AW; AW; AW; AW; AWSet; AR 2; AW; AR 2; AR 2; ARBatch 2] init in
  (committed s, ts s, safe [RLock; RLoad] s) = (1, 1, true).
Proof. vm_compute. reflexivity. Qed.
