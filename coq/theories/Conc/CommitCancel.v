(** InputSession::commit under cancellation (the caller stops polling the future after some
    steps).  The commit consists of: Take (mark the session committed and take the write
    transaction and the exclusive phase guard out of it - from here on the session's Drop does
    nothing), Prop (dirty propagation and submission of the batch), Release (drop the phase
    guard: waiting readers are handed out).  What a reader that was waiting in tracked() may
    observe is the ORDER of the two events Propagated / Released.

    [scope] = what the run-to-completion wrapper covers.  A future that is never polled does
    nothing: the session is dropped uncommitted and its Drop spawns the whole commit. *)
From Coq Require Import List Bool Arith. Import ListNotations.
From QV Require Import Generated.CommitGuardScope.

Inductive event := Propagated | Released | PropagationAborted.

(** [polls] = number of steps the caller lets the commit future take before dropping it
    (0 = never polled; 1 = dropped after Take, while Prop is pending; 2 = dropped after Prop;
    3 or more = polled to completion) *)
Definition commit_trace (scope : guard_scope) (polls : nat) : option (list event) :=
  match scope with
  | GuardUnknown => None
  | GuardWhole =>
      (* never polled: Drop of the session commits in a spawned task; polled once: the whole block
         runs to completion in its own task whatever the caller does *)
      Some [Propagated; Released]
  | GuardPropOnly =>
      match polls with
      | 0 => Some [Propagated; Released]
      | 1 => Some [Released; Propagated]      (* the frame owning the guard is dropped, the propagation goes on *)
      | _ => Some [Propagated; Released]
      end
  | GuardNone =>
      match polls with
      | 0 => Some [Propagated; Released]
      | 1 => Some [PropagationAborted; Released]   (* dropped half-way: the dirt stops travelling *)
      | _ => Some [Propagated; Released]
      end
  end.

(** the session took effect as a whole before any reader is let in *)
Fixpoint released_only_after_propagation (seen_prop : bool) (t : list event) : bool :=
  match t with
  | [] => true
  | Propagated :: r => released_only_after_propagation true r
  | PropagationAborted :: r => released_only_after_propagation seen_prop r
  | Released :: r => seen_prop && released_only_after_propagation seen_prop r
  end.

Definition atomic_under_cancellation (scope : guard_scope) (polls : nat) : bool :=
  match commit_trace scope polls with Some t => released_only_after_propagation false t | None => false end.

Lemma whole_block_guard_is_atomic : forall polls, atomic_under_cancellation GuardWhole polls = true.
Proof. intro polls. reflexivity. Qed.

Lemma inner_guard_is_not_atomic : exists polls, atomic_under_cancellation GuardPropOnly polls = false.
Proof. exists 1. reflexivity. Qed.

Lemma no_guard_is_not_atomic : exists polls, atomic_under_cancellation GuardNone polls = false.
Proof. exists 1. reflexivity. Qed.
