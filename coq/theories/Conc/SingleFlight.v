(** The computing table of computing.rs for one query key in one epoch: any number of tasks
    ask for the key (fast path, double check under the entry, vacant -> become the owner and
    execute, occupied -> register on the owner's Notify and wait), the owner publishes the
    result and only then removes the entry and wakes the waiters; an owner may also be
    dropped (cancellation / panic): entry removed, waiters woken, nothing published.
    Arbitrary scheduler.  Keys are independent (scc::HashMap::entry_sync serialises accesses
    to one key: H-atomic), so one key is enough. *)
From QV Require Import Common.Prelude.

Inductive pc :=
| Idle          (* about to look at the fast path (also after being woken) *)
| Try           (* fast path said "not verified": about to take the entry *)
| Waiting       (* registered on the owner's Notify *)
| Exec          (* owner, executor running *)
| Published     (* owner, result published, entry not yet removed *)
| Done          (* has its answer (or was cancelled) *)
| Released.     (* ONLY used by [step_bad] below (entry removed, result not yet published);
                   [step] never produces it and ignores it *)

Record state := mkS {
  entry : option nat;       (* owner *)
  verified : bool;          (* last_verified = current timestamp *)
  waiters : list nat;
  pcs : list pc;
  started : nat;            (* executor invocations *)
  published : nat;
  cancelled : nat;
}.
Inductive action := Act (i : nat) | Cancel (i : nat).

Fixpoint update {A} (l : list A) (i : nat) (x : A) : list A :=
  match l, i with
  | [], _ => []
  | _ :: r, O => x :: r
  | y :: r, S i' => y :: update r i' x
  end.
Definition wake (ws : list nat) (l : list pc) : list pc := fold_left (fun l w => update l w Idle) ws l.

Definition set_pc s i p := mkS (entry s) (verified s) (waiters s) (update (pcs s) i p) (started s) (published s) (cancelled s).

Definition step (s : state) (a : action) : state :=
  match a with
  | Act i =>
      match nth_error (pcs s) i with
      | Some Idle => if verified s then set_pc s i Done else set_pc s i Try
      | Some Try =>
          if verified s then set_pc s i Idle            (* double check: retry the fast path *)
          else match entry s with
               | None => mkS (Some i) false (waiters s) (update (pcs s) i Exec) (S (started s)) (published s) (cancelled s)
               | Some _ => mkS (entry s) (verified s) (i :: waiters s) (update (pcs s) i Waiting) (started s) (published s) (cancelled s)
               end
      | Some Exec => mkS (entry s) true (waiters s) (update (pcs s) i Published) (started s) (S (published s)) (cancelled s)
      | Some Published => mkS None (verified s) [] (wake (waiters s) (update (pcs s) i Idle)) (started s) (published s) (cancelled s)
      | _ => s
      end
  | Cancel i =>
      match nth_error (pcs s) i with
      | Some Exec => mkS None (verified s) [] (wake (waiters s) (update (pcs s) i Done)) (started s) (published s) (S (cancelled s))
      | _ => s
      end
  end.
Definition run (sched : list action) (s : state) : state := fold_left step sched s.
Definition init (n : nat) : state := mkS None false [] (repeat Idle n) 0 0 0.

Definition is_owner_pc (p : pc) : bool := match p with Exec | Published => true | _ => false end.
Definition owners (s : state) : nat := length (filter is_owner_pc (pcs s)).
Definition is_exec_pc (p : pc) : bool := match p with Exec => true | _ => false end.
Definition execs (s : state) : nat := length (filter is_exec_pc (pcs s)).   (* tasks in Exec *)

(** The WRONG order, for contrast: the owner removes the entry and wakes the waiters first
    ([Exec -> Released]) and publishes afterwards ([Released -> Idle]).  Everything else is
    [step].  Between the two steps the key is neither computing nor verified, so another task
    starts a second execution (SingleFlightProof.bad_order_refuted). *)
Definition step_bad (s : state) (a : action) : state :=
  match a with
  | Act i =>
      match nth_error (pcs s) i with
      | Some Exec => mkS None (verified s) [] (wake (waiters s) (update (pcs s) i Released)) (started s) (published s) (cancelled s)
      | Some Released => mkS (entry s) true (waiters s) (update (pcs s) i Idle) (started s) (S (published s)) (cancelled s)
      | Some Published => s
      | _ => step s a
      end
  | Cancel _ => step s a
  end.
Definition run_bad (sched : list action) (s : state) : state := fold_left step_bad sched s.
