(** Structural lemmas about the four-region LRU of Lfu/Model.v: well-formedness
    (counters = list lengths, no key twice, regions pairwise disjoint) is preserved
    by every list primitive, with exact membership and length bookkeeping. *)
From QV Require Import Common.Prelude Lfu.Model.
Open Scope N_scope.

(* ------------------------------------------------------------------ regions *)
Definition region_eq_dec : forall a b : region, {a = b} + {a <> b}.
Proof. decide equality. Defined.

Lemma region_eqb_true a b : region_eqb a b = true <-> a = b.
Proof. destruct a, b; cbn; split; intro H; try reflexivity; try discriminate. Qed.

Lemma region_eqb_false a b : region_eqb a b = false <-> a <> b.
Proof. destruct a, b; cbn; split; intro H; try reflexivity; try discriminate; try congruence. Qed.

Lemma getr_setr_same r x l : getr r (setr r x l) = x.
Proof. destruct r; reflexivity. Qed.

Lemma getr_setr_other r r' x l : r <> r' -> getr r (setr r' x l) = getr r l.
Proof. destruct r, r'; intro H; try reflexivity; congruence. Qed.

(* ------------------------------------------------------------------ lists *)
Lemma mem_In k l : mem k l = true <-> In k l.
Proof.
  induction l as [|x l IH]; cbn; [split; [discriminate|tauto]|].
  rewrite orb_true_iff, N.eqb_eq, IH. tauto.
Qed.

Lemma mem_false k l : mem k l = false <-> ~ In k l.
Proof. rewrite <- mem_In. destruct (mem k l); split; congruence. Qed.

Lemma rm_incl x k l : In x (rm k l) -> In x l.
Proof.
  induction l as [|y l IH]; cbn; [tauto|].
  destruct (N.eqb_spec y k); cbn; tauto.
Qed.

Lemma rm_keep x k l : In x l -> x <> k -> In x (rm k l).
Proof.
  induction l as [|y l IH]; cbn; [tauto|].
  intros [->|H] Hne.
  - destruct (N.eqb_spec x k); [congruence|]. now left.
  - destruct (N.eqb_spec y k); [assumption|]. right; auto.
Qed.

Lemma rm_notin x k l : NoDup l -> In x (rm k l) -> x <> k.
Proof.
  induction 1 as [|y l Hy Hnd IH]; cbn; [tauto|].
  destruct (N.eqb_spec y k) as [->|Hne].
  - intros Hin ->. contradiction.
  - intros [->|Hin]; auto.
Qed.

Lemma rm_In x k l : NoDup l -> (In x (rm k l) <-> In x l /\ x <> k).
Proof.
  intro H. split.
  - intro Hin. split; [eapply rm_incl; eauto | eapply rm_notin; eauto].
  - intros [A B]. now apply rm_keep.
Qed.

Lemma rm_NoDup k l : NoDup l -> NoDup (rm k l).
Proof.
  induction 1 as [|y l Hy Hnd IH]; cbn; [constructor|].
  destruct (N.eqb_spec y k); [assumption|].
  constructor; [|assumption]. intro Hin. apply Hy. eapply rm_incl; eauto.
Qed.

Lemma rm_length k l : In k l -> S (length (rm k l)) = length l.
Proof.
  induction l as [|y l IH]; cbn; [tauto|].
  intros [->|H].
  - now rewrite N.eqb_refl.
  - destruct (N.eqb_spec y k); [reflexivity|]. cbn. now rewrite IH.
Qed.

Lemma last_opt_app l t : last_opt l = Some t -> l = removelast l ++ [t].
Proof.
  induction l as [|x l IH]; [discriminate|].
  destruct l as [|y l].
  - cbn. intros [= ->]. reflexivity.
  - intro H. change (last_opt (x :: y :: l)) with (last_opt (y :: l)) in H.
    change (removelast (x :: y :: l)) with (x :: removelast (y :: l)).
    cbn [app]. f_equal. now apply IH.
Qed.

Lemma last_opt_In l t : last_opt l = Some t -> In t l.
Proof.
  intro H. rewrite (last_opt_app _ _ H). apply in_or_app. right. now left.
Qed.

Lemma last_opt_None l : last_opt l = None -> l = [].
Proof.
  induction l as [|x l IH]; [reflexivity|].
  destruct l as [|y l]; [discriminate|].
  intro H. change (last_opt (x :: y :: l)) with (last_opt (y :: l)) in H.
  apply IH in H. discriminate.
Qed.

Lemma rm_app_notin k a b : ~ In k a -> rm k (a ++ b) = a ++ rm k b.
Proof.
  induction a as [|x a IH]; cbn; [reflexivity|].
  intro H. destruct (N.eqb_spec x k) as [->|Hne]; [tauto|].
  f_equal. apply IH. tauto.
Qed.

Lemma removelast_rm l t : NoDup l -> last_opt l = Some t -> removelast l = rm t l.
Proof.
  intros Hnd H. pose proof (last_opt_app _ _ H) as E.
  set (a := removelast l) in *. rewrite E in Hnd |- *.
  assert (~ In t a) as Hn.
  { apply NoDup_remove_2 in Hnd. rewrite app_nil_r in Hnd. exact Hnd. }
  rewrite rm_app_notin by assumption. cbn. rewrite N.eqb_refl. now rewrite app_nil_r.
Qed.

(* ------------------------------------------------------------------ well-formedness *)
Definition rlen (r : region) (l : lru) : nat := length (items (getr r l)).
Definition inr_ (k : N) (r : region) (l : lru) : Prop := In k (items (getr r l)).
Definition inl (k : N) (l : lru) : Prop := exists r, inr_ k r l.

Record wf (l : lru) : Prop := {
  wf_cnt : forall r, cnt (getr r l) = N.of_nat (rlen r l);
  wf_nd : forall r, NoDup (items (getr r l));
  wf_disj : forall k r1 r2, inr_ k r1 l -> inr_ k r2 l -> r1 = r2
}.

Lemma wf_empty : wf empty_lru.
Proof.
  split.
  - intros []; reflexivity.
  - intros []; constructor.
  - intros k [] r2 H; destruct H.
Qed.

Lemma region_of_Some k l r : region_of k l = Some r -> inr_ k r l.
Proof.
  unfold region_of, inr_.
  destruct (mem k (items (r_win l))) eqn:A; [intros [= <-]; now apply mem_In|].
  destruct (mem k (items (r_prob l))) eqn:B; [intros [= <-]; now apply mem_In|].
  destruct (mem k (items (r_prot l))) eqn:C; [intros [= <-]; now apply mem_In|].
  destruct (mem k (items (r_pin l))) eqn:D; [intros [= <-]; now apply mem_In|].
  discriminate.
Qed.

Lemma region_of_None k l : region_of k l = None -> ~ inl k l.
Proof.
  unfold region_of, inl, inr_.
  destruct (mem k (items (r_win l))) eqn:A; [discriminate|].
  destruct (mem k (items (r_prob l))) eqn:B; [discriminate|].
  destruct (mem k (items (r_prot l))) eqn:C; [discriminate|].
  destruct (mem k (items (r_pin l))) eqn:D; [discriminate|].
  intros _ [[] H]; cbn in H; apply mem_false in A, B, C, D; tauto.
Qed.

Lemma region_of_inr k l r : wf l -> inr_ k r l -> region_of k l = Some r.
Proof.
  intros W H. destruct (region_of k l) as [r'|] eqn:E.
  - apply region_of_Some in E. f_equal. eapply wf_disj; eauto.
  - apply region_of_None in E. exfalso. apply E. now exists r.
Qed.

Lemma region_of_inl k l : inl k l <-> region_of k l <> None.
Proof.
  split.
  - intros H E. now apply region_of_None in E.
  - destruct (region_of k l) as [r|] eqn:E; [|congruence]. intros _. exists r. now apply region_of_Some.
Qed.

(* ---- rem_key *)
Section RemKey.
  Variables (k : N) (r : region) (l : lru).
  Hypothesis W : wf l.
  Hypothesis Hin : inr_ k r l.

  Lemma rem_key_getr_same : items (getr r (rem_key k r l)) = rm k (items (getr r l)).
  Proof. unfold rem_key. now rewrite getr_setr_same. Qed.

  Lemma rem_key_getr_other r' : r' <> r -> getr r' (rem_key k r l) = getr r' l.
  Proof. intro H. unfold rem_key. now rewrite getr_setr_other. Qed.

  Lemma rem_key_inr x r' : inr_ x r' (rem_key k r l) <-> inr_ x r' l /\ x <> k.
  Proof.
    unfold inr_. destruct (region_eq_dec r' r) as [->|Hne].
    - rewrite rem_key_getr_same. apply rm_In. apply W.
    - rewrite rem_key_getr_other by assumption. split; [|tauto].
      intro H. split; [assumption|]. intros ->. apply Hne. eapply wf_disj; eauto.
  Qed.

  Lemma rem_key_inl x : inl x (rem_key k r l) <-> inl x l /\ x <> k.
  Proof.
    unfold inl. split.
    - intros [r' H]. apply rem_key_inr in H. destruct H. split; [now exists r'|assumption].
    - intros [[r' H] Hne]. exists r'. apply rem_key_inr. tauto.
  Qed.

  Lemma rem_key_rlen_same : S (rlen r (rem_key k r l)) = rlen r l.
  Proof. unfold rlen. rewrite rem_key_getr_same. now apply rm_length. Qed.

  Lemma rem_key_rlen_other r' : r' <> r -> rlen r' (rem_key k r l) = rlen r' l.
  Proof. intro H. unfold rlen. now rewrite rem_key_getr_other. Qed.

  Lemma rem_key_wf : wf (rem_key k r l).
  Proof.
    split.
    - intro r'. destruct (region_eq_dec r' r) as [->|Hne].
      + pose proof rem_key_rlen_same as E. unfold rem_key at 1. rewrite getr_setr_same. cbn.
        rewrite (wf_cnt _ W). lia.
      + rewrite rem_key_rlen_other by assumption. rewrite rem_key_getr_other by assumption. apply W.
    - intro r'. destruct (region_eq_dec r' r) as [->|Hne].
      + rewrite rem_key_getr_same. apply rm_NoDup. apply W.
      + rewrite rem_key_getr_other by assumption. apply W.
    - intros x r1 r2 H1 H2. apply rem_key_inr in H1, H2. destruct H1 as [H1 _], H2 as [H2 _]. eapply wf_disj; eauto.
  Qed.
End RemKey.

(* ---- rem_tail = rem_key of the tail *)
Lemma rem_tail_rem_key t r l : wf l -> lru_peek r l = Some t -> rem_tail r l = rem_key t r l.
Proof.
  intros W H. unfold rem_tail, rem_key, unlink_tail, unlink. unfold lru_peek in H.
  rewrite (removelast_rm _ _ (wf_nd _ W r) H). reflexivity.
Qed.

Lemma peek_inr t r l : lru_peek r l = Some t -> inr_ t r l.
Proof. apply last_opt_In. Qed.

Lemma peek_None_rlen r l : lru_peek r l = None -> rlen r l = 0%nat.
Proof. unfold lru_peek, rlen. intro H. now rewrite (last_opt_None _ H). Qed.

(* ---- add_key *)
Section AddKey.
  Variables (k : N) (r : region) (l : lru).
  Hypothesis W : wf l.
  Hypothesis Hfresh : ~ inl k l.

  Lemma add_key_getr_same : items (getr r (add_key k r l)) = k :: items (getr r l).
  Proof. unfold add_key. now rewrite getr_setr_same. Qed.

  Lemma add_key_getr_other r' : r' <> r -> getr r' (add_key k r l) = getr r' l.
  Proof. intro H. unfold add_key. now rewrite getr_setr_other. Qed.

  Lemma add_key_inr x r' : inr_ x r' (add_key k r l) <-> inr_ x r' l \/ (x = k /\ r' = r).
  Proof.
    unfold inr_. destruct (region_eq_dec r' r) as [->|Hne].
    - rewrite add_key_getr_same. cbn.
      split; [intros [E|H]; [right; split; congruence|now left] | intros [H|[E _]]; [now right|left; congruence]].
    - rewrite add_key_getr_other by assumption. tauto.
  Qed.

  Lemma add_key_inl x : inl x (add_key k r l) <-> inl x l \/ x = k.
  Proof.
    unfold inl. split.
    - intros [r' H]. apply add_key_inr in H. destruct H as [H|[-> _]]; [left; now exists r'|now right].
    - intros [[r' H]| ->]; [exists r'|exists r]; apply add_key_inr; tauto.
  Qed.

  Lemma add_key_rlen_same : rlen r (add_key k r l) = S (rlen r l).
  Proof. unfold rlen. now rewrite add_key_getr_same. Qed.

  Lemma add_key_rlen_other r' : r' <> r -> rlen r' (add_key k r l) = rlen r' l.
  Proof. intro H. unfold rlen. now rewrite add_key_getr_other. Qed.

  Lemma add_key_wf : wf (add_key k r l).
  Proof.
    split.
    - intro r'. destruct (region_eq_dec r' r) as [->|Hne].
      + rewrite add_key_rlen_same. unfold add_key. rewrite getr_setr_same. cbn.
        rewrite (wf_cnt _ W). lia.
      + rewrite add_key_rlen_other by assumption. rewrite add_key_getr_other by assumption. apply W.
    - intro r'. destruct (region_eq_dec r' r) as [->|Hne].
      + rewrite add_key_getr_same. constructor; [|apply W].
        intro H. apply Hfresh. now exists r.
      + rewrite add_key_getr_other by assumption. apply W.
    - intros x r1 r2 H1 H2. apply add_key_inr in H1, H2.
      destruct H1 as [H1|[-> ->]], H2 as [H2|[E ->]]; try reflexivity.
      + eapply wf_disj; eauto.
      + subst x. exfalso. apply Hfresh. now exists r1.
      + exfalso. apply Hfresh. now exists r2.
  Qed.
End AddKey.

(* ---- head_key *)
Section HeadKey.
  Variables (k : N) (r : region) (l : lru).
  Hypothesis W : wf l.
  Hypothesis Hin : inr_ k r l.

  Lemma head_key_getr_same : items (getr r (head_key k r l)) = k :: rm k (items (getr r l)).
  Proof. unfold head_key. now rewrite getr_setr_same. Qed.

  Lemma head_key_getr_other r' : r' <> r -> getr r' (head_key k r l) = getr r' l.
  Proof. intro H. unfold head_key. now rewrite getr_setr_other. Qed.

  Lemma head_key_inr x r' : inr_ x r' (head_key k r l) <-> inr_ x r' l.
  Proof.
    unfold inr_. destruct (region_eq_dec r' r) as [->|Hne].
    - rewrite head_key_getr_same. cbn. rewrite (rm_In x k _ (wf_nd _ W r)).
      destruct (N.eq_dec x k) as [->|Hne]; [tauto|]. split; [intros [E|H]; [congruence|tauto]|tauto].
    - now rewrite head_key_getr_other.
  Qed.

  Lemma head_key_inl x : inl x (head_key k r l) <-> inl x l.
  Proof. unfold inl. split; intros [r' H]; exists r'; apply head_key_inr; assumption. Qed.

  Lemma head_key_rlen r' : rlen r' (head_key k r l) = rlen r' l.
  Proof.
    unfold rlen. destruct (region_eq_dec r' r) as [->|Hne].
    - rewrite head_key_getr_same. cbn. now apply rm_length.
    - now rewrite head_key_getr_other.
  Qed.

  Lemma head_key_wf : wf (head_key k r l).
  Proof.
    split.
    - intro r'. rewrite head_key_rlen. destruct (region_eq_dec r' r) as [->|Hne].
      + unfold head_key. rewrite getr_setr_same. cbn. apply W.
      + rewrite head_key_getr_other by assumption. apply W.
    - intro r'. destruct (region_eq_dec r' r) as [->|Hne].
      + rewrite head_key_getr_same. constructor; [|apply rm_NoDup, W].
        intro H. apply (rm_notin _ _ _ (wf_nd _ W r)) in H. congruence.
      + rewrite head_key_getr_other by assumption. apply W.
    - intros x r1 r2 H1 H2. apply head_key_inr in H1, H2. eapply wf_disj; eauto.
  Qed.
End HeadKey.

Global Opaque rem_key add_key head_key rem_tail.

(* ------------------------------------------------------------------ capacities *)
Record caps_ok (c : cfg) (l : lru) : Prop := {
  c_win : N.of_nat (rlen Win l) <= wcap c;
  c_prot : N.of_nat (rlen Prot l) <= pcap c;
  c_main : N.of_nat (rlen Prob l) + N.of_nat (rlen Prot l) <= maxcap c - wcap c
}.

Definition wf_cfg (c : cfg) : Prop := wcap c <= maxcap c /\ pcap c < maxcap c - wcap c.

Lemma wf_mk_cfg cap p a : wf_cfg (mk_cfg cap p a).
Proof. unfold wf_cfg, mk_cfg, max_capacity; cbn. lia. Qed.

(** a move of the tail of [from] to the head of [to] *)
Section MoveLr.
  Variables (from to : region) (l : lru) (t : N).
  Hypothesis W : wf l.
  Hypothesis Hne : from <> to.
  Hypothesis Hpeek : lru_peek from l = Some t.

  Let l1 := rem_key t from l.
  Lemma move_lr_eq : lru_move_lr from to l = add_key t to l1.
  Proof. unfold lru_move_lr. rewrite Hpeek. now rewrite (rem_tail_rem_key t). Qed.

  Lemma move_l1_wf : wf l1.
  Proof. apply rem_key_wf; [assumption|now apply peek_inr]. Qed.
  Lemma move_l1_fresh : ~ inl t l1.
  Proof. intro H. apply rem_key_inl in H; [tauto|assumption|now apply peek_inr]. Qed.

  Lemma move_lr_wf : wf (lru_move_lr from to l).
  Proof. rewrite move_lr_eq. apply add_key_wf; [apply move_l1_wf|apply move_l1_fresh]. Qed.

  Lemma move_lr_inl x : inl x (lru_move_lr from to l) <-> inl x l.
  Proof.
    rewrite move_lr_eq. rewrite add_key_inl. unfold l1. rewrite rem_key_inl by (assumption || now apply peek_inr).
    split; [intros [[H _]| ->]; [assumption|exists from; now apply peek_inr]|].
    intro H. destruct (N.eq_dec x t); tauto.
  Qed.

  Lemma move_lr_inr x r : inr_ x r (lru_move_lr from to l) <-> (inr_ x r l /\ x <> t) \/ (x = t /\ r = to).
  Proof.
    rewrite move_lr_eq. rewrite add_key_inr by (apply move_l1_wf || apply move_l1_fresh).
    unfold l1. rewrite rem_key_inr by (assumption || now apply peek_inr). tauto.
  Qed.

  Lemma move_lr_rlen_from : S (rlen from (lru_move_lr from to l)) = rlen from l.
  Proof.
    rewrite move_lr_eq. rewrite add_key_rlen_other by assumption.
    unfold l1. apply rem_key_rlen_same. now apply peek_inr.
  Qed.
  Lemma move_lr_rlen_to : rlen to (lru_move_lr from to l) = S (rlen to l).
  Proof.
    rewrite move_lr_eq. rewrite add_key_rlen_same.
    unfold l1. rewrite rem_key_rlen_other by congruence. reflexivity.
  Qed.
  Lemma move_lr_rlen_other r : r <> from -> r <> to -> rlen r (lru_move_lr from to l) = rlen r l.
  Proof.
    intros A B. rewrite move_lr_eq. rewrite add_key_rlen_other by assumption.
    unfold l1. now rewrite rem_key_rlen_other.
  Qed.
End MoveLr.

(** popping the tail *)
Section Pop.
  Variables (r : region) (l : lru) (t : N).
  Hypothesis W : wf l.
  Hypothesis Hpeek : lru_peek r l = Some t.

  Lemma pop_eq : lru_pop r l = rem_key t r l.
  Proof. unfold lru_pop. rewrite Hpeek. now apply rem_tail_rem_key. Qed.
  Lemma pop_wf : wf (lru_pop r l).
  Proof. rewrite pop_eq. apply rem_key_wf; [assumption|now apply peek_inr]. Qed.
  Lemma pop_inl x : inl x (lru_pop r l) <-> inl x l /\ x <> t.
  Proof. rewrite pop_eq. apply rem_key_inl; [assumption|now apply peek_inr]. Qed.
  Lemma pop_inr x r' : inr_ x r' (lru_pop r l) <-> inr_ x r' l /\ x <> t.
  Proof. rewrite pop_eq. apply rem_key_inr; [assumption|now apply peek_inr]. Qed.
  Lemma pop_rlen_same : S (rlen r (lru_pop r l)) = rlen r l.
  Proof. rewrite pop_eq. apply rem_key_rlen_same. now apply peek_inr. Qed.
  Lemma pop_rlen_other r' : r' <> r -> rlen r' (lru_pop r l) = rlen r' l.
  Proof. intro H. rewrite pop_eq. now apply rem_key_rlen_other. Qed.
End Pop.

(** [Lru::remove] *)
Lemma lru_remove_wf k l : wf l -> wf (lru_remove k l).
Proof.
  intro W. unfold lru_remove. destruct (region_of k l) as [r|] eqn:E; [|assumption].
  apply rem_key_wf; [assumption|now apply region_of_Some].
Qed.

Lemma lru_remove_inl k l x : wf l -> (inl x (lru_remove k l) <-> inl x l /\ x <> k).
Proof.
  intro W. unfold lru_remove. destruct (region_of k l) as [r|] eqn:E.
  - apply rem_key_inl; [assumption|now apply region_of_Some].
  - apply region_of_None in E. split; [|tauto]. intro H. split; [assumption|]. intros ->. tauto.
Qed.

Lemma lru_remove_rlen k l r : wf l -> (rlen r (lru_remove k l) <= rlen r l)%nat.
Proof.
  intro W. unfold lru_remove. destruct (region_of k l) as [r'|] eqn:E; [|lia].
  apply region_of_Some in E. destruct (region_eq_dec r r') as [->|Hne].
  - pose proof (rem_key_rlen_same k r' l E). lia.
  - rewrite rem_key_rlen_other by assumption. lia.
Qed.

Lemma lru_remove_caps c k l : wf l -> caps_ok c l -> caps_ok c (lru_remove k l).
Proof.
  intros W [A B C].
  pose proof (lru_remove_rlen k l Win W). pose proof (lru_remove_rlen k l Prot W).
  pose proof (lru_remove_rlen k l Prob W). split; lia.
Qed.

(** [Lru::shuffle_tail_to_head] *)
Lemma lru_shuffle_wf r l : wf l -> wf (lru_shuffle r l).
Proof.
  intro W. unfold lru_shuffle. destruct (lru_peek r l) as [t|] eqn:E; [|assumption].
  apply head_key_wf; [assumption|now apply peek_inr].
Qed.
Lemma lru_shuffle_inl r l x : wf l -> (inl x (lru_shuffle r l) <-> inl x l).
Proof.
  intro W. unfold lru_shuffle. destruct (lru_peek r l) as [t|] eqn:E; [|tauto].
  apply head_key_inl; [assumption|now apply peek_inr].
Qed.
Lemma lru_shuffle_rlen r l r' : wf l -> rlen r' (lru_shuffle r l) = rlen r' l.
Proof.
  intro W. unfold lru_shuffle. destruct (lru_peek r l) as [t|] eqn:E; [|reflexivity].
  apply head_key_rlen; (assumption || now apply peek_inr).
Qed.

(** [Lru::move_key_to_head_of_region] *)
Section MoveKey.
  Variables (k : N) (r to : region) (l : lru).
  Hypothesis W : wf l.
  Hypothesis Hin : inr_ k r l.
  Hypothesis Hne : r <> to.

  Lemma move_key_eq : lru_move_key k to l = Some (add_key k to (rem_key k r l)).
  Proof.
    unfold lru_move_key. rewrite (region_of_inr k l r W Hin).
    destruct (region_eqb r to) eqn:E; [apply region_eqb_true in E; congruence|reflexivity].
  Qed.
  Let l1 := rem_key k r l.
  Lemma mk_l1_wf : wf l1. Proof. now apply rem_key_wf. Qed.
  Lemma mk_l1_fresh : ~ inl k l1.
  Proof. intro H. apply rem_key_inl in H; tauto. Qed.
  Lemma move_key_wf : wf (add_key k to l1).
  Proof. apply add_key_wf; [apply mk_l1_wf|apply mk_l1_fresh]. Qed.
  Lemma move_key_inl x : inl x (add_key k to l1) <-> inl x l.
  Proof.
    rewrite add_key_inl. unfold l1. rewrite rem_key_inl by assumption.
    split; [intros [[H _]| ->]; [assumption|now exists r]|].
    intro H. destruct (N.eq_dec x k); tauto.
  Qed.
  Lemma move_key_rlen_from : S (rlen r (add_key k to l1)) = rlen r l.
  Proof. rewrite add_key_rlen_other by assumption. now apply rem_key_rlen_same. Qed.
  Lemma move_key_rlen_to : rlen to (add_key k to l1) = S (rlen to l).
  Proof. rewrite add_key_rlen_same. unfold l1. now rewrite rem_key_rlen_other by congruence. Qed.
  Lemma move_key_rlen_other r' : r' <> r -> r' <> to -> rlen r' (add_key k to l1) = rlen r' l.
  Proof. intros A B. rewrite add_key_rlen_other by assumption. now apply rem_key_rlen_other. Qed.
End MoveKey.

(** [Lru::hit] *)
Lemma lru_hit_spec c k l b l' :
  wf l -> caps_ok c l -> lru_hit k (pcap c) l = (b, l') ->
  wf l' /\ caps_ok c l' /\ (forall x, inl x l' <-> inl x l) /\
  (forall r, r <> Prob -> r <> Prot -> rlen r l' = rlen r l) /\
  (b = true <-> inl k l).
Proof.
  intros W C. unfold lru_hit.
  destruct (region_of k l) as [r|] eqn:E.
  2:{ intros [= <- <-]. apply region_of_None in E.
      split; [assumption|]. split; [assumption|]. split; [tauto|]. split; [intros; reflexivity|].
      split; [discriminate|intro H; contradiction]. }
  pose proof (region_of_Some _ _ _ E) as Hin.
  assert (inl k l) as Hl by now exists r.
  destruct r.
  - intros [= <- <-]. split; [now apply head_key_wf|]. split.
    + destruct C as [A B D]. split; rewrite !head_key_rlen by assumption; assumption.
    + split; [intro x; now apply head_key_inl|]. split; [intros; now apply head_key_rlen|tauto].
  - (* probation: promote, possibly demote the protected tail *)
    set (l1 := rem_key k Prob l).
    assert (wf l1) as W1 by now apply rem_key_wf.
    assert (~ inl k l1) as F1 by (intro H; apply rem_key_inl in H; tauto).
    set (l2 := add_key k Prot l1).
    assert (wf l2) as W2 by now apply add_key_wf.
    assert (forall x, inl x l2 <-> inl x l) as I2.
    { intro x. unfold l2. rewrite add_key_inl. unfold l1. rewrite rem_key_inl by assumption.
      split; [intros [[H _]| ->]; assumption|]. intro H. destruct (N.eq_dec x k); tauto. }
    assert (rlen Prot l2 = S (rlen Prot l)) as P2.
    { unfold l2. rewrite add_key_rlen_same. unfold l1. now rewrite rem_key_rlen_other by discriminate. }
    assert (S (rlen Prob l2) = rlen Prob l) as Q2.
    { unfold l2. rewrite add_key_rlen_other by discriminate. now apply rem_key_rlen_same. }
    assert (forall r, r <> Prob -> r <> Prot -> rlen r l2 = rlen r l) as O2.
    { intros r A B. unfold l2. rewrite add_key_rlen_other by assumption. now apply rem_key_rlen_other. }
    change (r_prot l2) with (getr Prot l2). rewrite (wf_cnt _ W2 Prot). rewrite P2.
    destruct C as [CA CB CD].
    destruct (N.ltb_spec (pcap c) (N.of_nat (S (rlen Prot l)))) as [Hlt|Hge].
    + destruct (lru_peek Prot l2) as [t|] eqn:Pk.
      2:{ apply peek_None_rlen in Pk. rewrite P2 in Pk. discriminate. }
      fold l1. fold l2. intros [= <- <-].
      assert (Prot <> Prob) as NE by discriminate.
      split; [now apply (move_lr_wf Prot Prob l2 t)|]. split.
      { split.
        - rewrite (move_lr_rlen_other Prot Prob l2 t) by (assumption || discriminate).
          rewrite O2 by discriminate. assumption.
        - pose proof (move_lr_rlen_from Prot Prob l2 t W2 NE Pk). lia.
        - pose proof (move_lr_rlen_from Prot Prob l2 t W2 NE Pk).
          pose proof (move_lr_rlen_to Prot Prob l2 t W2 NE Pk). lia. }
      split; [intro x; rewrite (move_lr_inl Prot Prob l2 t) by assumption; apply I2|].
      split; [|tauto]. intros r A B. rewrite (move_lr_rlen_other Prot Prob l2 t) by (assumption || congruence).
      now apply O2.
    + intros [= <- <-]. split; [assumption|]. split; [split; rewrite ?O2 by discriminate; lia|].
      split; [assumption|]. split; [assumption|tauto].
  - intros [= <- <-]. split; [now apply head_key_wf|]. split.
    + destruct C as [A B D]. split; rewrite !head_key_rlen by assumption; assumption.
    + split; [intro x; now apply head_key_inl|]. split; [intros; now apply head_key_rlen|tauto].
  - intros [= <- <-]. split; [assumption|]. split; [assumption|]. split; [tauto|].
    split; [intros; reflexivity|tauto].
Qed.
