(** Executable model of the TinyLFU admission cache of crates/storage/src/tiny_lfu*
    (single-threaded semantics, MaintenanceMode::Piggyback), as the code has it.

    - storage map            = association list key -> value       (scc::HashMap)
    - write buffer           = FIFO list of [wmsg]                 (write_buffer.rs)
    - read buffer            = one shard of 16 slots, pushes beyond that are dropped
                               (read_buffer.rs; one thread always maps to one shard)
    - policy                 = four regions as lists (head = most recent, last = least
                               recent) plus the four length counters kept by lru.rs,
                               capacities as [Policy::new] computes them (f64 arithmetic
                               reproduced bit-exactly), the frequency sketch
    - maintenance            = runs inside an operation when a buffer holds more than 32
                               messages: all writes in FIFO order, then the reads, then
                               (UnpinStrategy::Poll) the trim of the pinned region
    - the pin predicate      = [pinned k v], asked under the entry lock by remove_closure

    The frequency sketch enters the generic model as an abstract state [SK] with the two
    operations the policy uses; the exact bloom + count-min sketch of sketch.rs with
    FxHash of u64 keys is defined below and plugged in for the correspondence run.

    [as_code = true] is the code as it is; [as_code = false] is the repaired
    [Policy::unpin] (empty probation region handled instead of unwrapped). *)
From QV Require Import Common.Prelude.
From Coq Require Import FMapPositive.
Open Scope N_scope.

(* ------------------------------------------------------------------ outcomes *)
Inductive res (A : Type) :=
| Ok (a : A)
| Panic (line : N)      (* the Rust code panics (source line of policy.rs) *)
| Fuel.                 (* the model ran out of fuel (excluded by theorem) *)
Arguments Ok {A} a.
Arguments Panic {A} line.
Arguments Fuel {A}.

Notation "'dor' x <- e ; k" := (match e with Ok x => k | Panic l => Panic l | Fuel => Fuel end)
  (at level 200, x pattern, e at level 100, k at level 200, right associativity).

(* ------------------------------------------------------------------ capacities *)
(** [ceil (rne53 (c * M * 2^-e))]: the f64 product of an exactly representable integer
    [c] with the double [M * 2^-e] (round to nearest even to 53 bits), then [ceil]. *)
Definition f64_mul_ceil (c M e : N) : N :=
  let P := c * M in
  if P =? 0 then 0 else
  let b := N.size P in
  if b <=? 53 then (P + 2 ^ e - 1) / 2 ^ e
  else
    let s := b - 53 in
    let q := N.shiftr P s in
    let rem := N.land P (2 ^ s - 1) in
    let half := 2 ^ (s - 1) in
    let q' := if (half <? rem) || ((rem =? half) && N.odd q) then q + 1 else q in
    if e <=? s then N.shiftl q' (s - e)
    else (q' + 2 ^ (e - s) - 1) / 2 ^ (e - s).

Definition M_001 : N := 5764607523034235.   (* 0.01 = 0x3F847AE147AE147B = M_001 * 2^-59 *)
Definition M_08  : N := 7205759403792794.   (* 0.8  = 0x3FE999999999999A = M_08  * 2^-53 *)

Record cfg := { wcap : N; pcap : N; maxcap : N; poll : bool; as_code : bool }.

(** [Policy::new capacity] *)
Definition window_capacity (cap : N) : N := f64_mul_ceil cap M_001 59.
Definition protected_capacity (cap : N) : N := f64_mul_ceil (cap - window_capacity cap) M_08 53.
Definition max_capacity (cap : N) : N :=
  let w := window_capacity cap in
  let main := cap - w in
  let p := protected_capacity cap in
  let probation := N.max (main - p) 1 in
  w + (p + probation).

Definition mk_cfg (cap : N) (poll_ as_code_ : bool) : cfg :=
  {| wcap := window_capacity cap; pcap := protected_capacity cap; maxcap := max_capacity cap;
     poll := poll_; as_code := as_code_ |}.

Definition BATCH : N := 32.          (* MAINTENANCE_BATCH_SIZE *)
Definition RSHARD : N := 16.         (* capacity of one read-buffer shard *)

(* ------------------------------------------------------------------ lists *)
Fixpoint mem (k : N) (l : list N) : bool :=
  match l with [] => false | x :: r => (x =? k) || mem k r end.

Fixpoint rm (k : N) (l : list N) : list N :=      (* first occurrence *)
  match l with [] => [] | x :: r => if x =? k then r else x :: rm k r end.

Fixpoint last_opt (l : list N) : option N :=
  match l with [] => None | [x] => Some x | _ :: r => last_opt r end.

Definition len {A} (l : list A) : N := N.of_nat (length l).

(* ------------------------------------------------------------------ LRU (lru.rs) *)
Inductive region := Win | Prob | Prot | Pin.

Record reg := { items : list N; cnt : N }.     (* one region: nodes head..tail, lens[r] *)
Record lru := { r_win : reg; r_prob : reg; r_prot : reg; r_pin : reg }.

Definition getr (r : region) (l : lru) : reg :=
  match r with Win => r_win l | Prob => r_prob l | Prot => r_prot l | Pin => r_pin l end.
Definition setr (r : region) (x : reg) (l : lru) : lru :=
  match r with
  | Win => {| r_win := x; r_prob := r_prob l; r_prot := r_prot l; r_pin := r_pin l |}
  | Prob => {| r_win := r_win l; r_prob := x; r_prot := r_prot l; r_pin := r_pin l |}
  | Prot => {| r_win := r_win l; r_prob := r_prob l; r_prot := x; r_pin := r_pin l |}
  | Pin => {| r_win := r_win l; r_prob := r_prob l; r_prot := r_prot l; r_pin := x |}
  end.

Definition empty_reg : reg := {| items := []; cnt := 0 |}.
Definition empty_lru : lru := {| r_win := empty_reg; r_prob := empty_reg; r_prot := empty_reg; r_pin := empty_reg |}.

(** the key -> region map of lru.rs, derived from the lists *)
Definition region_of (k : N) (l : lru) : option region :=
  if mem k (items (r_win l)) then Some Win
  else if mem k (items (r_prob l)) then Some Prob
  else if mem k (items (r_prot l)) then Some Prot
  else if mem k (items (r_pin l)) then Some Pin
  else None.

Definition region_eqb (a b : region) : bool :=
  match a, b with Win, Win | Prob, Prob | Prot, Prot | Pin, Pin => true | _, _ => false end.

(** list surgery; the counters are adjusted by the callers exactly where lru.rs does
    ([x -= 1] is [N.pred]: the accounting theorem shows the counter is positive there) *)
Definition push_head (k : N) (x : reg) : reg := {| items := k :: items x; cnt := cnt x |}.
Definition unlink (k : N) (x : reg) : reg := {| items := rm k (items x); cnt := cnt x |}.
Definition unlink_tail (x : reg) : reg := {| items := removelast (items x); cnt := cnt x |}.
Definition inc (x : reg) : reg := {| items := items x; cnt := cnt x + 1 |}.
Definition dec (x : reg) : reg := {| items := items x; cnt := N.pred (cnt x) |}.
Definition to_head (k : N) (x : reg) : reg := {| items := k :: rm k (items x); cnt := cnt x |}.

Definition lru_peek (r : region) (l : lru) : option N := last_opt (items (getr r l)).

(** the three list primitives every Lru method is made of, with the counter update that
    accompanies them in lru.rs *)
Definition rem_tail (r : region) (l : lru) : lru := setr r (dec (unlink_tail (getr r l))) l.
Definition rem_key (k : N) (r : region) (l : lru) : lru := setr r (dec (unlink k (getr r l))) l.
Definition add_key (k : N) (r : region) (l : lru) : lru := setr r (inc (push_head k (getr r l))) l.
Definition head_key (k : N) (r : region) (l : lru) : lru := setr r (to_head k (getr r l)) l.

(** [Lru::pop_least_recent] *)
Definition lru_pop (r : region) (l : lru) : lru :=
  match lru_peek r l with
  | None => l
  | Some _ => rem_tail r l
  end.

(** [Lru::move_least_recent_of_to_new_region] (always called with [from <> to]) *)
Definition lru_move_lr (from to : region) (l : lru) : lru :=
  match lru_peek from l with
  | None => l
  | Some t => add_key t to (rem_tail from l)
  end.

(** [Lru::new_entry] (the caller has just seen that the key is not in the map) *)
Definition lru_new_entry (k : N) (r : region) (l : lru) : lru := add_key k r l.

(** [Lru::remove] *)
Definition lru_remove (k : N) (l : lru) : lru :=
  match region_of k l with
  | None => l
  | Some r => rem_key k r l
  end.

(** [Lru::shuffle_tail_to_head] *)
Definition lru_shuffle (r : region) (l : lru) : lru :=
  match lru_peek r l with
  | None => l
  | Some t => head_key t r l
  end.

(** [Lru::move_key_to_head_of_region]; [None] = its unwrap/assert fails *)
Definition lru_move_key (k : N) (to : region) (l : lru) : option lru :=
  match region_of k l with
  | None => None
  | Some r => if region_eqb r to then None else Some (add_key k to (rem_key k r l))
  end.

(** [Lru::hit] *)
Definition lru_hit (k : N) (pc : N) (l : lru) : bool * lru :=
  match region_of k l with
  | None => (false, l)
  | Some Win => (true, head_key k Win l)
  | Some Prot => (true, head_key k Prot l)
  | Some Pin => (true, l)
  | Some Prob =>
      let l := add_key k Prot (rem_key k Prob l) in
      (* over capacity: demote the protected tail ([if let Some(tail)]) *)
      if pc <? cnt (r_prot l) then (true, lru_move_lr Prot Prob l) else (true, l)
  end.

(* ------------------------------------------------------------------ messages, ops *)
Inductive wmsg := WInsert (k : N) | WRemoved (k : N) | WUnpinned (k : N).

Section Model.
  Variables (V U SK : Type).
  Variable pinned : N -> V -> bool.        (* LifecycleListener::is_pinned *)
  Variable apply : U -> V -> V.            (* what a caller does through get_mut *)
  Variable sk_record : SK -> N -> SK.      (* Sketch::record_access (hash k) *)
  Variable sk_gt : SK -> N -> N -> bool.   (* estimate (hash a) > estimate (hash b) *)

  Inductive op :=
  | Get (k : N)                (* TinyLFU::get *)
  | Peek (k : N)               (* entry: read the value if occupied *)
  | Insert (k : N) (v : V)     (* entry: insert if vacant *)
  | Modify (k : N) (u : U)     (* entry: get_mut if occupied *)
  | Remove (k : N)             (* entry: remove if occupied *)
  | Unpin (k : N).             (* TinyLFU::unpin *)

  Inductive ret := RVal (o : option V) | RBool (b : bool) | RUnit.

  Record state := {
    st : list (N * V);     (* storage *)
    wb : list wmsg;        (* write buffer, oldest first *)
    rb : list N;           (* read buffer shard, oldest first *)
    lr : lru;
    sk : SK;
    ev : list N            (* ghost: keys evicted so far during the current operation *)
  }.

  Definition set_st x s := {| st := x; wb := wb s; rb := rb s; lr := lr s; sk := sk s; ev := ev s |}.
  Definition set_wb x s := {| st := st s; wb := x; rb := rb s; lr := lr s; sk := sk s; ev := ev s |}.
  Definition set_rb x s := {| st := st s; wb := wb s; rb := x; lr := lr s; sk := sk s; ev := ev s |}.
  Definition set_lr x s := {| st := st s; wb := wb s; rb := rb s; lr := x; sk := sk s; ev := ev s |}.
  Definition set_sk x s := {| st := st s; wb := wb s; rb := rb s; lr := lr s; sk := x; ev := ev s |}.
  Definition set_ev x s := {| st := st s; wb := wb s; rb := rb s; lr := lr s; sk := sk s; ev := x |}.

  Definition init (sk0 : SK) : state :=
    {| st := []; wb := []; rb := []; lr := empty_lru; sk := sk0; ev := [] |}.

  Fixpoint slookup (k : N) (m : list (N * V)) : option V :=
    match m with [] => None | (x, v) :: r => if x =? k then Some v else slookup k r end.
  Fixpoint sremove (k : N) (m : list (N * V)) : list (N * V) :=
    match m with [] => [] | (x, v) :: r => if x =? k then sremove k r else (x, v) :: sremove k r end.
  Fixpoint smodify (k : N) (u : U) (m : list (N * V)) : list (N * V) :=
    match m with
    | [] => []
    | (x, v) :: r => if x =? k then (x, apply u v) :: r else (x, v) :: smodify k u r
    end.

  (** [remove_closure]: ask the owner under the entry lock; evict unless pinned;
      an absent key counts as removed *)
  Definition try_remove (k : N) (s : state) : bool * state :=
    match slookup k (st s) with
    | Some v =>
        if pinned k v then (false, s)
        else (true, set_ev (ev s ++ [k]) (set_st (sremove k (st s)) s))
    | None => (true, s)
    end.

  (** [Policy::on_read_hit] *)
  Definition on_read_hit (c : cfg) (k : N) (s : state) : bool * state :=
    let s := set_sk (sk_record (sk s) k) s in
    let (b, l) := lru_hit k (pcap c) (lr s) in
    (b, set_lr l s).

  (** [Policy::on_write] *)
  Definition on_write (c : cfg) (k : N) (s : state) : res state :=
    let (b, s) := on_read_hit c k s in
    if b then Ok s else
    let l := lru_new_entry k Win (lr s) in
    if cnt (r_win l) <=? wcap c then Ok (set_lr l s) else
    let main_usage := cnt (r_prob l) + cnt (r_prot l) in
    let main_limit := maxcap c - wcap c in
    if main_usage <? main_limit then Ok (set_lr (lru_move_lr Win Prob l) s) else
    match lru_peek Win l with
    | None => Panic 109
    | Some cand =>
        match lru_peek Prob l with
        | None => Panic 113
        | Some vict =>
            if sk_gt (sk s) cand vict then
              let (ok, s) := try_remove vict s in
              let l := if ok then lru_pop Prob l else lru_move_lr Prob Pin l in
              Ok (set_lr (lru_move_lr Win Prob l) s)
            else
              let (ok, s) := try_remove cand s in
              Ok (set_lr (if ok then lru_pop Win l else lru_move_lr Win Pin l) s)
        end
    end.

  (** [Policy::unpin]; with [as_code c = false] the empty probation region is handled *)
  Definition unpin (c : cfg) (k : N) (s : state) : res state :=
    let l := lr s in
    match region_of k l with
    | Some Pin =>
        match lru_peek Prob l with
        | None =>
            if as_code c then Panic 172
            else match lru_move_key k Prob l with
                 | Some l => Ok (set_lr l s)
                 | None => Panic 352
                 end
        | Some vict =>
            if sk_gt (sk s) k vict then
              let (ok, s) := try_remove vict s in
              let l := if ok then lru_pop Prob l else lru_move_lr Prob Pin l in
              match lru_move_key k Prob l with
              | Some l => Ok (set_lr l s)
              | None => Panic 352
              end
            else
              let (ok, s) := try_remove k s in
              Ok (if ok then set_lr (lru_remove k l) s else s)
        end
    | _ => Ok s
    end.

  (** [Policy::attempt_to_trim_overflowing_pinned]: [while pinned_len > 0] *)
  Fixpoint trim (fuel : nat) (s : state) : res state :=
    if cnt (r_pin (lr s)) =? 0 then Ok s else
    match fuel with
    | O => Fuel
    | S f =>
        match lru_peek Pin (lr s) with
        | None => Panic 218
        | Some k =>
            let (ok, s) := try_remove k s in
            if ok then trim f (set_lr (lru_pop Pin (lr s)) s)
            else Ok (set_lr (lru_shuffle Pin (lr s)) s)
        end
    end.

  Definition process_write (c : cfg) (m : wmsg) (s : state) : res state :=
    match m with
    | WInsert k => on_write c k s
    | WUnpinned k => unpin c k s
    | WRemoved k => Ok (set_lr (lru_remove k (lr s)) s)
    end.

  Fixpoint process_writes (c : cfg) (ms : list wmsg) (s : state) : res state :=
    match ms with
    | [] => Ok s
    | m :: r => dor s <- process_write c m s; process_writes c r s
    end.

  Fixpoint process_reads (c : cfg) (ks : list N) (s : state) : state :=
    match ks with
    | [] => s
    | k :: r => process_reads c r (snd (on_read_hit c k s))
    end.

  (** [TinyLFUInner::process_policy_message] *)
  Definition maintenance (c : cfg) (s : state) : res state :=
    dor s <- process_writes c (wb s) (set_wb [] s);
    let s := process_reads c (rb s) (set_rb [] s) in
    if poll c then trim (S (length (items (r_pin (lr s))))) s else Ok s.

  (** [TinyLFU::try_maintenance] after the message (if any) has been pushed *)
  Definition try_maint (c : cfg) (s : state) : res state :=
    if (len (wb s) <=? BATCH) && (len (rb s) <=? BATCH) then Ok s else maintenance c s.

  Definition rb_push (k : N) (s : state) : state :=
    if len (rb s) <? RSHARD then set_rb (rb s ++ [k]) s else s.

  (** the effect of an operation on storage and buffers, before maintenance *)
  Definition base (o : op) (s : state) : state * ret :=
    match o with
    | Get k => (rb_push k s, RVal (slookup k (st s)))
    | Peek k => (s, RVal (slookup k (st s)))
    | Insert k v =>
        match slookup k (st s) with
        | None => (set_wb (wb s ++ [WInsert k]) (set_st ((k, v) :: st s) s), RBool true)
        | Some _ => (s, RBool false)
        end
    | Modify k u =>
        match slookup k (st s) with
        | Some _ => (set_st (smodify k u (st s)) s, RBool true)
        | None => (s, RBool false)
        end
    | Remove k =>
        match slookup k (st s) with
        | Some v => (set_wb (wb s ++ [WRemoved k]) (set_st (sremove k (st s)) s), RVal (Some v))
        | None => (s, RVal None)
        end
    | Unpin k => (set_wb (wb s ++ [WUnpinned k]) s, RUnit)
    end.

  Definition step (c : cfg) (o : op) (s : state) : res (state * ret) :=
    let (s, r) := base o (set_ev [] s) in
    dor s <- try_maint c s; Ok (s, r).

  (** run from a state; the trace lists, per operation, what it returned and which keys
      the maintenance it triggered evicted *)
  Fixpoint run_from (c : cfg) (ops : list op) (s : state) : res (state * list (ret * list N)) :=
    match ops with
    | [] => Ok (s, [])
    | o :: r =>
        dor (s, x) <- step c o s;
        dor (s', tr) <- run_from c r s;
        Ok (s', (x, ev s) :: tr)
    end.
End Model.

Arguments Get {V U} k.
Arguments Peek {V U} k.
Arguments Insert {V U} k v.
Arguments Modify {V U} k u.
Arguments Remove {V U} k.
Arguments Unpin {V U} k.
Arguments RVal {V} o.
Arguments RBool {V} b.
Arguments RUnit {V}.
Arguments st {V SK} s.
Arguments wb {V SK} s.
Arguments rb {V SK} s.
Arguments lr {V SK} s.
Arguments sk {V SK} s.
Arguments ev {V SK} s.
Arguments init {V SK} sk0.
Arguments slookup {V} k m.
Arguments sremove {V} k m.

(* ------------------------------------------------------------------ exact sketch *)
(** sketch.rs: bloom filter ("doorkeeper") + 4-row count-min sketch of 4-bit counters,
    reset (halving) every [capacity] recorded accesses; keys are hashed with FxHash. *)
Definition M64 : N := 18446744073709551615.
Definition fx_hash (k : N) : N := N.land (k * 5871781006564002453) M64.   (* 0x517cc1b727220a95 *)
Definition rotl32 (h : N) : N := N.lor (N.land (N.shiftl h 32) M64) (N.shiftr h 32).
Definition next_pow2 (n : N) : N := 2 ^ N.log2_up n.

Record sketch := {
  bloom : PositiveMap.t unit;
  cms : PositiveMap.t N;
  adds : N;
  thr : N;       (* reset_threshold *)
  bmask : N;     (* BloomFilter::size_mask *)
  cmask : N      (* CountMinSketch::mask *)
}.

Definition sketch_new (capacity : N) : sketch :=
  {| bloom := PositiveMap.empty unit; cms := PositiveMap.empty N; adds := 0; thr := capacity;
     bmask := next_pow2 (N.max capacity 64) - 1;
     cmask := next_pow2 (N.max capacity 1) - 1 |}.

Definition cget (t : PositiveMap.t N) (i : N) : N :=
  match PositiveMap.find (N.succ_pos i) t with Some c => c | None => 0 end.

(** global counter indices of the four rows *)
Definition rows (mask hash : N) : list N :=
  let h2 := rotl32 hash in
  let h0 := hash in
  let h1 := N.land (h0 + h2) M64 in
  let h2' := N.land (h1 + h2) M64 in
  let h3 := N.land (h2' + h2) M64 in
  [N.land h0 mask; (mask + 1) + N.land h1 mask; 2 * (mask + 1) + N.land h2' mask; 3 * (mask + 1) + N.land h3 mask].

Definition cms_increment (mask : N) (t : PositiveMap.t N) (hash : N) : PositiveMap.t N :=
  fold_left (fun t i => let c := cget t i in if c <? 15 then PositiveMap.add (N.succ_pos i) (c + 1) t else t)
            (rows mask hash) t.

Definition cms_estimate (mask : N) (t : PositiveMap.t N) (hash : N) : N :=
  fold_left (fun m i => N.min m (cget t i)) (rows mask hash) 15.

Definition sketch_record_hash (s : sketch) (hash : N) : sketch :=
  let bit := N.succ_pos (N.land hash (bmask s)) in
  let (b, c) :=
    match PositiveMap.find bit (bloom s) with
    | Some _ => (bloom s, cms_increment (cmask s) (cms s) hash)
    | None => (PositiveMap.add bit tt (bloom s), cms s)
    end in
  let a := adds s + 1 in
  if thr s <=? a then
    {| bloom := PositiveMap.empty unit; cms := PositiveMap.map (fun x => x / 2) c; adds := 0;
       thr := thr s; bmask := bmask s; cmask := cmask s |}
  else {| bloom := b; cms := c; adds := a; thr := thr s; bmask := bmask s; cmask := cmask s |}.

Definition sketch_estimate_hash (s : sketch) (hash : N) : N :=
  let e := cms_estimate (cmask s) (cms s) hash in
  match PositiveMap.find (N.succ_pos (N.land hash (bmask s))) (bloom s) with
  | Some _ => e + 1
  | None => e
  end.

Definition sketch_record (s : sketch) (k : N) : sketch := sketch_record_hash s (fx_hash k).
Definition sketch_gt (s : sketch) (a b : N) : bool :=
  sketch_estimate_hash s (fx_hash b) <? sketch_estimate_hash s (fx_hash a).

(** [Policy::new] allocates [Sketch::new (capacity * 16)] *)
Definition policy_sketch (cap : N) : sketch := sketch_new (cap * 16).
