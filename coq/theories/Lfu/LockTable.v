(** The per-query lock table (query_lock_manager.rs) as an instance of the cache model:
    a value is (lock instance id, strong count of its Arc); the table itself holds one
    reference, so the lifecycle listener reports "pinned" iff the count exceeds 1, i.e.
    iff some task holds or waits for the lock. *)
From QV Require Import Common.Prelude Lfu.Model Lfu.LruInv Lfu.Inv Lfu.Theorems.
Open Scope N_scope.

Definition lock_val : Type := (N * N)%type.
Definition lock_pinned (_ : N) (v : lock_val) : bool := 1 <? snd v.

Section LockTable.
  Variables (U SK : Type).
  Variable apply : U -> lock_val -> lock_val.      (* clone / drop of a handle: count +1 / -1 *)
  Hypothesis apply_id : forall u v, fst (apply u v) = fst v.   (* never changes the instance *)
  Variable sk_record : SK -> N -> SK.
  Variable sk_gt : SK -> N -> N -> bool.
  Variable c : cfg.
  Hypothesis Hc : wf_cfg c.
  Variable sk0 : SK.

  Notation op := (op lock_val U).
  Notation step := (step lock_val U SK lock_pinned apply sk_record sk_gt).
  Notation run_from := (run_from lock_val U SK lock_pinned apply sk_record sk_gt).
  Notation reachable := (reachable lock_val U SK lock_pinned apply sk_record sk_gt c sk0).
  Notation spec_after := (spec_after lock_val U apply).
  Notation inv := (inv lock_val SK c).

  (** While somebody holds the lock of [k] (count > 1), a second task asking for it
      ([get], then [entry]) finds the very same instance: [get] returns it, an insert
      attempt finds the entry occupied, and whatever eviction work the request triggers
      leaves the entry in place. *)
  Theorem same_lock :
    forall s k id rc, reachable s -> slookup k (st s) = Some (id, rc) -> 1 < rc ->
      (forall s' r, step c (Get k) s = Ok (s', r) ->
                    r = RVal (Some (id, rc)) /\ slookup k (st s') = Some (id, rc)) /\
      (forall v s' r, step c (Insert k v) s = Ok (s', r) ->
                    r = RBool false /\ slookup k (st s') = Some (id, rc)).
  Proof.
    intros s k id rc Rs Hk Hrc.
    assert (lock_pinned k (id, rc) = true) as Hp by (unfold lock_pinned; cbn; now apply N.ltb_lt).
    split.
    - intros s' r E.
      destruct (readable_until_gone _ _ _ lock_pinned apply sk_record sk_gt c Hc sk0 s (Get k) s' r Rs E) as [R _].
      destruct (pinned_never_evicted _ _ _ lock_pinned apply sk_record sk_gt c Hc sk0 s (Get k) s' r Rs E) as [P _].
      split; [rewrite (R k (or_introl eq_refl)); now rewrite Hk|].
      apply (P k (id, rc)); [exact Hk|exact Hp].
    - intros v s' r E.
      destruct (pinned_never_evicted _ _ _ lock_pinned apply sk_record sk_gt c Hc sk0 s (Insert k v) s' r Rs E) as [P _].
      pose proof (reachable_inv _ _ _ lock_pinned apply sk_record sk_gt c Hc sk0 s Rs) as I.
      destruct (step_facts _ _ _ lock_pinned apply sk_record sk_gt c Hc (Insert k v) s s' r I E) as (_ & R & _).
      split.
      + rewrite R. cbn. now rewrite Hk.
      + apply (P k (id, rc)); [cbn; rewrite N.eqb_refl; now rewrite Hk|exact Hp].
  Qed.

  (** Over whole histories: as long as the lock of [k] has a holder at every operation
      boundary, its table entry evolves exactly as in a map without eviction — it is
      never evicted — and it is the same instance throughout. *)
  Fixpoint held (k : N) (ops : list op) (cur : option lock_val) : Prop :=
    match ops with
    | [] => True
    | o :: r =>
        let cur' := spec_after o k cur in
        (exists id rc, cur' = Some (id, rc) /\ 1 < rc) /\ held k r cur'
    end.

  Fixpoint spec_fold (k : N) (ops : list op) (cur : option lock_val) : option lock_val :=
    match ops with [] => cur | o :: r => spec_fold k r (spec_after o k cur) end.

  Theorem lock_never_evicted_while_held :
    forall ops s s' tr k, inv s -> run_from c ops s = Ok (s', tr) -> held k ops (slookup k (st s)) ->
      slookup k (st s') = spec_fold k ops (slookup k (st s)) /\ Forall (fun x => ~ In k (snd x)) tr.
  Proof.
    induction ops as [|o ops IH]; intros s s' tr k I E H; cbn [Model.run_from] in E.
    - injection E as <- <-. split; [reflexivity|constructor].
    - destruct (step c o s) as [[s1 r1]| |] eqn:E1; try discriminate.
      destruct (run_from c ops s1) as [[s2 tr2]| |] eqn:E2; try discriminate.
      injection E as <- <-. cbn [held spec_fold] in *. destruct H as [(id & rc & Hc' & Hrc) Hh].
      destruct (step_facts _ _ _ lock_pinned apply sk_record sk_gt c Hc o s s1 r1 I E1) as (I1 & _ & Pn & Ln).
      assert (~ In k (ev s1)) as Hn.
      { intro Hk. destruct (Pn k Hk) as (v & Hv & Hp). rewrite Hc' in Hv. injection Hv as <-.
        unfold lock_pinned in Hp. cbn in Hp. apply N.ltb_ge in Hp. lia. }
      assert (slookup k (st s1) = spec_after o k (slookup k (st s))) as L1.
      { rewrite Ln. apply mem_false in Hn. now rewrite Hn. }
      rewrite <- L1 in Hh. destruct (IH s1 s2 tr2 k I1 E2 Hh) as [A B].
      split; [now rewrite A, L1|]. constructor; [exact Hn|exact B].
  Qed.

  Theorem lock_same_instance :
    forall ops k id rc, held k ops (Some (id, rc)) -> exists rc', spec_fold k ops (Some (id, rc)) = Some (id, rc').
  Proof.
    induction ops as [|o ops IH]; intros k id rc H; cbn [held spec_fold] in *.
    - now exists rc.
    - destruct H as [(id' & rc' & Hc' & Hrc) Hh].
      assert (id' = id) as ->.
      { destruct o as [x|x|x v|x u|x|x]; cbn in Hc'; try (now injection Hc' as <- _).
        - destruct (x =? k); now injection Hc' as <- _.
        - destruct (x =? k); cbn in Hc'; [|now injection Hc' as <- _].
          injection Hc' as Hc'. pose proof (apply_id u (id, rc)) as F. rewrite Hc' in F. exact F.
        - destruct (x =? k); [discriminate|now injection Hc' as <- _]. }
      rewrite Hc' in *. now apply IH.
  Qed.
End LockTable.
