(** Correspondence checker for the TinyLFU model.  The harness (harness/src/bin/lfu.rs)
    drives the real cache single-threaded in Piggyback mode and logs, per operation, what
    the public API returned and which resident keys disappeared during that operation
    (found by probing through [entry]); at the end the full resident map.  [check] runs
    the model with the exact sketch on the same operations and compares everything. *)
From QV Require Import Common.Prelude Lfu.Model.
From Coq Require Import FMapPositive.
Open Scope N_scope.

(** value type of the harness: a payload and the flag its LifecycleListener reports *)
Definition cval : Type := (N * bool)%type.
Inductive cupd := SetVal (n : N) | SetPin (b : bool).
Definition cpinned (_ : N) (v : cval) : bool := snd v.
Definition capply (u : cupd) (v : cval) : cval :=
  match u with SetVal n => (n, snd v) | SetPin b => (fst v, b) end.

Definition cop := op cval cupd.
Definition cstate := state cval sketch.
Definition cstep (c : cfg) (o : cop) (s : cstate) := step cval cupd sketch cpinned capply sketch_record sketch_gt c o s.
Definition cinit (cap : N) : cstate := init (policy_sketch cap).

(** one logged operation: G get, K peek, I insert, M modify, R remove, P unpin;
    the observed result; the keys that were evicted during the operation (ascending) *)
Inductive lop :=
| G (k : N) (r : option cval) (e : list N)
| K (k : N) (r : option cval) (e : list N)
| I (k : N) (v : cval) (r : bool) (e : list N)
| M (k : N) (u : cupd) (r : bool) (e : list N)
| R (k : N) (r : option cval) (e : list N)
| P (k : N) (e : list N).

Inductive case :=
| Trace (cap : N) (poll_ as_code_ : bool) (ops : list lop) (final : list (N * cval))
    (* the whole run succeeded; [final] = resident map at the end, ascending keys *)
| Panics (cap : N) (poll_ as_code_ : bool) (ops : list lop) (last : lop)
    (* the real cache panicked inside [last] (after [ops] went through) *)
| Caps (cap w p m : N).
    (* Policy::new cap computed window, protected and max capacity (mirrored by the harness) *)

Definition cval_eqb (a b : cval) : bool := (fst a =? fst b) && Bool.eqb (snd a) (snd b).
Definition ocval_eqb (a b : option cval) : bool :=
  match a, b with Some x, Some y => cval_eqb x y | None, None => true | _, _ => false end.
Fixpoint nlist_eqb (a b : list N) : bool :=
  match a, b with
  | [], [] => true
  | x :: a, y :: b => (x =? y) && nlist_eqb a b
  | _, _ => false
  end.

Fixpoint insert_sorted (k : N) (l : list N) : list N :=
  match l with [] => [k] | x :: r => if k <=? x then k :: l else x :: insert_sorted k r end.
Definition sort (l : list N) : list N := fold_right insert_sorted [] l.

Fixpoint insert_kv (kv : N * cval) (l : list (N * cval)) : list (N * cval) :=
  match l with [] => [kv] | x :: r => if fst kv <=? fst x then kv :: l else x :: insert_kv kv r end.
Definition sort_kv (l : list (N * cval)) : list (N * cval) := fold_right insert_kv [] l.
Fixpoint kv_eqb (a b : list (N * cval)) : bool :=
  match a, b with
  | [], [] => true
  | (k, v) :: a, (k', v') :: b => (k =? k') && cval_eqb v v' && kv_eqb a b
  | _, _ => false
  end.

Definition lop_op (l : lop) : cop :=
  match l with
  | G k _ _ => Get k | K k _ _ => Peek k | I k v _ _ => Insert k v
  | M k u _ _ => Modify k u | R k _ _ => Remove k | P k _ => Unpin k
  end.
Definition lop_ev (l : lop) : list N :=
  match l with G _ _ e | K _ _ e | I _ _ _ e | M _ _ _ e | R _ _ e | P _ e => e end.
Definition lop_ret_ok (l : lop) (r : ret cval) : bool :=
  match l, r with
  | G _ x _, RVal y | K _ x _, RVal y | R _ x _, RVal y => ocval_eqb x y
  | I _ _ x _, RBool y | M _ _ x _, RBool y => Bool.eqb x y
  | P _ _, RUnit => true
  | _, _ => false
  end.

(** outcome of running the logged operations on the model:
    [inl s] all agreed, [inr (i, what)] first disagreement at index i
    (what: 1 result differs, 2 evicted set differs, 3 model panics, 4 model out of fuel) *)
Fixpoint follow (c : cfg) (i : N) (ops : list lop) (s : cstate) : cstate + (N * N) :=
  match ops with
  | [] => inl s
  | l :: r =>
      match cstep c (lop_op l) s with
      | Ok (s', x) =>
          if negb (lop_ret_ok l x) then inr (i, 1)
          else if negb (nlist_eqb (sort (ev s')) (lop_ev l)) then inr (i, 2)
          else follow c (i + 1) r s'
      | Panic _ => inr (i, 3)
      | Fuel => inr (i, 4)
      end
  end.

Definition check (c : case) : bool :=
  match c with
  | Trace cap p a ops final =>
      match follow (mk_cfg cap p a) 0 ops (cinit cap) with
      | inl s => kv_eqb (sort_kv (st s)) final
      | inr _ => false
      end
  | Panics cap p a ops last =>
      match follow (mk_cfg cap p a) 0 ops (cinit cap) with
      | inl s => match cstep (mk_cfg cap p a) (lop_op last) s with Panic _ => true | _ => false end
      | inr _ => false
      end
  | Caps cap w p m =>
      (window_capacity cap =? w) && (protected_capacity cap =? p) && (max_capacity cap =? m)
  end.

(** where a failing case first disagrees (for the replay file) *)
Definition diagnose (c : case) : option (N * N) :=
  match c with
  | Trace cap p a ops _ | Panics cap p a ops _ =>
      match follow (mk_cfg cap p a) 0 ops (cinit cap) with inl _ => None | inr x => Some x end
  | Caps _ _ _ _ => None
  end.

Fixpoint failures_from (i : N) (cs : list case) : list N :=
  match cs with
  | [] => []
  | c :: r => if check c then failures_from (i + 1) r else i :: failures_from (i + 1) r
  end.
Definition failures (cs : list case) : list N := failures_from 0 cs.
