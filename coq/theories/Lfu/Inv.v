(** Invariants of the TinyLFU model (Lfu/Model.v), for every frequency sketch, pin
    predicate, capacity, strategy and operation sequence. *)
From QV Require Import Common.Prelude Lfu.Model Lfu.LruInv.
Open Scope N_scope.

Section Inv.
  Variables (V U SK : Type).
  Variable pinned : N -> V -> bool.
  Variable apply : U -> V -> V.
  Variable sk_record : SK -> N -> SK.
  Variable sk_gt : SK -> N -> N -> bool.
  Variable c : cfg.
  Hypothesis Hc : wf_cfg c.

  Notation state := (state V SK).
  Notation op := (op V U).
  Notation ret := (ret V).
  Notation try_remove := (try_remove V SK pinned).
  Notation on_read_hit := (on_read_hit V SK sk_record).
  Notation on_write := (on_write V SK pinned sk_record sk_gt).
  Notation unpin := (unpin V SK pinned sk_gt).
  Notation trim := (trim V SK pinned).
  Notation process_write := (process_write V SK pinned sk_record sk_gt).
  Notation process_writes := (process_writes V SK pinned sk_record sk_gt).
  Notation process_reads := (process_reads V SK sk_record).
  Notation maintenance := (maintenance V SK pinned sk_record sk_gt).
  Notation try_maint := (try_maint V SK pinned sk_record sk_gt).
  Notation base := (base V U SK apply).
  Notation step := (step V U SK pinned apply sk_record sk_gt).
  Notation run_from := (run_from V U SK pinned apply sk_record sk_gt).
  Notation smodify := (smodify V U apply).

  (* ---------------------------------------------------------------- storage *)
  Implicit Types m : list (N * V).
  Implicit Types s : state.
  Definition keys (m : list (N * V)) : list N := map fst m.

  Lemma slookup_In k m v : slookup k m = Some v -> In k (keys m).
  Proof.
    induction m as [|[x w] m IH]; cbn; [discriminate|].
    destruct (N.eqb_spec x k); [intros _; now left|intro H; right; auto].
  Qed.

  Lemma slookup_None k m : slookup k m = None <-> ~ In k (keys m).
  Proof.
    induction m as [|[x w] m IH]; cbn; [tauto|].
    destruct (N.eqb_spec x k); [split; [discriminate|tauto]|]. rewrite IH. tauto.
  Qed.

  Lemma In_slookup k m : In k (keys m) -> exists v, slookup k m = Some v.
  Proof.
    intro H. destruct (slookup k m) as [v|] eqn:E; [now exists v|].
    apply slookup_None in E. contradiction.
  Qed.

  Lemma slookup_sremove x k m : slookup x (sremove k m) = if x =? k then None else slookup x m.
  Proof.
    induction m as [|[y w] m IH]; cbn; [now destruct (x =? k)|].
    destruct (N.eqb_spec y k) as [->|Hne].
    - rewrite IH. destruct (N.eqb_spec x k) as [->|Hx]; [reflexivity|].
      destruct (N.eqb_spec k x); [congruence|reflexivity].
    - cbn. destruct (N.eqb_spec y x) as [->|Hy]; [|exact IH].
      destruct (N.eqb_spec x k); [congruence|reflexivity].
  Qed.

  Lemma keys_sremove x k m : In x (keys (sremove k m)) <-> In x (keys m) /\ x <> k.
  Proof.
    induction m as [|[y w] m IH]; cbn; [tauto|].
    destruct (N.eqb_spec y k) as [->|Hne]; cbn; rewrite IH.
    - split; [tauto|]. intros [[E|H] Hx]; [congruence|tauto].
    - split; [intros [E|H]; [subst; tauto|tauto]|tauto].
  Qed.

  Lemma NoDup_sremove k m : NoDup (keys m) -> NoDup (keys (sremove k m)).
  Proof.
    induction m as [|[y w] m IH]; cbn; [constructor|].
    intro H. inversion H as [|? ? Hy Hnd]; subst.
    destruct (N.eqb_spec y k); [auto|]. cbn. constructor; [|auto].
    intro Hin. apply keys_sremove in Hin. tauto.
  Qed.

  Lemma length_sremove k m : (length (sremove k m) <= length m)%nat.
  Proof. induction m as [|[y w] m IH]; cbn; [lia|]. destruct (y =? k); cbn; lia. Qed.

  Lemma keys_smodify k u m : keys (smodify k u m) = keys m.
  Proof.
    unfold keys. induction m as [|[y w] m IH]; cbn; [reflexivity|].
    destruct (y =? k); cbn; [reflexivity|now f_equal].
  Qed.

  Lemma slookup_smodify x k u m :
    slookup x (smodify k u m) = if x =? k then option_map (apply u) (slookup k m) else slookup x m.
  Proof.
    induction m as [|[y w] m IH]; cbn; [now destruct (x =? k)|].
    destruct (N.eqb_spec y k) as [->|Hne]; cbn.
    - destruct (N.eqb_spec x k) as [->|Hx]; [now rewrite N.eqb_refl|].
      destruct (N.eqb_spec k x); [congruence|reflexivity].
    - destruct (N.eqb_spec y x) as [->|Hy].
      + destruct (N.eqb_spec x k); [congruence|reflexivity].
      + exact IH.
  Qed.

  (* ---------------------------------------------------------------- evictions *)
  (** [evolves s s']: from [s] to [s'] the storage only lost keys, exactly the ones
      appended to the eviction log, each holding at that moment a value that its owner
      did not report as pinned *)
  Definition evolves (s s' : state) : Prop :=
    exists new,
      ev s' = ev s ++ new /\
      (forall x, In x new -> exists v, slookup x (st s) = Some v /\ pinned x v = false) /\
      (forall x, slookup x (st s') = if mem x new then None else slookup x (st s)) /\
      (NoDup (keys (st s)) -> NoDup (keys (st s'))).

  Lemma evolves_refl s s' : st s' = st s -> ev s' = ev s -> evolves s s'.
  Proof.
    intros A B. exists []. rewrite A, B, app_nil_r. repeat split; auto. intros x [].
  Qed.

  Lemma mem_app x a b : mem x (a ++ b) = mem x a || mem x b.
  Proof. induction a as [|y a IH]; cbn; [reflexivity|]. rewrite IH. now rewrite orb_assoc. Qed.

  Lemma evolves_trans s1 s2 s3 : evolves s1 s2 -> evolves s2 s3 -> evolves s1 s3.
  Proof.
    intros (n1 & E1 & P1 & L1 & D1) (n2 & E2 & P2 & L2 & D2).
    exists (n1 ++ n2). split; [rewrite E2, E1; now rewrite app_assoc|]. split; [|split].
    - intros x Hin. apply in_app_or in Hin. destruct Hin as [H|H]; [auto|].
      destruct (P2 x H) as (v & Hv & Hp). rewrite L1 in Hv.
      destruct (mem x n1); [discriminate|]. now exists v.
    - intro x. rewrite L2, L1, mem_app. destruct (mem x n2), (mem x n1); reflexivity.
    - auto.
  Qed.

  Lemma evolves_keys s s' x : evolves s s' -> In x (keys (st s')) -> In x (keys (st s)).
  Proof.
    intros (n & _ & _ & L & _) H. apply In_slookup in H. destruct H as [v Hv].
    rewrite L in Hv. destruct (mem x n); [discriminate|]. eapply slookup_In; eauto.
  Qed.

  Lemma try_remove_spec k s ok s' :
    try_remove k s = (ok, s') ->
    lr s' = lr s /\ wb s' = wb s /\ rb s' = rb s /\ sk s' = sk s /\ evolves s s' /\
    (ok = true -> slookup k (st s') = None) /\
    (ok = false -> s' = s).
  Proof.
    unfold Model.try_remove. destruct (slookup k (st s)) as [v|] eqn:E.
    - destruct (pinned k v) eqn:P.
      + intros [= <- <-]. do 4 (split; [reflexivity|]). split; [now apply evolves_refl|].
        split; [discriminate|intros _; reflexivity].
      + intros [= <- <-]. cbn. do 4 (split; [reflexivity|]). split; [|split; [|discriminate]].
        * exists [k]. cbn. split; [reflexivity|]. split; [|split].
          -- intros x [<-|[]]. now exists v.
          -- intro x. rewrite slookup_sremove. rewrite orb_false_r, (N.eqb_sym k x). reflexivity.
          -- apply NoDup_sremove.
        * intros _. rewrite slookup_sremove. now rewrite N.eqb_refl.
    - intros [= <- <-]. do 4 (split; [reflexivity|]). split; [now apply evolves_refl|].
      split; [intros _; exact E|discriminate].
  Qed.

  (* ---------------------------------------------------------------- pending inserts *)
  Definition upd (m : wmsg) (k : N) (b : bool) : bool :=
    match m with
    | WInsert x => if x =? k then true else b
    | WRemoved x => if x =? k then false else b
    | WUnpinned _ => b
    end.

  (** will [k] be tracked by the policy once the buffered messages [ms] are processed,
      given whether it is tracked now *)
  Fixpoint pend (k : N) (ms : list wmsg) (b : bool) : bool :=
    match ms with [] => b | m :: r => pend k r (upd m k b) end.

  Lemma pend_mono k ms b : pend k ms b = true -> pend k ms true = true.
  Proof.
    revert b. induction ms as [|m ms IH]; cbn; [reflexivity|].
    intros b H. destruct m as [x|x|x]; cbn in *.
    - destruct (x =? k); eauto.
    - destruct (x =? k); eauto.
    - eauto.
  Qed.

  Lemma pend_app k ms (m : wmsg) b : pend k (ms ++ [m]) b = upd m k (pend k ms b).
  Proof. revert b. induction ms as [|m' ms IH]; cbn; [reflexivity|]. intro b. apply IH. Qed.

  Lemma pend_inserted k ms b : pend k ms b = true -> b = true \/ In (WInsert k) ms.
  Proof.
    revert b. induction ms as [|m ms IH]; cbn; [tauto|].
    intros b H. apply IH in H. destruct H as [H|H]; [|tauto].
    destruct m as [x|x|x]; cbn in H.
    - destruct (N.eqb_spec x k) as [->|]; [right; now left|tauto].
    - destruct (x =? k); [discriminate|tauto].
    - tauto.
  Qed.

  Definition memb (k : N) (l : lru) : bool :=
    match region_of k l with Some _ => true | None => false end.

  Lemma memb_inl k l : memb k l = true <-> inl k l.
  Proof.
    unfold memb. rewrite region_of_inl. destruct (region_of k l); split; congruence.
  Qed.

  (* ---------------------------------------------------------------- outcomes *)
  (** the only panic the code can run into is the unwrap of policy.rs:172, and only the
      unrepaired variant *)
  Definition good {A} (r : res A) (P : A -> Prop) : Prop :=
    (as_code c = true /\ r = Panic 172) \/ exists a, r = Ok a /\ P a.

  Lemma good_ok {A} (a : A) (P : A -> Prop) : P a -> good (Ok a) P.
  Proof. intro H. right. now exists a. Qed.

  Lemma good_bind {A B} (r : res A) (f : A -> res B) (P : A -> Prop) (Q : B -> Prop) :
    good r P -> (forall a, P a -> good (f a) Q) ->
    good (match r with Ok x => f x | Panic l => Panic l | Fuel => Fuel end) Q.
  Proof.
    intros [[A1 ->]|(a & -> & Pa)] H; [left; auto|auto].
  Qed.

  Lemma good_weaken {A} (r : res A) (P Q : A -> Prop) : good r P -> (forall a, P a -> Q a) -> good r Q.
  Proof. intros [H|(a & E & Pa)] W; [now left|right; exists a; auto]. Qed.

  (* ---------------------------------------------------------------- policy steps *)
  (** what every policy step guarantees: the LRU stays well formed and within its
      capacities, the storage only loses unpinned keys, the buffers are untouched, and a
      key that is still stored and was tracked (or is [extra]) is still tracked *)
  Definition pol_post (s : state) (extra : N -> Prop) (s' : state) : Prop :=
    wf (lr s') /\ caps_ok c (lr s') /\ evolves s s' /\ wb s' = wb s /\ rb s' = rb s /\
    (forall x, In x (keys (st s')) -> inl x (lr s) \/ extra x -> inl x (lr s')).

  Definition none (_ : N) : Prop := False.

  Lemma rlen_cnt l r : wf l -> cnt (getr r l) = N.of_nat (rlen r l).
  Proof. intro W. apply W. Qed.

  Lemma peek_some r l : (0 < rlen r l)%nat -> exists t, lru_peek r l = Some t.
  Proof.
    intro H. destruct (lru_peek r l) as [t|] eqn:E; [now exists t|].
    apply peek_None_rlen in E. lia.
  Qed.

  Lemma getr_pop_other r r' l : r' <> r -> getr r' (lru_pop r l) = getr r' l.
  Proof.
    intro H. unfold lru_pop. destruct (lru_peek r l); [|reflexivity].
    Transparent rem_tail. unfold rem_tail. Opaque rem_tail. now rewrite getr_setr_other.
  Qed.

  Lemma getr_move_other from to r' l : r' <> from -> r' <> to -> getr r' (lru_move_lr from to l) = getr r' l.
  Proof.
    intros A B. unfold lru_move_lr. destruct (lru_peek from l); [|reflexivity].
    Transparent rem_tail add_key. unfold rem_tail, add_key. Opaque rem_tail add_key.
    rewrite getr_setr_other by assumption. now rewrite getr_setr_other.
  Qed.

  Lemma peek_pop_other r r' l : r' <> r -> lru_peek r' (lru_pop r l) = lru_peek r' l.
  Proof. intro H. unfold lru_peek. now rewrite getr_pop_other. Qed.

  Lemma peek_move_other from to r' l : r' <> from -> r' <> to -> lru_peek r' (lru_move_lr from to l) = lru_peek r' l.
  Proof. intros A B. unfold lru_peek. now rewrite getr_move_other. Qed.

  Lemma on_read_hit_spec k s b s' :
    wf (lr s) -> caps_ok c (lr s) -> on_read_hit c k s = (b, s') ->
    wf (lr s') /\ caps_ok c (lr s') /\ st s' = st s /\ ev s' = ev s /\ wb s' = wb s /\ rb s' = rb s /\
    (forall x, inl x (lr s') <-> inl x (lr s)) /\
    (forall r, r <> Prob -> r <> Prot -> rlen r (lr s') = rlen r (lr s)) /\
    (b = true <-> inl k (lr s)).
  Proof.
    intros W C. unfold Model.on_read_hit. cbn.
    destruct (lru_hit k (pcap c) (lr s)) as [b0 l0] eqn:E. intros [= <- <-]. cbn.
    destruct (lru_hit_spec c k (lr s) b0 l0 W C E) as (A1 & A2 & A3 & A4 & A5).
    split; [exact A1|]. split; [exact A2|]. do 4 (split; [reflexivity|]).
    split; [exact A3|]. split; [exact A4|exact A5].
  Qed.

  (* ---- length bookkeeping for pop / move in one statement per operation *)
  Lemma peek_pos r l t : lru_peek r l = Some t -> (0 < rlen r l)%nat.
  Proof.
    intro H. apply peek_inr in H. unfold inr_, rlen in *. destruct (items (getr r l)); [destruct H|cbn; lia].
  Qed.

  Lemma pop_rlens r l t r' :
    wf l -> lru_peek r l = Some t ->
    rlen r' (lru_pop r l) = if region_eqb r' r then pred (rlen r' l) else rlen r' l.
  Proof.
    intros W P. destruct (region_eqb r' r) eqn:E.
    - apply region_eqb_true in E. subst r'. pose proof (pop_rlen_same r l t W P). lia.
    - apply region_eqb_false in E. now apply (pop_rlen_other r l t).
  Qed.

  Lemma move_rlens from to l t r' :
    wf l -> from <> to -> lru_peek from l = Some t ->
    rlen r' (lru_move_lr from to l) =
      if region_eqb r' from then pred (rlen r' l) else if region_eqb r' to then S (rlen r' l) else rlen r' l.
  Proof.
    intros W Hne P. destruct (region_eqb r' from) eqn:E.
    - apply region_eqb_true in E. subst r'. pose proof (move_lr_rlen_from from to l t W Hne P). lia.
    - apply region_eqb_false in E. destruct (region_eqb r' to) eqn:E2.
      + apply region_eqb_true in E2. subst r'. now apply (move_lr_rlen_to from to l t).
      + apply region_eqb_false in E2. now apply (move_lr_rlen_other from to l t).
  Qed.

  Lemma post_intro s s1 l' (extra : N -> Prop) :
    evolves s s1 -> wb s1 = wb s -> rb s1 = rb s -> wf l' -> caps_ok c l' ->
    (forall x, In x (keys (st s1)) -> inl x (lr s) \/ extra x -> inl x l') ->
    pol_post s extra (set_lr V SK l' s1).
  Proof. intros. unfold pol_post. cbn. tauto. Qed.

  Lemma not_stored k s : slookup k (st s) = None -> forall x, In x (keys (st s)) -> x <> k.
  Proof. intros H x Hx ->. apply slookup_None in H. contradiction. Qed.

  (** [Policy::on_write] never fails *)
  Lemma on_write_spec k s :
    wf (lr s) -> caps_ok c (lr s) ->
    exists s', on_write c k s = Ok s' /\ pol_post s (eq k) s'.
  Proof.
    intros W C. unfold Model.on_write.
    destruct (on_read_hit c k s) as [b s0] eqn:E0.
    destruct (on_read_hit_spec k s b s0 W C E0) as (W0 & C0 & S0 & V0 & B0 & R0 & I0 & L0 & H0).
    assert (evolves s s0) as EV0 by now apply evolves_refl.
    destruct b.
    { exists s0. split; [reflexivity|].
      unfold pol_post. split; [exact W0|]. split; [exact C0|]. split; [exact EV0|]. split; [exact B0|]. split; [exact R0|].
      intros x _ [Hx| <-]; apply I0; [assumption|now apply H0]. }
    assert (~ inl k (lr s0)) as F0. { rewrite I0. intro H. apply H0 in H. discriminate. }
    unfold lru_new_entry. cbv zeta. set (l1 := add_key k Win (lr s0)).
    assert (wf l1) as W1 by now apply add_key_wf.
    assert (forall x, inl x l1 <-> inl x (lr s0) \/ x = k) as I1 by (intro x; now apply add_key_inl).
    assert (rlen Win l1 = S (rlen Win (lr s0))) as LW1 by now apply add_key_rlen_same.
    assert (forall r, r <> Win -> rlen r l1 = rlen r (lr s0)) as LO1 by (intros r Hr; now apply add_key_rlen_other).
    pose proof (LO1 Prob ltac:(discriminate)) as LP1. pose proof (LO1 Prot ltac:(discriminate)) as LT1.
    change (r_win l1) with (getr Win l1). change (r_prob l1) with (getr Prob l1). change (r_prot l1) with (getr Prot l1).
    rewrite !(rlen_cnt l1 _ W1).
    destruct C0 as [CW CP CM].
    assert (forall s1 x, evolves s s1 -> In x (keys (st s1)) -> inl x (lr s) \/ k = x -> inl x l1) as Keep.
    { intros s1 x _ _ [Hx| <-]; apply I1; [left; now apply I0|now right]. }
    destruct (N.leb_spec (N.of_nat (rlen Win l1)) (wcap c)) as [Hle|Hgt].
    { exists (set_lr V SK l1 s0). split; [reflexivity|]. apply post_intro; auto.
      - split; lia.
      - intros x Hx Hy. now apply (Keep s0). }
    destruct (peek_some Win l1) as [cand Pc]; [lia|].
    destruct (N.ltb_spec (N.of_nat (rlen Prob l1) + N.of_nat (rlen Prot l1)) (maxcap c - wcap c)) as [Hroom|Hfull].
    { exists (set_lr V SK (lru_move_lr Win Prob l1) s0). split; [reflexivity|].
      assert (Win <> Prob) as NE by discriminate.
      pose proof (move_rlens Win Prob l1 cand Win W1 NE Pc) as X1.
      pose proof (move_rlens Win Prob l1 cand Prob W1 NE Pc) as X2.
      pose proof (move_rlens Win Prob l1 cand Prot W1 NE Pc) as X3. cbn in X1, X2, X3.
      apply post_intro; auto.
      - now apply (move_lr_wf Win Prob l1 cand).
      - split; lia.
      - intros x Hx Hy. apply (move_lr_inl Win Prob l1 cand); auto. now apply (Keep s0). }
    rewrite Pc.
    destruct (peek_some Prob l1) as [vict Pv]. { destruct Hc as [_ Hp]. lia. }
    rewrite Pv.
    destruct (sk_gt (sk s0) cand vict).
    - destruct (try_remove vict s0) as [ok s1] eqn:T.
      destruct (try_remove_spec _ _ _ _ T) as (TL & TW & TR & TS & TE & TOk & TNo).
      assert (evolves s s1) as EV1 by (eapply evolves_trans; eauto).
      assert (Win <> Prob) as NE by discriminate.
      destruct ok.
      + set (l2 := lru_pop Prob l1).
        assert (wf l2) as W2 by now apply (pop_wf Prob l1 vict).
        assert (lru_peek Win l2 = Some cand) as Pc2 by (unfold l2; rewrite peek_pop_other by discriminate; exact Pc).
        pose proof (pop_rlens Prob l1 vict Win W1 Pv) as Y1.
        pose proof (pop_rlens Prob l1 vict Prob W1 Pv) as Y2.
        pose proof (pop_rlens Prob l1 vict Prot W1 Pv) as Y3. cbn in Y1, Y2, Y3. fold l2 in Y1, Y2, Y3.
        pose proof (peek_pos _ _ _ Pv) as Y4.
        pose proof (move_rlens Win Prob l2 cand Win W2 NE Pc2) as X1.
        pose proof (move_rlens Win Prob l2 cand Prob W2 NE Pc2) as X2.
        pose proof (move_rlens Win Prob l2 cand Prot W2 NE Pc2) as X3. cbn in X1, X2, X3.
        exists (set_lr V SK (lru_move_lr Win Prob l2) s1). split; [reflexivity|].
        apply post_intro; auto; try congruence.
        * now apply (move_lr_wf Win Prob l2 cand).
        * split; lia.
        * intros x Hx Hy. apply (move_lr_inl Win Prob l2 cand); auto.
          apply (pop_inl Prob l1 vict); auto. split; [now apply (Keep s1)|].
          now apply (not_stored vict s1 (TOk eq_refl)).
      + set (l2 := lru_move_lr Prob Pin l1).
        assert (Prob <> Pin) as NE2 by discriminate.
        assert (wf l2) as W2 by now apply (move_lr_wf Prob Pin l1 vict).
        assert (lru_peek Win l2 = Some cand) as Pc2 by (unfold l2; rewrite peek_move_other by discriminate; exact Pc).
        pose proof (move_rlens Prob Pin l1 vict Win W1 NE2 Pv) as Y1.
        pose proof (move_rlens Prob Pin l1 vict Prob W1 NE2 Pv) as Y2.
        pose proof (move_rlens Prob Pin l1 vict Prot W1 NE2 Pv) as Y3. cbn in Y1, Y2, Y3. fold l2 in Y1, Y2, Y3.
        pose proof (peek_pos _ _ _ Pv) as Y4.
        pose proof (move_rlens Win Prob l2 cand Win W2 NE Pc2) as X1.
        pose proof (move_rlens Win Prob l2 cand Prob W2 NE Pc2) as X2.
        pose proof (move_rlens Win Prob l2 cand Prot W2 NE Pc2) as X3. cbn in X1, X2, X3.
        exists (set_lr V SK (lru_move_lr Win Prob l2) s1). split; [reflexivity|].
        apply post_intro; auto; try congruence.
        * now apply (move_lr_wf Win Prob l2 cand).
        * split; lia.
        * intros x Hx Hy. apply (move_lr_inl Win Prob l2 cand); auto.
          apply (move_lr_inl Prob Pin l1 vict); auto. now apply (Keep s1).
    - destruct (try_remove cand s0) as [ok s1] eqn:T.
      destruct (try_remove_spec _ _ _ _ T) as (TL & TW & TR & TS & TE & TOk & TNo).
      assert (evolves s s1) as EV1 by (eapply evolves_trans; eauto).
      destruct ok.
      + pose proof (pop_rlens Win l1 cand Win W1 Pc) as Y1.
        pose proof (pop_rlens Win l1 cand Prob W1 Pc) as Y2.
        pose proof (pop_rlens Win l1 cand Prot W1 Pc) as Y3. cbn in Y1, Y2, Y3.
        exists (set_lr V SK (lru_pop Win l1) s1). split; [reflexivity|].
        apply post_intro; auto; try congruence.
        * now apply (pop_wf Win l1 cand).
        * split; lia.
        * intros x Hx Hy. apply (pop_inl Win l1 cand); auto. split; [now apply (Keep s1)|].
          now apply (not_stored cand s1 (TOk eq_refl)).
      + assert (Win <> Pin) as NE2 by discriminate.
        pose proof (move_rlens Win Pin l1 cand Win W1 NE2 Pc) as Y1.
        pose proof (move_rlens Win Pin l1 cand Prob W1 NE2 Pc) as Y2.
        pose proof (move_rlens Win Pin l1 cand Prot W1 NE2 Pc) as Y3. cbn in Y1, Y2, Y3.
        exists (set_lr V SK (lru_move_lr Win Pin l1) s1). split; [reflexivity|].
        apply post_intro; auto; try congruence.
        * now apply (move_lr_wf Win Pin l1 cand).
        * split; lia.
        * intros x Hx Hy. apply (move_lr_inl Win Pin l1 cand); auto. now apply (Keep s1).
  Qed.

  Lemma move_key_rlens k r to l r' :
    wf l -> inr_ k r l -> r <> to ->
    rlen r' (add_key k to (rem_key k r l)) =
      if region_eqb r' r then pred (rlen r' l) else if region_eqb r' to then S (rlen r' l) else rlen r' l.
  Proof.
    intros W Hin Hne. destruct (region_eqb r' r) eqn:E.
    - apply region_eqb_true in E. subst r'. pose proof (move_key_rlen_from k r to l Hin Hne). lia.
    - apply region_eqb_false in E. destruct (region_eqb r' to) eqn:E2.
      + apply region_eqb_true in E2. subst r'. now apply move_key_rlen_to.
      + apply region_eqb_false in E2. now apply move_key_rlen_other.
  Qed.

  Lemma post_refl s : wf (lr s) -> caps_ok c (lr s) -> pol_post s none s.
  Proof.
    intros W C. unfold pol_post. split; [exact W|]. split; [exact C|]. split; [now apply evolves_refl|].
    split; [reflexivity|]. split; [reflexivity|]. intros x _ [H|[]]. exact H.
  Qed.

  Lemma post_trans s s1 s2 (extra : N -> Prop) :
    pol_post s extra s1 -> pol_post s1 none s2 -> pol_post s extra s2.
  Proof.
    intros (W1 & C1 & E1 & B1 & R1 & I1) (W2 & C2 & E2 & B2 & R2 & I2).
    unfold pol_post. split; [exact W2|]. split; [exact C2|]. split; [eapply evolves_trans; eauto|].
    split; [congruence|]. split; [congruence|].
    intros x Hx Hy. apply I2; [assumption|]. left. apply I1; [|assumption]. eapply evolves_keys; eauto.
  Qed.

  (** [Policy::unpin]: fails only by the unwrap of an empty probation region, and only as in the code *)
  Lemma unpin_spec k s :
    wf (lr s) -> caps_ok c (lr s) -> good (unpin c k s) (pol_post s none).
  Proof.
    intros W C. unfold Model.unpin.
    destruct (region_of k (lr s)) as [r|] eqn:E; [|apply good_ok; now apply post_refl].
    destruct r; try (apply good_ok; now apply post_refl).
    pose proof (region_of_Some _ _ _ E) as Hin.
    assert (Pin <> Prob) as NE by discriminate.
    destruct C as [CW CP CM].
    destruct (lru_peek Prob (lr s)) as [vict|] eqn:Pv.
    - assert (k <> vict) as Hkv.
      { intros ->. apply peek_inr in Pv. pose proof (wf_disj _ W _ _ _ Hin Pv). discriminate. }
      pose proof (peek_pos _ _ _ Pv) as Ppos.
      destruct (sk_gt (sk s) k vict).
      + destruct (try_remove vict s) as [ok s1] eqn:T.
        destruct (try_remove_spec _ _ _ _ T) as (TL & TW & TR & TS & TE & TOk & TNo).
        destruct ok.
        * set (l2 := lru_pop Prob (lr s)).
          assert (wf l2) as W2 by now apply (pop_wf Prob (lr s) vict).
          assert (inr_ k Pin l2) as Hin2 by (apply (pop_inr Prob (lr s) vict); auto).
          rewrite (move_key_eq k Pin Prob l2 W2 Hin2 NE).
          pose proof (pop_rlens Prob (lr s) vict Win W Pv) as Y1.
          pose proof (pop_rlens Prob (lr s) vict Prob W Pv) as Y2.
          pose proof (pop_rlens Prob (lr s) vict Prot W Pv) as Y3. cbn in Y1, Y2, Y3. fold l2 in Y1, Y2, Y3.
          pose proof (move_key_rlens k Pin Prob l2 Win W2 Hin2 NE) as X1.
          pose proof (move_key_rlens k Pin Prob l2 Prob W2 Hin2 NE) as X2.
          pose proof (move_key_rlens k Pin Prob l2 Prot W2 Hin2 NE) as X3. cbn in X1, X2, X3.
          apply good_ok. apply post_intro; auto.
          -- now apply move_key_wf.
          -- split; lia.
          -- intros x Hx [Hy|[]]. apply (move_key_inl k Pin Prob l2); auto.
             apply (pop_inl Prob (lr s) vict); auto. split; [assumption|].
             now apply (not_stored vict s1 (TOk eq_refl)).
        * set (l2 := lru_move_lr Prob Pin (lr s)).
          assert (Prob <> Pin) as NE2 by discriminate.
          assert (wf l2) as W2 by now apply (move_lr_wf Prob Pin (lr s) vict).
          assert (inr_ k Pin l2) as Hin2 by (apply (move_lr_inr Prob Pin (lr s) vict); auto).
          rewrite (move_key_eq k Pin Prob l2 W2 Hin2 NE).
          pose proof (move_rlens Prob Pin (lr s) vict Win W NE2 Pv) as Y1.
          pose proof (move_rlens Prob Pin (lr s) vict Prob W NE2 Pv) as Y2.
          pose proof (move_rlens Prob Pin (lr s) vict Prot W NE2 Pv) as Y3. cbn in Y1, Y2, Y3. fold l2 in Y1, Y2, Y3.
          pose proof (move_key_rlens k Pin Prob l2 Win W2 Hin2 NE) as X1.
          pose proof (move_key_rlens k Pin Prob l2 Prob W2 Hin2 NE) as X2.
          pose proof (move_key_rlens k Pin Prob l2 Prot W2 Hin2 NE) as X3. cbn in X1, X2, X3.
          apply good_ok. apply post_intro; auto.
          -- now apply move_key_wf.
          -- split; lia.
          -- intros x Hx [Hy|[]]. apply (move_key_inl k Pin Prob l2); auto.
             apply (move_lr_inl Prob Pin (lr s) vict); auto.
      + destruct (try_remove k s) as [ok s1] eqn:T.
        destruct (try_remove_spec _ _ _ _ T) as (TL & TW & TR & TS & TE & TOk & TNo).
        destruct ok.
        * apply good_ok. apply post_intro; auto.
          -- now apply lru_remove_wf.
          -- apply lru_remove_caps; [assumption|now split].
          -- intros x Hx [Hy|[]]. apply lru_remove_inl; auto. split; [assumption|].
             now apply (not_stored k s1 (TOk eq_refl)).
        * rewrite (TNo eq_refl). apply good_ok. apply post_refl; [assumption|now split].
    - destruct (as_code c) eqn:A; [left; split; [exact A|reflexivity]|].
      rewrite (move_key_eq k Pin Prob (lr s) W Hin NE).
      pose proof (peek_None_rlen _ _ Pv) as Z.
      pose proof (move_key_rlens k Pin Prob (lr s) Win W Hin NE) as X1.
      pose proof (move_key_rlens k Pin Prob (lr s) Prob W Hin NE) as X2.
      pose proof (move_key_rlens k Pin Prob (lr s) Prot W Hin NE) as X3. cbn in X1, X2, X3.
      apply good_ok. apply post_intro; auto.
      + now apply evolves_refl.
      + now apply move_key_wf.
      + destruct Hc as [_ Hp]. split; lia.
      + intros x Hx [Hy|[]]. now apply (move_key_inl k Pin Prob (lr s)).
  Qed.

  (** [attempt_to_trim_overflowing_pinned] terminates without failure *)
  Lemma trim_spec fuel : forall s,
    wf (lr s) -> caps_ok c (lr s) -> (rlen Pin (lr s) < fuel)%nat ->
    exists s', trim fuel s = Ok s' /\ pol_post s none s'.
  Proof.
    induction fuel as [|f IH]; intros s W C Hf; [lia|].
    cbn [Model.trim]. change (r_pin (lr s)) with (getr Pin (lr s)). rewrite (rlen_cnt _ _ W).
    destruct (N.eqb_spec (N.of_nat (rlen Pin (lr s))) 0) as [Hz|Hnz].
    { exists s. split; [reflexivity|now apply post_refl]. }
    destruct (peek_some Pin (lr s)) as [k Pk]; [lia|]. rewrite Pk.
    destruct (try_remove k s) as [ok s1] eqn:T.
    destruct (try_remove_spec _ _ _ _ T) as (TL & TW & TR & TS & TE & TOk & TNo).
    destruct C as [CW CP CM].
    destruct ok.
    - rewrite TL.
      pose proof (pop_rlens Pin (lr s) k Win W Pk) as Y1.
      pose proof (pop_rlens Pin (lr s) k Prob W Pk) as Y2.
      pose proof (pop_rlens Pin (lr s) k Prot W Pk) as Y3.
      pose proof (pop_rlens Pin (lr s) k Pin W Pk) as Y4. cbn in Y1, Y2, Y3, Y4.
      set (s2 := set_lr V SK (lru_pop Pin (lr s)) s1).
      assert (pol_post s none s2) as P2.
      { apply post_intro; auto.
        - now apply (pop_wf Pin (lr s) k).
        - split; lia.
        - intros x Hx [Hy|[]]. apply (pop_inl Pin (lr s) k); auto. split; [assumption|].
          now apply (not_stored k s1 (TOk eq_refl)). }
      destruct (IH s2) as (s' & E' & P').
      + apply P2.
      + apply P2.
      + cbn. lia.
      + exists s'. split; [exact E'|]. eapply post_trans; eauto.
    - exists (set_lr V SK (lru_shuffle Pin (lr s1)) s1). split; [reflexivity|].
      rewrite TL. apply post_intro; auto.
      + now apply lru_shuffle_wf.
      + split; rewrite !lru_shuffle_rlen by assumption; assumption.
      + intros x Hx [Hy|[]]. now apply lru_shuffle_inl.
  Qed.

  (* ---------------------------------------------------------------- the processing loop *)
  Definition pinv (ms : list wmsg) (s : state) : Prop :=
    wf (lr s) /\ caps_ok c (lr s) /\ NoDup (keys (st s)) /\
    forall k, In k (keys (st s)) -> pend k ms (memb k (lr s)) = true.

  Lemma pend_step x ms b b' : pend x ms b = true -> (b = true -> b' = true) -> pend x ms b' = true.
  Proof.
    intros H I. destruct b, b'; auto.
    - specialize (I eq_refl). discriminate.
    - eapply pend_mono; eauto.
  Qed.

  Definition loop_post (s s' : state) : Prop := evolves s s' /\ wb s' = wb s /\ rb s' = rb s.

  Lemma pinv_of_post (m : wmsg) ms s s' (extra : N -> Prop) :
    pinv (m :: ms) s -> pol_post s extra s' ->
    (forall x, In x (keys (st s')) -> upd m x (memb x (lr s)) = true -> memb x (lr s) = true \/ extra x) ->
    pinv ms s'.
  Proof.
    intros (W & C & D & P) (W' & C' & E' & B' & R' & I') Hx.
    split; [exact W'|]. split; [exact C'|]. split; [destruct E' as (n & _ & _ & _ & DD); auto|].
    intros x Hin. pose proof (evolves_keys _ _ _ E' Hin) as Hin0. specialize (P x Hin0). cbn [pend] in P.
    eapply pend_step; [exact P|]. intro U1. apply memb_inl. apply I'; [assumption|].
    destruct (Hx x Hin U1) as [H|H]; [left; now apply memb_inl|now right].
  Qed.

  Lemma process_write_spec (m : wmsg) ms s :
    pinv (m :: ms) s -> good (process_write c m s) (fun s' => pinv ms s' /\ loop_post s s').
  Proof.
    intro PI. pose proof PI as (W & C & D & P). destruct m as [k|k|k]; cbn [Model.process_write].
    - destruct (on_write_spec k s W C) as (s' & E & Post). rewrite E. apply good_ok. split.
      + eapply pinv_of_post; [exact PI|exact Post|]. intros x _. cbn. destruct (N.eqb_spec k x); [now right|now left].
      + destruct Post as (_ & _ & E' & B' & R' & _). now split.
    - apply good_ok. split; [|split; [now apply evolves_refl|now split]].
      split; [now apply lru_remove_wf|]. split; [now apply lru_remove_caps|]. split; [exact D|].
      intros x Hx. cbn in Hx |- *. specialize (P x Hx). cbn [pend upd] in P.
      eapply pend_step; [exact P|]. destruct (N.eqb_spec k x) as [->|Hne]; [discriminate|].
      intro Hm. apply memb_inl. apply lru_remove_inl; [assumption|]. split; [now apply memb_inl|congruence].
    - eapply good_weaken; [now apply unpin_spec|]. intros s' Post. split.
      + eapply pinv_of_post; [exact PI|exact Post|]. intros x _. cbn. now left.
      + destruct Post as (_ & _ & E' & B' & R' & _). now split.
  Qed.

  Lemma loop_post_trans s1 s2 s3 : loop_post s1 s2 -> loop_post s2 s3 -> loop_post s1 s3.
  Proof.
    intros (E1 & B1 & R1) (E2 & B2 & R2). split; [eapply evolves_trans; eauto|]. split; congruence.
  Qed.

  Lemma process_writes_spec ms : forall s,
    pinv ms s -> good (process_writes c ms s) (fun s' => pinv [] s' /\ loop_post s s').
  Proof.
    induction ms as [|m ms IH]; intros s PI; cbn [Model.process_writes].
    - apply good_ok. split; [exact PI|]. split; [apply evolves_refl; reflexivity|split; reflexivity].
    - eapply good_bind; [apply (process_write_spec m ms s PI)|].
      intros s1 [PI1 L1]. eapply good_weaken; [apply (IH s1 PI1)|].
      intros s2 [PI2 L2]. split; [exact PI2|]. eapply loop_post_trans; eauto.
  Qed.

  Lemma process_reads_spec ks : forall s,
    wf (lr s) -> caps_ok c (lr s) ->
    let s' := process_reads c ks s in
    wf (lr s') /\ caps_ok c (lr s') /\ st s' = st s /\ ev s' = ev s /\ wb s' = wb s /\ rb s' = rb s /\
    (forall x, inl x (lr s') <-> inl x (lr s)) /\ rlen Pin (lr s') = rlen Pin (lr s).
  Proof.
    induction ks as [|k ks IH]; intros s W C; cbn [Model.process_reads].
    - split; [exact W|]. split; [exact C|]. do 4 (split; [reflexivity|]). split; [tauto|reflexivity].
    - destruct (on_read_hit c k s) as [b s0] eqn:E0. cbn [snd].
      destruct (on_read_hit_spec k s b s0 W C E0) as (W0 & C0 & S0 & V0 & B0 & R0 & I0 & L0 & H0).
      destruct (IH s0 W0 C0) as (W1 & C1 & S1 & V1 & B1 & R1 & I1 & L1).
      split; [exact W1|]. split; [exact C1|]. split; [congruence|]. split; [congruence|].
      split; [congruence|]. split; [congruence|]. split.
      + intro x. rewrite I1. apply I0.
      + rewrite L1. apply L0; discriminate.
  Qed.

  Lemma evolves_eq_l s0 s s' : st s = st s0 -> ev s = ev s0 -> evolves s0 s' -> evolves s s'.
  Proof. intros A B (n & E & P & L & D). exists n. rewrite A, B. auto. Qed.

  Lemma pinv_nil s : pinv [] s <->
    wf (lr s) /\ caps_ok c (lr s) /\ NoDup (keys (st s)) /\ forall k, In k (keys (st s)) -> inl k (lr s).
  Proof.
    unfold pinv. cbn [pend]. split; intros (W & C & D & P); repeat (split; [assumption|]);
      intros k Hk; apply memb_inl; auto.
  Qed.

  (** [process_policy_message] *)
  Lemma maintenance_spec s :
    pinv (wb s) s ->
    good (maintenance c s) (fun s' => pinv [] s' /\ evolves s s' /\ wb s' = [] /\ rb s' = []).
  Proof.
    intro PI. unfold Model.maintenance.
    eapply good_bind.
    { apply (process_writes_spec (wb s) (set_wb V SK [] s)). exact PI. }
    intros s1 [PI1 (E1 & B1 & R1)]. cbn in B1, R1.
    apply pinv_nil in PI1. destruct PI1 as (W1 & C1 & D1 & P1).
    pose proof (process_reads_spec (rb s1) (set_rb V SK [] s1) W1 C1) as X. cbv zeta in X.
    set (s2 := process_reads c (rb s1) (set_rb V SK [] s1)) in *.
    destruct X as (W2 & C2 & S2 & V2 & B2 & R2 & I2 & L2). cbn in S2, V2, B2, R2.
    assert (evolves s s2) as E2.
    { eapply evolves_trans; [eapply (evolves_eq_l (set_wb V SK [] s)); [reflexivity|reflexivity|exact E1]|].
      now apply evolves_refl. }
    assert (pinv [] s2) as PI2.
    { apply pinv_nil. split; [exact W2|]. split; [exact C2|]. rewrite S2. split; [exact D1|].
      intros k Hk. apply I2. cbn. auto. }
    destruct (poll c).
    - destruct (trim_spec (S (length (items (r_pin (lr s2))))) s2 W2 C2) as (s3 & E3 & P3).
      { unfold rlen. cbn. lia. }
      rewrite E3. apply good_ok. destruct P3 as (W3 & C3 & EV3 & B3 & R3 & I3).
      split; [|split; [eapply evolves_trans; eauto|split; congruence]].
      apply pinv_nil. split; [exact W3|]. split; [exact C3|].
      split; [destruct EV3 as (n & _ & _ & _ & DD); apply DD; apply PI2|].
      intros k Hk. apply I3; [assumption|]. left. apply pinv_nil in PI2. apply PI2.
      eapply evolves_keys; eauto.
    - apply good_ok. split; [exact PI2|]. split; [exact E2|]. split; congruence.
  Qed.

  (* ---------------------------------------------------------------- operations *)
  Definition inv (s : state) : Prop :=
    pinv (wb s) s /\ len (wb s) <= BATCH /\ len (rb s) <= RSHARD.

  Lemma len_app1 {A} (l : list A) (x : A) : len (l ++ [x]) = len l + 1.
  Proof. unfold len. rewrite app_length. cbn. lia. Qed.

  Lemma base_spec o s :
    inv s ->
    let s0 := fst (base o (set_ev V SK [] s)) in
    pinv (wb s0) s0 /\ len (wb s0) <= BATCH + 1 /\ len (rb s0) <= RSHARD /\ ev s0 = [] /\ lr s0 = lr s.
  Proof.
    intros (PI & LW & LR). pose proof PI as (W & C & D & P). cbv zeta.
    assert (len (wb s) <= BATCH + 1) as LW' by lia.
    destruct o as [k|k|k v|k u|k|k]; cbn [Model.base].
    - unfold rb_push. cbn. destruct (N.ltb_spec (len (rb s)) RSHARD) as [Hlt|Hge]; cbn.
      + split; [exact PI|]. split; [exact LW'|]. split; [rewrite len_app1; lia|]. split; reflexivity.
      + split; [exact PI|]. split; [exact LW'|]. split; [exact LR|]. split; reflexivity.
    - cbn. split; [exact PI|]. split; [exact LW'|]. split; [exact LR|]. split; reflexivity.
    - cbn. destruct (slookup k (st s)) eqn:E; cbn.
      + split; [exact PI|]. split; [exact LW'|]. split; [exact LR|]. split; reflexivity.
      + split; [|split; [rewrite len_app1; lia|split; [exact LR|split; reflexivity]]].
        split; [exact W|]. split; [exact C|]. split.
        * unfold keys. cbn. constructor; [now apply slookup_None|exact D].
        * intros x Hx. unfold keys in Hx. cbn in Hx. rewrite pend_app. cbn. destruct (N.eqb_spec k x) as [->|Hne]; [reflexivity|].
          destruct Hx as [Hx|Hx]; [congruence|]. now apply P.
    - cbn. destruct (slookup k (st s)) eqn:E; cbn.
      + split; [|split; [exact LW'|split; [exact LR|split; reflexivity]]].
        split; [exact W|]. split; [exact C|].
        change (NoDup (keys (smodify k u (st s))) /\
                (forall k0, In k0 (keys (smodify k u (st s))) -> pend k0 (wb s) (memb k0 (lr s)) = true)).
        rewrite keys_smodify. split; [exact D|exact P].
      + split; [exact PI|]. split; [exact LW'|]. split; [exact LR|]. split; reflexivity.
    - cbn. destruct (slookup k (st s)) eqn:E; cbn.
      + split; [|split; [rewrite len_app1; lia|split; [exact LR|split; reflexivity]]].
        split; [exact W|]. split; [exact C|].
        change (NoDup (keys (sremove k (st s))) /\
                (forall k0, In k0 (keys (sremove k (st s))) ->
                            pend k0 (wb s ++ [WRemoved k]) (memb k0 (lr s)) = true)).
        split; [now apply NoDup_sremove|].
        intros x Hx. apply keys_sremove in Hx. destruct Hx as [Hx Hne]. rewrite pend_app. cbn.
        destruct (N.eqb_spec k x); [congruence|]. now apply P.
      + split; [exact PI|]. split; [exact LW'|]. split; [exact LR|]. split; reflexivity.
    - cbn. split; [|split; [rewrite len_app1; lia|split; [exact LR|split; reflexivity]]].
      split; [exact W|]. split; [exact C|]. split; [exact D|].
      intros x Hx. rewrite pend_app. cbn. now apply P.
  Qed.

  Lemma try_maint_spec s0 :
    pinv (wb s0) s0 -> len (rb s0) <= RSHARD ->
    good (try_maint c s0) (fun s' => inv s' /\ evolves s0 s').
  Proof.
    intros PI LR. unfold Model.try_maint.
    destruct (N.leb_spec (len (wb s0)) BATCH) as [Hw|Hw]; cbn [andb].
    - destruct (N.leb_spec (len (rb s0)) BATCH) as [Hr|Hr].
      + apply good_ok. split; [now split|apply evolves_refl; reflexivity].
      + unfold BATCH, RSHARD in *. lia.
    - eapply good_weaken; [apply (maintenance_spec s0 PI)|].
      intros s' (PI' & E' & B' & R'). split; [|exact E'].
      unfold inv. rewrite B', R'. split; [exact PI'|]. unfold len, BATCH, RSHARD. cbn. lia.
  Qed.

  (** every operation preserves the invariant; what it returns and evicts is described
      by [base] followed by evictions of unpinned keys only *)
  Definition step_post (o : op) (s : state) (x : state * ret) : Prop :=
    inv (fst x) /\ evolves (fst (base o (set_ev V SK [] s))) (fst x) /\ snd x = snd (base o (set_ev V SK [] s)).

  Lemma step_spec o s : inv s -> good (step c o s) (step_post o s).
  Proof.
    intro I. unfold Model.step. pose proof (base_spec o s I) as X. cbv zeta in X.
    destruct (base o (set_ev V SK [] s)) as [s0 r] eqn:E. cbn [fst] in X.
    destruct X as (PI & LW & LR & EV & LL).
    eapply good_bind; [apply (try_maint_spec s0 PI LR)|].
    intros s' [I' E']. apply good_ok. unfold step_post. rewrite E. cbn [fst snd].
    split; [exact I'|]. split; [exact E'|reflexivity].
  Qed.

  Lemma inv_init sk0 : inv (init sk0).
  Proof.
    unfold inv, pinv, init. cbn. split; [|unfold len, BATCH, RSHARD; cbn; lia].
    split; [exact wf_empty|]. split; [|split; [constructor|intros k []]].
    destruct Hc as [A B]. split; cbn; lia.
  Qed.

  Lemma run_spec ops : forall s,
    inv s -> good (run_from c ops s) (fun x => inv (fst x) /\ length (snd x) = length ops).
  Proof.
    induction ops as [|o ops IH]; intros s I; cbn [Model.run_from].
    - apply good_ok. split; [exact I|reflexivity].
    - pose proof (step_spec o s I) as [[A E]|([s1 r] & E & P)]; rewrite E; [left; now split|].
      destruct P as (I1 & _ & _). cbn [fst] in I1.
      pose proof (IH s1 I1) as [[A E2]|([s2 tr] & E2 & P2)]; rewrite E2; [left; now split|].
      apply good_ok. cbn [fst snd] in *. split; [apply P2|]. cbn. now rewrite (proj2 P2).
  Qed.
End Inv.
