(** C16: the main theorems about the TinyLFU model, for every operation sequence from
    the initial state, every capacity configuration [c] with [wf_cfg c] (in particular
    every [mk_cfg cap poll as_code]), both unpin strategies, every frequency sketch
    ([SK], [sk_record], [sk_gt] arbitrary) and every pin predicate. *)
From QV Require Import Common.Prelude Lfu.Model Lfu.LruInv Lfu.Inv.
Open Scope N_scope.

Section Theorems.
  Variables (V U SK : Type).
  Variable pinned : N -> V -> bool.
  Variable apply : U -> V -> V.
  Variable sk_record : SK -> N -> SK.
  Variable sk_gt : SK -> N -> N -> bool.
  Variable c : cfg.
  Hypothesis Hc : wf_cfg c.
  Variable sk0 : SK.

  Notation state := (state V SK).
  Notation op := (op V U).
  Notation ret := (ret V).
  Notation base := (base V U SK apply).
  Notation step := (step V U SK pinned apply sk_record sk_gt).
  Notation run_from := (run_from V U SK pinned apply sk_record sk_gt).
  Notation inv := (inv V SK c).
  Notation evolves := (evolves V SK pinned).
  Notation good := (Inv.good c).
  Notation keys := (keys V).
  Implicit Types s : state.

  (** states reachable from the empty cache by any operation sequence *)
  Definition reachable (s : state) : Prop :=
    exists ops tr, run_from c ops (init sk0) = Ok (s, tr).

  Lemma good_Ok {A} (r : res A) (P : A -> Prop) a : good r P -> r = Ok a -> P a.
  Proof. intros [[_ E]|(a' & E & Pa)] H; rewrite E in H; [discriminate|]. now injection H as <-. Qed.

  Lemma reachable_inv s : reachable s -> inv s.
  Proof.
    intros (ops & tr & E).
    pose proof (run_spec V U SK pinned apply sk_record sk_gt c Hc ops (init sk0)
                  (inv_init V SK sk_record sk_gt c Hc sk0)) as G.
    apply (good_Ok _ _ _ G E).
  Qed.

  (** what an operation does to one key of an eviction-free map (the reference
      semantics: insert-if-vacant, modify-if-occupied, remove) *)
  Definition spec_after (o : op) (k : N) (cur : option V) : option V :=
    match o with
    | Insert k' v => if k' =? k then match cur with None => Some v | Some x => Some x end else cur
    | Modify k' u => if k' =? k then option_map (apply u) cur else cur
    | Remove k' => if k' =? k then None else cur
    | _ => cur
    end.

  Lemma base_lookup o s k :
    slookup k (st (fst (base o (set_ev V SK [] s)))) = spec_after o k (slookup k (st s)).
  Proof.
    destruct o as [k'|k'|k' v|k' u|k'|k']; cbn [Model.base spec_after].
    - unfold rb_push. cbn. now destruct (len (rb s) <? RSHARD).
    - reflexivity.
    - cbn. destruct (slookup k' (st s)) eqn:E; cbn.
      + destruct (N.eqb_spec k' k) as [->|]; [now rewrite E|reflexivity].
      + destruct (N.eqb_spec k' k) as [->|]; [now rewrite E|reflexivity].
    - cbn. destruct (slookup k' (st s)) eqn:E; cbn.
      + rewrite slookup_smodify. rewrite (N.eqb_sym k k').
        destruct (N.eqb_spec k' k) as [->|]; reflexivity.
      + destruct (N.eqb_spec k' k) as [->|]; [now rewrite E|reflexivity].
    - cbn. destruct (slookup k' (st s)) eqn:E; cbn.
      + rewrite slookup_sremove. rewrite (N.eqb_sym k k'). reflexivity.
      + destruct (N.eqb_spec k' k) as [->|]; [now rewrite E|reflexivity].
    - reflexivity.
  Qed.

  (** one operation from a state satisfying the invariant *)
  Lemma step_facts o s s' r :
    inv s -> step c o s = Ok (s', r) ->
    inv s' /\
    r = snd (base o (set_ev V SK [] s)) /\
    (forall k, In k (ev s') -> exists v, spec_after o k (slookup k (st s)) = Some v /\ pinned k v = false) /\
    (forall k, slookup k (st s') = if mem k (ev s') then None else spec_after o k (slookup k (st s))).
  Proof.
    intros I E.
    pose proof (step_spec V U SK pinned apply sk_record sk_gt c Hc o s I) as G.
    pose proof (good_Ok _ _ _ G E) as (I' & EV & R). cbn [fst snd] in *.
    pose proof (base_spec V U SK pinned apply sk_record sk_gt c o s I) as B. cbv zeta in B.
    destruct B as (_ & _ & _ & E0 & _).
    destruct EV as (new & En & Pn & Ln & _). rewrite E0 in En. cbn in En. subst new.
    split; [exact I'|]. split; [exact R|]. split.
    - intros k Hk. destruct (Pn k Hk) as (v & Hv & Hp). exists v. now rewrite <- base_lookup.
    - intro k. rewrite Ln. now rewrite base_lookup.
  Qed.

  (* ================================================================ (a) *)
  (** An entry whose owner reports it pinned when the eviction decision is taken is
      never evicted: whatever operation runs (and whatever maintenance it triggers), a
      key that holds a pinned value after the operation's own effect is still resident
      with that value afterwards and is not in the eviction log; conversely every key
      in the eviction log held a value reported as not pinned. *)
  Theorem pinned_never_evicted :
    forall s o s' r, reachable s -> step c o s = Ok (s', r) ->
      (forall k v, spec_after o k (slookup k (st s)) = Some v -> pinned k v = true ->
                   slookup k (st s') = Some v /\ ~ In k (ev s')) /\
      (forall k, In k (ev s') ->
                 exists v, spec_after o k (slookup k (st s)) = Some v /\ pinned k v = false).
  Proof.
    intros s o s' r Rs E. apply reachable_inv in Rs.
    destruct (step_facts o s s' r Rs E) as (_ & _ & Pn & Ln). split; [|exact Pn].
    intros k v Hv Hp.
    assert (~ In k (ev s')) as Hn.
    { intro Hk. destruct (Pn k Hk) as (v' & Hv' & Hp'). congruence. }
    split; [|exact Hn]. rewrite Ln. apply mem_false in Hn. now rewrite Hn.
  Qed.

  (* ================================================================ (b) *)
  (** get / peek return the stored value; and a key's stored value after any operation
      is exactly the reference-map value unless the key was evicted during it.  Hence a
      key stays readable with its latest value until it is evicted or removed. *)
  Theorem readable_until_gone :
    forall s o s' r, reachable s -> step c o s = Ok (s', r) ->
      (forall k, o = Get k \/ o = Peek k -> r = RVal (slookup k (st s))) /\
      (forall k, slookup k (st s') = if mem k (ev s') then None else spec_after o k (slookup k (st s))).
  Proof.
    intros s o s' r Rs E. apply reachable_inv in Rs.
    destruct (step_facts o s s' r Rs E) as (_ & R & _ & Ln). split; [|exact Ln].
    intros k [-> | ->]; rewrite R; cbn; [|reflexivity].
    unfold rb_push. cbn. now destruct (len (rb s) <? RSHARD).
  Qed.

  (** the same over whole runs: the final storage is the fold of the reference semantics
      over the operations and the eviction events of the trace *)
  Fixpoint spec_run (ops : list op) (tr : list (ret * list N)) (k : N) (cur : option V) : option V :=
    match ops, tr with
    | o :: ops, (_, e) :: tr =>
        spec_run ops tr k (if mem k e then None else spec_after o k cur)
    | _, _ => cur
    end.

  Lemma run_lookup ops : forall s s' tr k,
    inv s -> run_from c ops s = Ok (s', tr) -> slookup k (st s') = spec_run ops tr k (slookup k (st s)).
  Proof.
    induction ops as [|o ops IH]; intros s s' tr k I E; cbn [Model.run_from] in E.
    - injection E as <- <-. reflexivity.
    - destruct (step c o s) as [[s1 r1]| |] eqn:E1; try discriminate.
      destruct (run_from c ops s1) as [[s2 tr2]| |] eqn:E2; try discriminate.
      injection E as <- <-. cbn [spec_run].
      destruct (step_facts o s s1 r1 I E1) as (I1 & _ & _ & Ln).
      rewrite (IH s1 s2 tr2 k I1 E2). now rewrite Ln.
  Qed.

  Theorem readable_run :
    forall ops s tr k, run_from c ops (init sk0) = Ok (s, tr) ->
      slookup k (st s) = spec_run ops tr k None.
  Proof.
    intros ops s tr k E. apply (run_lookup ops (init sk0) s tr k (inv_init V SK sk_record sk_gt c Hc sk0) E).
  Qed.

  (* ================================================================ (c) *)
  Definition inserts (ms : list wmsg) : list N :=
    flat_map (fun m => match m with WInsert k => [k] | _ => [] end) ms.

  Lemma inserts_In k ms : In (WInsert k) ms -> In k (inserts ms).
  Proof. intro H. unfold inserts. apply in_flat_map. exists (WInsert k). split; [assumption|now left]. Qed.

  Lemma inserts_length ms : (length (inserts ms) <= length ms)%nat.
  Proof. unfold inserts. induction ms as [|m ms IH]; cbn; [lia|]. destruct m; cbn; lia. Qed.

  Definition all_keys (l : lru) : list N :=
    items (r_win l) ++ items (r_prob l) ++ items (r_prot l) ++ items (r_pin l).

  Lemma all_keys_inl k l : In k (all_keys l) <-> inl k l.
  Proof.
    unfold all_keys, inl, inr_. rewrite !in_app_iff. split.
    - intros [H|[H|[H|H]]]; [exists Win|exists Prob|exists Prot|exists Pin]; exact H.
    - intros [[] H]; cbn in H; tauto.
  Qed.

  Lemma stored_tracked s k :
    inv s -> In k (keys (st s)) -> In k (all_keys (lr s)) \/ In (WInsert k) (wb s).
  Proof.
    intros ((W & C & D & P) & _ & _) Hk. specialize (P k Hk).
    apply (pend_inserted V pinned) in P. destruct P as [P|P]; [left|now right].
    apply all_keys_inl. now apply memb_inl.
  Qed.

  (** The number of resident entries never exceeds the policy's capacity ([max_capacity],
      at most the configured capacity + 1) plus the length of the Pinned region plus the
      32 buffered messages that have not reached the policy yet. *)
  Theorem bounded :
    forall s, reachable s -> len (st s) <= maxcap c + cnt (r_pin (lr s)) + BATCH.
  Proof.
    intros s Rs. apply reachable_inv in Rs. pose proof Rs as ((W & C & D & P) & LW & LR).
    assert (incl (keys (st s)) (all_keys (lr s) ++ inserts (wb s))) as Hincl.
    { intros k Hk. apply in_or_app. destruct (stored_tracked s k Rs Hk) as [H|H]; [now left|right; now apply inserts_In]. }
    pose proof (NoDup_incl_length D Hincl) as L.
    unfold keys in L. rewrite map_length, app_length in L. unfold all_keys in L. rewrite !app_length in L.
    pose proof (inserts_length (wb s)) as L2.
    destruct C as [CW CP CM]. destruct Hc as [HA HB].
    change (r_pin (lr s)) with (getr Pin (lr s)). rewrite (wf_cnt _ W Pin).
    unfold rlen, len in *. cbn [getr] in *. lia.
  Qed.

  (* ================================================================ (d) *)
  Lemma NoDup_app_intro {A} (a b : list A) :
    NoDup a -> NoDup b -> (forall x, In x a -> ~ In x b) -> NoDup (a ++ b).
  Proof.
    induction 1 as [|x a Hx Ha IH]; intros Hb Hd; cbn; [assumption|].
    constructor.
    - rewrite in_app_iff. intros [H|H]; [contradiction|]. apply (Hd x); [now left|assumption].
    - apply IH; [assumption|]. intros y Hy. apply Hd. now right.
  Qed.

  Lemma wf_all_keys_NoDup l : wf l -> NoDup (all_keys l).
  Proof.
    intro W. unfold all_keys.
    pose proof (wf_nd _ W Win) as N1. pose proof (wf_nd _ W Prob) as N2.
    pose proof (wf_nd _ W Prot) as N3. pose proof (wf_nd _ W Pin) as N4. cbn [getr] in *.
    assert (forall k r1 r2, r1 <> r2 -> In k (items (getr r1 l)) -> ~ In k (items (getr r2 l))) as Dj.
    { intros k r1 r2 Hne H1 H2. apply Hne. eapply wf_disj; eauto. }
    apply NoDup_app_intro; [assumption| |].
    - apply NoDup_app_intro; [assumption| |].
      + apply NoDup_app_intro; [assumption|assumption|]. intros x. apply (Dj x Prot Pin). discriminate.
      + intros x Hx. rewrite in_app_iff. intros [H|H]; [revert H; apply (Dj x Prob Prot)|revert H; apply (Dj x Prob Pin)];
          (discriminate || assumption).
    - intros x Hx. rewrite !in_app_iff. intros [H|[H|H]]; revert H;
        [apply (Dj x Win Prob)|apply (Dj x Win Prot)|apply (Dj x Win Pin)]; (discriminate || assumption).
  Qed.

  (** Region accounting: each length counter equals the length of its list; no key is in
      two regions or twice in one; no key is stored twice; every stored key is tracked by
      a region or has its Insert message still buffered; the regions respect the
      capacities computed by [Policy::new]. *)
  Theorem region_accounting :
    forall s, reachable s ->
      (forall r, cnt (getr r (lr s)) = len (items (getr r (lr s)))) /\
      NoDup (all_keys (lr s)) /\
      NoDup (map fst (st s)) /\
      (forall k, In k (map fst (st s)) -> In k (all_keys (lr s)) \/ In (WInsert k) (wb s)) /\
      len (items (r_win (lr s))) <= wcap c /\
      len (items (r_prot (lr s))) <= pcap c /\
      len (items (r_prob (lr s))) + len (items (r_prot (lr s))) <= maxcap c - wcap c /\
      len (wb s) <= BATCH.
  Proof.
    intros s Rs. apply reachable_inv in Rs. pose proof Rs as ((W & C & D & P) & LW & LR).
    split; [intro r; apply (wf_cnt _ W r)|]. split; [now apply wf_all_keys_NoDup|].
    split; [exact D|]. split; [intros k Hk; now apply stored_tracked|].
    destruct C as [CW CP CM]. unfold rlen in *. cbn [getr] in *. unfold len. auto.
  Qed.

  (* ================================================================ (e) *)
  (** No operation sequence makes the cache panic or get stuck — except, in the code as
      it is, by the unwrap of policy.rs:172. *)
  Theorem total_or_panic_172 :
    forall ops, (as_code c = true /\ run_from c ops (init sk0) = Panic 172) \/
                exists s tr, run_from c ops (init sk0) = Ok (s, tr).
  Proof.
    intro ops.
    pose proof (run_spec V U SK pinned apply sk_record sk_gt c Hc ops (init sk0)
                  (inv_init V SK sk_record sk_gt c Hc sk0)) as [G|([s tr] & E & _)]; [now left|right; eauto].
  Qed.

  Theorem total :
    as_code c = false -> forall ops, exists s tr, run_from c ops (init sk0) = Ok (s, tr).
  Proof.
    intros A ops. destruct (total_or_panic_172 ops) as [[A' _]|H]; [congruence|exact H].
  Qed.
End Theorems.
