(** Concrete runs of the exact model (Check.v instance: payload + pin flag, exact sketch):
    the F4 witness refuting totality of the code as it is, and non-trivial reachable
    states showing that the hypotheses of the C16 theorems are satisfiable. *)
From QV Require Import Common.Prelude Lfu.Model Lfu.LruInv Lfu.Inv Lfu.Theorems Lfu.LockTable Lfu.Check.
Open Scope N_scope.

Definition crun (cap : N) (p a : bool) (ops : list cop) :=
  run_from cval cupd sketch cpinned capply sketch_record sketch_gt (mk_cfg cap p a) ops (cinit cap).
Definition range (n : nat) : list N := map N.of_nat (seq 0 n).
Definition DUMMY : N := 4000000000.

Definition creachable (cap : N) (p a : bool) (s : cstate) : Prop :=
  exists ops tr, crun cap p a ops = Ok (s, tr).
Lemma creachable_reachable cap p a s :
  creachable cap p a s ->
  reachable cval cupd sketch cpinned capply sketch_record sketch_gt (mk_cfg cap p a) (policy_sketch cap) s.
Proof. intros (ops & tr & E). exists ops, tr. exact E. Qed.

Definition is_ok {A} (r : res A) : bool := match r with Ok _ => true | _ => false end.
Definition state_of {A B} (r : res (A * B)) (d : A) : A := match r with Ok (s, _) => s | _ => d end.
Lemma ok_proj {A B} (r : res (A * B)) (d : A) : is_ok r = true -> exists tr, r = Ok (state_of r d, tr).
Proof. destruct r as [[s tr]| |]; intro H; try discriminate. now exists tr. Qed.

(* ------------------------------------------------------------------ F4 *)
(** capacity 4, Notify: 200 pinned inserts; remove all but key 100 (it sits in the Pinned
    region); clear its flag; notify; 40 more notifications force the maintenance round
    in which [Policy::unpin] unwraps the tail of the (now empty) probation region *)
Definition witness_ops : list cop :=
  map (fun k => Insert k (k, true)) (range 200)
  ++ map (fun k => Remove k) (filter (fun k => negb (k =? 100)) (range 200))
  ++ [Modify 100 (SetPin false); Unpin 100]
  ++ repeat (Unpin DUMMY) 40.

Theorem total_refuted : exists ops, crun 4 false true ops = Panic 172.
Proof. exists witness_ops. vm_compute. reflexivity. Qed.

(** the same sequence goes through in the repaired variant (instance of [total]) *)
Example witness_repaired : exists s tr, crun 4 false false witness_ops = Ok (s, tr).
Proof.
  apply (total cval cupd sketch cpinned capply sketch_record sketch_gt (mk_cfg 4 false false)
           (wf_mk_cfg 4 false false) (policy_sketch 4) eq_refl).
Qed.

(* ------------------------------------------------------------------ a non-trivial reachable state *)
Definition ex_cfg : cfg := mk_cfg 4 false false.
Definition ex_ops : list cop :=
  map (fun k => Insert k (k, N.even k)) (range 80)
  ++ [Get 3; Get 3; Modify 6 (SetPin false); Unpin 6]
  ++ repeat (Unpin DUMMY) 40.
Definition ex_state : cstate := state_of (crun 4 false false ex_ops) (cinit 4).

Definition is_nil {A} (l : list A) : bool := match l with [] => true | _ => false end.

(** in that run: the Pinned region is non-empty, more keys are resident than the policy's
    capacity, some operation evicted keys, and a value reporting "pinned" is resident *)
Definition ex_facts : bool :=
  match crun 4 false false ex_ops with
  | Ok (s, tr) =>
      (0 <? cnt (r_pin (lr s))) && (maxcap ex_cfg <? len (st s))
      && existsb (fun x => negb (is_nil (snd x))) tr
      && existsb (fun kv => snd (snd kv)) (st s)
  | _ => false
  end.
Example ex_nontrivial : ex_facts = true.
Proof. vm_compute. reflexivity. Qed.

Example ex_reachable :
  reachable cval cupd sketch cpinned capply sketch_record sketch_gt ex_cfg (policy_sketch 4) ex_state.
Proof.
  apply (creachable_reachable 4 false false). exists ex_ops.
  apply (ok_proj (crun 4 false false ex_ops) (cinit 4)). vm_compute. reflexivity.
Qed.

(** a step from a reachable state in which maintenance runs, evicts unpinned keys and keeps
    the pinned key 4 with its value (it was chosen as a victim and went to the Pinned region; the unpinned key 5 was evicted): the hypotheses of (a) and (b) are satisfiable *)
Definition ex_pre : list cop := map (fun k => Insert k (k, N.even k)) (range 32).
Definition ex_pre_state : cstate := state_of (crun 4 false false ex_pre) (cinit 4).
Definition ex_o : cop := Insert 32 (32, true).
Definition ex_step_facts : bool :=
  match crun 4 false false ex_pre, cstep ex_cfg ex_o ex_pre_state with
  | Ok _, Ok (s', _) =>
      negb (is_nil (ev s'))
      && ocval_eqb (slookup 4 (st ex_pre_state)) (Some (4, true))
      && ocval_eqb (slookup 4 (st s')) (Some (4, true))
      && negb (mem 4 (ev s'))
      && mem 4 (items (r_pin (lr s')))
      && mem 5 (ev s')
  | _, _ => false
  end.
Example ex_step : ex_step_facts = true.
Proof. vm_compute. reflexivity. Qed.

Example ex_pre_reachable :
  reachable cval cupd sketch cpinned capply sketch_record sketch_gt ex_cfg (policy_sketch 4) ex_pre_state.
Proof.
  apply (creachable_reachable 4 false false). exists ex_pre.
  apply (ok_proj (crun 4 false false ex_pre) (cinit 4)). vm_compute. reflexivity.
Qed.

(** the exact region accounting "stored keys = tracked keys" does NOT hold in the code: a key
    can be tracked by a region without being stored (it was removed and re-inserted while
    an older message evicted the new value); the policy drops such a phantom the next time
    it is chosen as a victim.  Here: key 7 after the run below. *)
Definition phantom_ops : list cop :=
  map (fun k => Insert k (k, false)) (range 33)
  ++ [Get 32; Get 32; Get 32] ++ repeat (Unpin DUMMY) 33
  ++ [Insert 50 (50, false); Remove 0; Insert 0 (999, false)] ++ repeat (Unpin DUMMY) 30.
Definition tracked_not_stored (s : cstate) : list N :=
  filter (fun k => match slookup k (st s) with None => true | Some _ => false end)
         (all_keys (lr s)).
Example accounting_not_exact :
  match crun 4 false false phantom_ops with
  | Ok (s, _) => mem 0 (tracked_not_stored s) && is_nil (wb s)
  | _ => false
  end = true.
Proof. vm_compute. reflexivity. Qed.

(** capacity arithmetic of [Policy::new]: never more than the configured capacity + 1 *)
Definition caps_upto (n : nat) : bool :=
  forallb (fun cap => (max_capacity cap <=? cap + 1) && (cap <=? max_capacity cap)
                      && (window_capacity cap <=? cap)) (range n).
Example max_capacity_le : caps_upto 2049 = true.
Proof. vm_compute. reflexivity. Qed.

Lemma caps_upto_spec n :
  caps_upto n = true -> forall cap, In cap (range n) ->
  max_capacity cap <= cap + 1 /\ cap <= max_capacity cap /\ window_capacity cap <= cap.
Proof.
  unfold caps_upto. intros E cap H. rewrite forallb_forall in E.
  specialize (E cap H). apply andb_prop in E. destruct E as [E E3]. apply andb_prop in E.
  destruct E as [E1 E2]. apply N.leb_le in E1, E2, E3. auto.
Qed.

Lemma capacity_arith cap :
  In cap (range 2049) ->
  max_capacity cap <= cap + 1 /\ cap <= max_capacity cap /\ window_capacity cap <= cap.
Proof. exact (caps_upto_spec 2049 max_capacity_le cap). Qed.

(* ------------------------------------------------------------------ lock table instance *)
(** handles: [true] = clone (count + 1), [false] = drop (count - 1) *)
Definition lock_apply (u : bool) (v : lock_val) : lock_val :=
  if u then (fst v, snd v + 1) else (fst v, snd v - 1).
Lemma lock_apply_id u v : fst (lock_apply u v) = fst v.
Proof. destruct u; reflexivity. Qed.

(** key 7 is held (count 2) while 60 other locks are created and dropped through a table of
    capacity 2 with UnpinStrategy::Poll: [held] is satisfied, so the theorem applies *)
Definition lock_ops : list (op lock_val bool) :=
  Insert 7 (1000, 2) :: flat_map (fun k => [Insert (100 + k) (k, 2); Modify (100 + k) false]) (range 60).
Example lock_held : held bool lock_apply 7 lock_ops None.
Proof. vm_compute. repeat (split; [eexists; eexists; split; [reflexivity|reflexivity]|]). exact Logic.I. Qed.
