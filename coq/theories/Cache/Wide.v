(** C09 — model of the cached single-value / multi-type map
    (crates/storage/src/wide_column_cache.rs, single_map/cache.rs, dynamic_map/cache.rs,
    write_manager/write_behind.rs).  Executable definitions only.

    A key of the model is a natural number; for the multi-type map it stands for the
    pair (key, TypeId) that the code uses as cache key, for several maps sharing one
    write manager it also carries the map.

    What is modelled
    - backing store: what [KvDatabase::get_wide_column] answers (a committed batch is
      applied atomically, last write of a key inside a batch wins: [HashMap::insert]);
    - cache entry = [(value option, pin count)]; [None] is the remembered absence;
    - write batches: epoch, submitted flag, the write map of the batch; [put_wide_column]
      returns [updated] = "first write of this key in this batch";
    - the commit thread takes batches strictly in epoch order ([expected_epoch]), so
      [BgCommit] is enabled only when the batch with the smallest live epoch has been
      submitted;
    - after-commit: one [fetch_sub] per key written by the batch, in any order, possibly
      interleaved with foreground operations: [BgNotify b k];
    - the TinyLFU policy is abstracted: [Evict k] may happen at any time, enabled iff the
      entry's pin count is not positive ([PinnedLifecycleListener::is_pinned] asked again
      under the entry lock by [remove_closure]).
    Background steps are placed arbitrarily by the operation sequence. *)
From QV Require Import Common.Prelude.
Open Scope N_scope.

Definition key := N.
Definition val := N.

(** association lists: the first binding of a key is the current one *)
Fixpoint alookup {A} (k : N) (m : list (N * A)) : option A :=
  match m with
  | [] => None
  | (k', a) :: r => if k =? k' then Some a else alookup k r
  end.
Fixpoint aremove {A} (k : N) (m : list (N * A)) : list (N * A) :=
  match m with
  | [] => []
  | (k', a) :: r => if k =? k' then aremove k r else (k', a) :: aremove k r
  end.
Definition aset {A} (k : N) (a : A) (m : list (N * A)) : list (N * A) := (k, a) :: aremove k m.

(** a deleted key is a binding to [None] *)
Definition mget (k : key) (m : list (key * option val)) : option val :=
  match alookup k m with Some w => w | None => None end.

Record batch := Batch { b_epoch : N; b_sub : bool; b_writes : list (key * option val) }.

Record st := St {
  store : list (key * option val);        (* committed writes, newest first *)
  cache : list (key * (option val * Z));  (* entry: value (None = known absent), pin count *)
  next_epoch : N;                         (* WriteBufferPool::epoch *)
  pending : list batch;                   (* created and not yet committed, epoch ascending *)
  notifyq : list (N * list key)           (* committed; keys whose un-pin has not run yet *)
}.

Definition init : st := St [] [] 0 [] [].

Inductive op :=
| NewBatch                                   (* new_write_batch: takes the next epoch *)
| Insert (b : N) (k : key) (v : val)         (* map.insert(k, v, &mut batch b) *)
| Remove (b : N) (k : key)                   (* map.remove(k, &mut batch b) *)
| Submit (b : N)                             (* submit_write_batch *)
| Get (k : key)                              (* map.get(k) *)
| BgCommit                                   (* commit thread: next batch becomes visible in the store *)
| BgNotify (b : N) (k : key)                 (* after-commit thread: flush_staging of one key of batch b *)
| Evict (k : key).                           (* cache policy removes the entry *)

(** apply [f] to the first batch with epoch [e] *)
Fixpoint upd_batch (e : N) (f : batch -> option batch) (l : list batch) : option (list batch) :=
  match l with
  | [] => None
  | b :: r => if b_epoch b =? e
              then match f b with Some b' => Some (b' :: r) | None => None end
              else match upd_batch e f r with Some r' => Some (b :: r') | None => None end
  end.
Fixpoint find_batch (e : N) (l : list batch) : option batch :=
  match l with
  | [] => None
  | b :: r => if b_epoch b =? e then Some b else find_batch e r
  end.

Definition add_write (k : key) (w : option val) (b : batch) : option batch :=
  if b_sub b then None else Some (Batch (b_epoch b) false ((k, w) :: b_writes b)).
Definition mark_sub (b : batch) : option batch :=
  if b_sub b then None else Some (Batch (b_epoch b) true (b_writes b)).

(** WideColumnCache::insert *)
Definition cache_insert (k : key) (v : val) (updated : bool) (c : list (key * (option val * Z))) :=
  match alookup k c with
  | None => aset k (Some v, if updated then 1%Z else 0%Z) c
  | Some (_, p) => aset k (Some v, if updated then (p + 1)%Z else p) c
  end.
(** WideColumnCache::remove *)
Definition cache_remove (k : key) (updated : bool) (c : list (key * (option val * Z))) :=
  match alookup k c with
  | None => if updated then aset k (None, 1%Z) c else c
  | Some (_, p) =>
      if updated then aset k (None, (p + 1)%Z) c
      else if (p =? 0)%Z then aremove k c else aset k (None, p) c
  end.
(** WideColumnCache::flush_staging, one key *)
Definition cache_unpin (k : key) (c : list (key * (option val * Z))) :=
  match alookup k c with
  | None => c
  | Some (v, p) => aset k (v, (p - 1)%Z) c
  end.

Definition has_key (k : key) (ks : list key) : bool := existsb (N.eqb k) ks.
Definition del_key (k : key) (ks : list key) : list key := filter (fun x => negb (k =? x)) ks.

(** remove [k] from the pending keys of committed batch [b]; the entry disappears with its last key *)
Fixpoint notify_one (b : N) (k : key) (q : list (N * list key)) : option (list (N * list key)) :=
  match q with
  | [] => None
  | (e, ks) :: r =>
      if e =? b then
        if has_key k ks
        then Some (match del_key k ks with [] => r | ks' => (e, ks') :: r end)
        else None
      else match notify_one b k r with Some r' => Some ((e, ks) :: r') | None => None end
  end.

Definition write (s : st) (b : N) (k : key) (w : option val) : option st :=
  match find_batch b (pending s), upd_batch b (add_write k w) (pending s) with
  | Some bt, Some p' =>
      let updated := match alookup k (b_writes bt) with None => true | Some _ => false end in
      let c' := match w with
                | Some v => cache_insert k v updated (cache s)
                | None => cache_remove k updated (cache s)
                end in
      Some (St (store s) c' (next_epoch s) p' (notifyq s))
  | _, _ => None
  end.

(** one step; [None] = the operation is not enabled in this state.
    The second component is the answer of a [Get]. *)
Definition step (s : st) (o : op) : option (st * option (option val)) :=
  match o with
  | NewBatch =>
      Some (St (store s) (cache s) (next_epoch s + 1)
               (pending s ++ [Batch (next_epoch s) false []]) (notifyq s), None)
  | Insert b k v => match write s b k (Some v) with Some s' => Some (s', None) | None => None end
  | Remove b k => match write s b k None with Some s' => Some (s', None) | None => None end
  | Submit b =>
      match upd_batch b mark_sub (pending s) with
      | Some p' => Some (St (store s) (cache s) (next_epoch s) p' (notifyq s), None)
      | None => None
      end
  | Get k =>
      match alookup k (cache s) with
      | Some (v, _) => Some (s, Some v)                       (* fast path, negative entries included *)
      | None =>
          let v := mget k (store s) in                        (* init(): read the store *)
          Some (St (store s) (aset k (v, 0%Z) (cache s)) (next_epoch s) (pending s) (notifyq s), Some v)
      end
  | BgCommit =>
      match pending s with
      | b :: r =>
          if b_sub b then
            let ks := map fst (b_writes b) in
            Some (St (b_writes b ++ store s) (cache s) (next_epoch s) r
                     (match ks with [] => notifyq s | _ => notifyq s ++ [(b_epoch b, ks)] end), None)
          else None
      | [] => None
      end
  | BgNotify b k =>
      match notify_one b k (notifyq s) with
      | Some q' => Some (St (store s) (cache_unpin k (cache s)) (next_epoch s) (pending s) q', None)
      | None => None
      end
  | Evict k =>
      match alookup k (cache s) with
      | Some (_, p) =>
          if (p <=? 0)%Z
          then Some (St (store s) (aremove k (cache s)) (next_epoch s) (pending s) (notifyq s), None)
          else None
      | None => None
      end
  end.

Fixpoint run (s : st) (ops : list op) : option (st * list (option val)) :=
  match ops with
  | [] => Some (s, [])
  | o :: r =>
      match step s o with
      | None => None
      | Some (s', out) =>
          match run s' r with
          | None => None
          | Some (s'', outs) => Some (s'', match out with Some x => x :: outs | None => outs end)
          end
      end
  end.

(** The specification: a plain last-write-wins map over the writes as issued. *)
Fixpoint spec (m : list (key * option val)) (ops : list op) : list (option val) :=
  match ops with
  | [] => []
  | Insert _ k v :: r => spec ((k, Some v) :: m) r
  | Remove _ k :: r => spec ((k, None) :: m) r
  | Get k :: r => mget k m :: spec m r
  | _ :: r => spec m r
  end.

(** Well-formedness the proof needs: the writes to one key are issued in the epoch order
    of their batches (a later write never goes into an older batch than an earlier write
    to the same key).  [hi] maps a key to the largest epoch that has written it. *)
Definition write_of (o : op) : option (N * key) :=
  match o with Insert b k _ => Some (b, k) | Remove b k => Some (b, k) | _ => None end.
Fixpoint ordered (hi : list (key * N)) (ops : list op) : bool :=
  match ops with
  | [] => true
  | o :: r =>
      match write_of o with
      | Some (b, k) =>
          match alookup k hi with Some e => e <=? b | None => true end && ordered ((k, b) :: hi) r
      | None => ordered hi r
      end
  end.
