(** C09 — read-your-writes for the cached single-value / multi-type map: proof.
    Refinement of [Wide.run] to the last-write-wins map [Wide.spec] by an inductive
    invariant. *)
From QV Require Import Common.Prelude Cache.Wide.
Open Scope N_scope.

(** * association lists *)
Lemma alookup_aremove_eq {A} k (m : list (N * A)) : alookup k (aremove k m) = None.
Proof.
  induction m as [|[k' a] r IH]; cbn [aremove alookup]; [reflexivity|].
  destruct (k =? k') eqn:E; [exact IH|]. cbn [alookup]. rewrite E. exact IH.
Qed.
Lemma alookup_aremove_ne {A} k k' (m : list (N * A)) : k <> k' -> alookup k' (aremove k m) = alookup k' m.
Proof.
  intros Hne. induction m as [|[k2 a] r IH]; cbn [aremove alookup]; [reflexivity|].
  destruct (k =? k2) eqn:E.
  - apply N.eqb_eq in E. subst k2. destruct (k' =? k) eqn:E2; [apply N.eqb_eq in E2; congruence|exact IH].
  - cbn [alookup]. destruct (k' =? k2); [reflexivity|exact IH].
Qed.
Lemma alookup_aset_eq {A} k (a : A) m : alookup k (aset k a m) = Some a.
Proof. unfold aset. cbn [alookup]. now rewrite N.eqb_refl. Qed.
Lemma alookup_aset_ne {A} k k' (a : A) m : k <> k' -> alookup k' (aset k a m) = alookup k' m.
Proof.
  intros Hne. unfold aset. cbn [alookup].
  destruct (k' =? k) eqn:E; [apply N.eqb_eq in E; congruence|]. now apply alookup_aremove_ne.
Qed.
Lemma alookup_app {A} k (a b : list (N * A)) :
  alookup k (a ++ b) = match alookup k a with Some x => Some x | None => alookup k b end.
Proof.
  induction a as [|[k' x] r IH]; cbn [app alookup]; [reflexivity|]. destruct (k =? k'); [reflexivity|exact IH].
Qed.
Lemma mget_app k a b : mget k (a ++ b) = match alookup k a with Some w => w | None => mget k b end.
Proof. unfold mget. rewrite alookup_app. destruct (alookup k a); reflexivity. Qed.
Lemma mget_cons_eq k w m : mget k ((k, w) :: m) = w.
Proof. unfold mget. cbn [alookup]. now rewrite N.eqb_refl. Qed.
Lemma mget_cons_ne k k' w m : k <> k' -> mget k' ((k, w) :: m) = mget k' m.
Proof. intros H. unfold mget. cbn [alookup]. destruct (k' =? k) eqn:E; [apply N.eqb_eq in E; congruence|reflexivity]. Qed.

(** * ghost quantities *)
Definition wrote (k : key) (b : batch) : bool :=
  match alookup k (b_writes b) with Some _ => true | None => false end.
Definition b2z (x : bool) : Z := if x then 1%Z else 0%Z.
Fixpoint cnt_pending (k : key) (l : list batch) : Z :=
  match l with [] => 0%Z | b :: r => (b2z (wrote k b) + cnt_pending k r)%Z end.
Fixpoint cnt_notify (k : key) (q : list (N * list key)) : Z :=
  match q with [] => 0%Z | (_, ks) :: r => (b2z (has_key k ks) + cnt_notify k r)%Z end.
Definition pin_of (k : key) (c : list (key * (option val * Z))) : Z :=
  match alookup k c with Some (_, p) => p | None => 0%Z end.
(** the write to [k] of the youngest not yet committed batch that wrote [k] *)
Fixpoint pend_val (k : key) (l : list batch) : option (option val) :=
  match l with
  | [] => None
  | b :: r => match pend_val k r with Some w => Some w | None => alookup k (b_writes b) end
  end.
(** epochs of the live batches ascend strictly and stay below the epoch counter *)
Fixpoint asc (lo : N) (l : list batch) (hi : N) : Prop :=
  match l with [] => lo <= hi | b :: r => lo <= b_epoch b /\ asc (b_epoch b + 1) r hi end.

Record Inv (s : st) (m : list (key * option val)) (hi : list (key * N)) : Prop := {
  inv_cache : forall k v p, alookup k (cache s) = Some (v, p) -> v = mget k m;
  inv_pin : forall k, pin_of k (cache s) = (cnt_pending k (pending s) + cnt_notify k (notifyq s))%Z;
  inv_store : forall k, mget k m = match pend_val k (pending s) with Some w => w | None => mget k (store s) end;
  inv_asc : asc 0 (pending s) (next_epoch s);
  inv_hi : forall b k, In b (pending s) -> wrote k b = true ->
                       exists e, alookup k hi = Some e /\ b_epoch b <= e
}.

Lemma b2z_nonneg x : (0 <= b2z x)%Z. Proof. destruct x; cbn; lia. Qed.
Lemma cnt_pending_nonneg k l : (0 <= cnt_pending k l)%Z.
Proof. induction l as [|b r IH]; cbn [cnt_pending]; [lia|]. pose proof (b2z_nonneg (wrote k b)). lia. Qed.
Lemma cnt_notify_nonneg k q : (0 <= cnt_notify k q)%Z.
Proof. induction q as [|[e ks] r IH]; cbn [cnt_notify]; [lia|]. pose proof (b2z_nonneg (has_key k ks)). lia. Qed.
Lemma cnt_pending_app k l1 l2 : cnt_pending k (l1 ++ l2) = (cnt_pending k l1 + cnt_pending k l2)%Z.
Proof. induction l1 as [|b r IH]; cbn [app cnt_pending]; [lia|]. rewrite IH. lia. Qed.
Lemma cnt_notify_app k l1 l2 : cnt_notify k (l1 ++ l2) = (cnt_notify k l1 + cnt_notify k l2)%Z.
Proof. induction l1 as [|[e ks] r IH]; cbn [app cnt_notify]; [lia|]. rewrite IH. lia. Qed.
Lemma pend_val_app k l1 l2 :
  pend_val k (l1 ++ l2) = match pend_val k l2 with Some w => Some w | None => pend_val k l1 end.
Proof.
  induction l1 as [|b r IH]; cbn [app pend_val]; [destruct (pend_val k l2); reflexivity|].
  rewrite IH. destruct (pend_val k l2); reflexivity.
Qed.
Lemma pend_val_none k l : Forall (fun b => wrote k b = false) l -> pend_val k l = None.
Proof.
  induction 1 as [|b r Hb _ IH]; cbn [pend_val]; [reflexivity|]. rewrite IH.
  unfold wrote in Hb. destruct (alookup k (b_writes b)); [discriminate|reflexivity].
Qed.
Lemma cnt_pending_zero k l : cnt_pending k l = 0%Z -> Forall (fun b => wrote k b = false) l.
Proof.
  induction l as [|b r IH]; cbn [cnt_pending]; intros H; constructor.
  - pose proof (cnt_pending_nonneg k r). destruct (wrote k b); cbn in H; [lia|reflexivity].
  - apply IH. pose proof (cnt_pending_nonneg k r). pose proof (b2z_nonneg (wrote k b)). lia.
Qed.

Lemma asc_weaken lo lo' l hi : lo' <= lo -> asc lo l hi -> asc lo' l hi.
Proof. destruct l as [|b r]; cbn [asc]; intros; [lia|]. split; [lia|tauto]. Qed.
Lemma asc_snoc lo l e : asc lo l e -> asc lo (l ++ [Batch e false []]) (e + 1).
Proof.
  revert lo. induction l as [|b r IH]; intros lo H; cbn [app asc] in *.
  - cbn. lia.
  - destruct H as [H1 H2]. split; [exact H1|]. now apply IH.
Qed.
Lemma asc_after lo l1 b l2 hi : asc lo (l1 ++ b :: l2) hi -> Forall (fun x => b_epoch b < b_epoch x) l2.
Proof.
  revert lo. induction l1 as [|c r IH]; intros lo H; cbn [app asc] in H.
  - destruct H as [_ H]. clear lo. remember (b_epoch b + 1) as lo eqn:E.
    assert (Hlo : b_epoch b < lo) by lia. clear E. revert lo Hlo H.
    induction l2 as [|x r2 IH2]; intros lo Hlo H; constructor.
    + cbn [asc] in H. lia.
    + cbn [asc] in H. destruct H as [H1 H2]. apply (IH2 (b_epoch x + 1)); [lia|exact H2].
  - destruct H as [_ H]. now apply (IH _ H).
Qed.
Lemma asc_replace lo l1 b b' l2 hi :
  b_epoch b' = b_epoch b -> asc lo (l1 ++ b :: l2) hi -> asc lo (l1 ++ b' :: l2) hi.
Proof.
  intros E. revert lo. induction l1 as [|c r IH]; intros lo H; cbn [app asc] in *.
  - now rewrite E.
  - destruct H as [H1 H2]. split; [exact H1|]. now apply IH.
Qed.

Lemma upd_batch_split e f l l' :
  upd_batch e f l = Some l' ->
  exists l1 b b' l2, l = l1 ++ b :: l2 /\ l' = l1 ++ b' :: l2 /\ b_epoch b = e /\ f b = Some b' /\
                     find_batch e l = Some b.
Proof.
  revert l'. induction l as [|c r IH]; intros l' H; cbn [upd_batch find_batch] in *; [discriminate|].
  destruct (b_epoch c =? e) eqn:E.
  - apply N.eqb_eq in E. destruct (f c) as [c'|] eqn:F; [|discriminate]. inversion H; subst l'.
    exists [], c, c', r. cbn [app]. auto.
  - destruct (upd_batch e f r) as [r'|]; [|discriminate]. inversion H; subst l'.
    destruct (IH r' eq_refl) as (l1 & b & b' & l2 & -> & -> & Hb & Hf & Hfind).
    exists (c :: l1), b, b', l2. cbn [app]. auto.
Qed.

Lemma has_key_map_fst k (ws : list (key * option val)) :
  has_key k (map fst ws) = match alookup k ws with Some _ => true | None => false end.
Proof.
  induction ws as [|[k' w] r IH]; cbn [map fst has_key existsb alookup]; [reflexivity|].
  destruct (k =? k'); [reflexivity|exact IH].
Qed.
Lemma has_key_del_eq k ks : has_key k (del_key k ks) = false.
Proof.
  induction ks as [|x r IH]; cbn [del_key filter]; [reflexivity|].
  destruct (k =? x) eqn:E; cbn [negb]; [exact IH|]. cbn [has_key existsb]. rewrite E. exact IH.
Qed.
Lemma has_key_del_ne k k' ks : k <> k' -> has_key k' (del_key k ks) = has_key k' ks.
Proof.
  intros Hne. induction ks as [|x r IH]; cbn [del_key filter]; [reflexivity|].
  destruct (k =? x) eqn:E; cbn [negb].
  - apply N.eqb_eq in E. subst x. cbn [has_key existsb].
    destruct (k' =? k) eqn:E2; [apply N.eqb_eq in E2; congruence|exact IH].
  - cbn [has_key existsb]. unfold has_key, del_key in IH. now rewrite IH.
Qed.

Lemma notify_one_cnt b k q q' :
  notify_one b k q = Some q' ->
  cnt_notify k q' = (cnt_notify k q - 1)%Z /\ forall k', k <> k' -> cnt_notify k' q' = cnt_notify k' q.
Proof.
  revert q'. induction q as [|[e ks] r IH]; intros q' H; cbn [notify_one] in H; [discriminate|].
  destruct (e =? b).
  - destruct (has_key k ks) eqn:Hk; [|discriminate]. inversion H; subst q'; clear H.
    pose proof (has_key_del_eq k ks) as Hd.
    destruct (del_key k ks) as [|x xs] eqn:D.
    + split.
      * cbn [cnt_notify]. rewrite Hk. cbn. lia.
      * intros k' Hne. cbn [cnt_notify]. pose proof (has_key_del_ne k k' ks Hne) as Hn. rewrite D in Hn.
        cbn in Hn. rewrite <- Hn. cbn. lia.
    + split.
      * cbn [cnt_notify]. rewrite Hk, Hd. cbn. lia.
      * intros k' Hne. cbn [cnt_notify]. pose proof (has_key_del_ne k k' ks Hne) as Hn. rewrite D in Hn.
        now rewrite Hn.
  - destruct (notify_one b k r) as [r'|]; [|discriminate]. inversion H; subst q'; clear H.
    destruct (IH r' eq_refl) as [I1 I2]. split.
    + cbn [cnt_notify]. rewrite I1. lia.
    + intros k' Hne. cbn [cnt_notify]. now rewrite (I2 k' Hne).
Qed.

(** * cache operations: value and pin count of every key afterwards *)
Lemma pin_of_aset_eq k e c : pin_of k (aset k e c) = snd e.
Proof. unfold pin_of. rewrite alookup_aset_eq. now destruct e. Qed.
Lemma pin_of_aset_ne k k' e c : k <> k' -> pin_of k' (aset k e c) = pin_of k' c.
Proof. intros H. unfold pin_of. now rewrite alookup_aset_ne. Qed.

Lemma cache_insert_spec k v u c :
  pin_of k (cache_insert k v u c) = (pin_of k c + b2z u)%Z /\
  (exists p, alookup k (cache_insert k v u c) = Some (Some v, p)) /\
  forall k', k <> k' -> alookup k' (cache_insert k v u c) = alookup k' c.
Proof.
  unfold cache_insert, pin_of. destruct (alookup k c) as [[v0 p]|] eqn:E.
  - rewrite alookup_aset_eq. split; [|split].
    + destruct u; cbn; lia.
    + eauto.
    + intros k' H. now apply alookup_aset_ne.
  - rewrite alookup_aset_eq. split; [|split].
    + destruct u; cbn; lia.
    + eauto.
    + intros k' H. now apply alookup_aset_ne.
Qed.
Lemma cache_remove_spec k u c :
  pin_of k (cache_remove k u c) = (pin_of k c + b2z u)%Z /\
  (forall v p, alookup k (cache_remove k u c) = Some (v, p) -> v = None) /\
  forall k', k <> k' -> alookup k' (cache_remove k u c) = alookup k' c.
Proof.
  unfold cache_remove, pin_of. destruct (alookup k c) as [[v0 p]|] eqn:E.
  - destruct u.
    + rewrite alookup_aset_eq. split; [cbn; lia|split]; [|intros; now apply alookup_aset_ne].
      intros v q H. now inversion H.
    + destruct (p =? 0)%Z eqn:P.
      * rewrite alookup_aremove_eq. split; [cbn; lia|split]; [discriminate|intros; now apply alookup_aremove_ne].
      * rewrite alookup_aset_eq. split; [cbn; lia|split]; [|intros; now apply alookup_aset_ne].
        intros v q H. now inversion H.
  - destruct u.
    + rewrite alookup_aset_eq. split; [cbn; lia|split]; [|intros; now apply alookup_aset_ne].
      intros v q H. now inversion H.
    + rewrite E. split; [cbn; lia|split]; [discriminate|reflexivity].
Qed.
Lemma cache_unpin_spec k c :
  (forall v p, alookup k c = Some (v, p) -> alookup k (cache_unpin k c) = Some (v, (p - 1)%Z)) /\
  (alookup k c = None -> cache_unpin k c = c) /\
  forall k', k <> k' -> alookup k' (cache_unpin k c) = alookup k' c.
Proof.
  unfold cache_unpin. destruct (alookup k c) as [[v0 p]|] eqn:E; (split; [|split]).
  - intros v q H. inversion H; subst. apply alookup_aset_eq.
  - discriminate.
  - intros; now apply alookup_aset_ne.
  - discriminate.
  - reflexivity.
  - reflexivity.
Qed.

(** * the invariant is preserved by a write *)
Lemma wrote_cons_eq k w b : wrote k (Batch (b_epoch b) false ((k, w) :: b_writes b)) = true.
Proof. unfold wrote. cbn [b_writes alookup]. now rewrite N.eqb_refl. Qed.
Lemma wrote_cons_ne k k' w b : k <> k' -> wrote k' (Batch (b_epoch b) false ((k, w) :: b_writes b)) = wrote k' b.
Proof.
  intros H. unfold wrote. cbn [b_writes alookup].
  destruct (k' =? k) eqn:E; [apply N.eqb_eq in E; congruence|reflexivity].
Qed.

Lemma inv_write s m hi b k w s' :
  Inv s m hi -> write s b k w = Some s' ->
  match alookup k hi with Some e => e <=? b | None => true end = true ->
  Inv s' ((k, w) :: m) ((k, b) :: hi).
Proof.
  intros [Ic Ip Is Ia Ih] Hw Hord. unfold write in Hw.
  destruct (find_batch b (pending s)) as [bt|] eqn:Hf; [|discriminate].
  destruct (upd_batch b (add_write k w) (pending s)) as [p'|] eqn:Hu; [|discriminate].
  destruct (upd_batch_split _ _ _ _ Hu) as (l1 & b0 & b' & l2 & Hp & Hp' & Hb0 & Hadd & Hfind).
  rewrite Hfind in Hf. inversion Hf; subst bt; clear Hf.
  unfold add_write in Hadd. destruct (b_sub b0); [discriminate|]. inversion Hadd; subst b'; clear Hadd.
  set (u := match alookup k (b_writes b0) with None => true | Some _ => false end) in Hw.
  assert (Hu' : b2z (wrote k b0) = (1 - b2z u)%Z).
  { unfold wrote, u. destruct (alookup k (b_writes b0)); reflexivity. }
  (* no younger live batch has written k *)
  assert (Hl2 : Forall (fun x => wrote k x = false) l2).
  { rewrite Hp in Ia. pose proof (asc_after _ _ _ _ _ Ia) as Hafter.
    rewrite Forall_forall in *. intros x Hx. destruct (wrote k x) eqn:W; [|reflexivity].
    destruct (Ih x k) as (e & He & Hle); [rewrite Hp; apply in_or_app; right; now right|exact W|].
    rewrite He in Hord. apply N.leb_le in Hord. specialize (Hafter x Hx). lia. }
  set (c' := match w with Some v => cache_insert k v u (cache s) | None => cache_remove k u (cache s) end) in Hw.
  assert (Hc' : pin_of k c' = (pin_of k (cache s) + b2z u)%Z /\
                (forall v p, alookup k c' = Some (v, p) -> v = w) /\
                forall k', k <> k' -> alookup k' c' = alookup k' (cache s)).
  { subst c'. destruct w as [v|].
    - destruct (cache_insert_spec k v u (cache s)) as (A & (p & B) & C). split; [exact A|split; [|exact C]].
      intros v0 q H. rewrite B in H. now inversion H.
    - destruct (cache_remove_spec k u (cache s)) as (A & B & C). split; [exact A|split; [exact B|exact C]]. }
  destruct Hc' as (Hpin & Hval & Hoth).
  inversion Hw; subst s'; clear Hw. constructor; cbn [cache pending notifyq store next_epoch].
  - intros k' v p H. destruct (N.eq_dec k k') as [<-|Hne].
    + rewrite mget_cons_eq. now apply (Hval v p).
    + rewrite mget_cons_ne by exact Hne. rewrite (Hoth k' Hne) in H. now apply (Ic k' v p).
  - intros k'. rewrite Hp'. rewrite cnt_pending_app. cbn [cnt_pending].
    specialize (Ip k'). rewrite Hp, cnt_pending_app in Ip. cbn [cnt_pending] in Ip.
    destruct (N.eq_dec k k') as [<-|Hne].
    + rewrite wrote_cons_eq. rewrite Hpin, Ip, Hu'. cbn [b2z]. lia.
    + rewrite (wrote_cons_ne k k' w b0 Hne). unfold pin_of. rewrite (Hoth k' Hne). exact Ip.
  - intros k'. rewrite Hp'. rewrite pend_val_app. cbn [pend_val].
    specialize (Is k'). rewrite Hp, pend_val_app in Is. cbn [pend_val] in Is.
    destruct (N.eq_dec k k') as [<-|Hne].
    + rewrite mget_cons_eq. rewrite (pend_val_none k l2 Hl2). cbn [b_writes alookup]. now rewrite N.eqb_refl.
    + rewrite mget_cons_ne by exact Hne. cbn [b_writes alookup].
      destruct (k' =? k) eqn:E; [apply N.eqb_eq in E; congruence|]. exact Is.
  - rewrite Hp'. rewrite Hp in Ia. eapply asc_replace; [|exact Ia]. reflexivity.
  - intros x k' Hin W. rewrite Hp' in Hin.
    assert (Hx : (exists y, In y (pending s) /\ wrote k' y = true /\ b_epoch x = b_epoch y) \/ (k' = k /\ b_epoch x = b)).
    { apply in_app_or in Hin. destruct Hin as [Hin|[Hin|Hin]].
      - left. exists x. split; [rewrite Hp; apply in_or_app; now left|split; [exact W|reflexivity]].
      - subst x. destruct (N.eq_dec k k') as [<-|Hne]; [right; now split|].
        left. exists b0. rewrite (wrote_cons_ne k k' w b0 Hne) in W.
        split; [rewrite Hp; apply in_or_app; right; now left|split; [exact W|reflexivity]].
      - left. exists x. split; [rewrite Hp; apply in_or_app; right; now right|split; [exact W|reflexivity]]. }
    cbn [alookup]. destruct (k' =? k) eqn:E.
    + apply N.eqb_eq in E. subst k'. exists b. split; [reflexivity|].
      destruct Hx as [(y & Hin' & W' & Hey)|[_ Hb]]; [|lia].
      destruct (Ih y k Hin' W') as (e & He & Hle). rewrite He in Hord. apply N.leb_le in Hord. lia.
    + destruct Hx as [(y & Hin' & W' & Hey)|[Hk _]].
      * rewrite Hey. now apply (Ih y k').
      * apply N.eqb_neq in E. congruence.
Qed.

(** * one step *)
Definition spec_map (m : list (key * option val)) (o : op) : list (key * option val) :=
  match o with Insert _ k v => (k, Some v) :: m | Remove _ k => (k, None) :: m | _ => m end.
Definition hi_upd (hi : list (key * N)) (o : op) : list (key * N) :=
  match write_of o with Some (b, k) => (k, b) :: hi | None => hi end.
Definition ord_ok (hi : list (key * N)) (o : op) : bool :=
  match write_of o with
  | Some (b, k) => match alookup k hi with Some e => e <=? b | None => true end
  | None => true
  end.

Lemma inv_step s m hi o s' out :
  Inv s m hi -> step s o = Some (s', out) -> ord_ok hi o = true ->
  Inv s' (spec_map m o) (hi_upd hi o) /\
  match o with Get k => out = Some (mget k m) | _ => out = None end.
Proof.
  intros HI Hs Ho. destruct o as [|b k v|b k|b|k| |b k|k]; cbn [step] in Hs.
  - (* NewBatch *)
    inversion Hs; subst s' out; clear Hs. split; [|reflexivity].
    destruct HI as [Ic Ip Is Ia Ih]. constructor; cbn [cache pending notifyq store next_epoch spec_map hi_upd write_of].
    + exact Ic.
    + intros k. rewrite cnt_pending_app. cbn. rewrite (Ip k). lia.
    + intros k. rewrite pend_val_app. cbn. exact (Is k).
    + now apply asc_snoc.
    + intros x k Hin W. apply in_app_or in Hin. destruct Hin as [Hin|[<-|[]]]; [now apply (Ih x k)|].
      discriminate W.
  - (* Insert *)
    destruct (write s b k (Some v)) as [s1|] eqn:W; [|discriminate]. inversion Hs; subst s' out; clear Hs.
    split; [|reflexivity]. cbn [spec_map hi_upd write_of]. eapply inv_write; eauto.
  - (* Remove *)
    destruct (write s b k None) as [s1|] eqn:W; [|discriminate]. inversion Hs; subst s' out; clear Hs.
    split; [|reflexivity]. cbn [spec_map hi_upd write_of]. eapply inv_write; eauto.
  - (* Submit *)
    destruct (upd_batch b mark_sub (pending s)) as [p'|] eqn:Hu; [|discriminate].
    inversion Hs; subst s' out; clear Hs. split; [|reflexivity].
    destruct (upd_batch_split _ _ _ _ Hu) as (l1 & b0 & b' & l2 & Hp & Hp' & Hb0 & Hm & _).
    unfold mark_sub in Hm. destruct (b_sub b0); [discriminate|]. inversion Hm; subst b'; clear Hm.
    destruct HI as [Ic Ip Is Ia Ih]. constructor; cbn [cache pending notifyq store next_epoch spec_map hi_upd write_of].
    + exact Ic.
    + intros k. specialize (Ip k). rewrite Hp, cnt_pending_app in Ip. rewrite Hp', cnt_pending_app. exact Ip.
    + intros k. specialize (Is k). rewrite Hp, pend_val_app in Is. rewrite Hp', pend_val_app. exact Is.
    + rewrite Hp'. rewrite Hp in Ia. eapply asc_replace; [|exact Ia]. reflexivity.
    + intros x k Hin W. rewrite Hp' in Hin. apply in_app_or in Hin.
      destruct Hin as [Hin|[<-|Hin]].
      * apply (Ih x k); [rewrite Hp; apply in_or_app; now left|exact W].
      * apply (Ih b0 k); [rewrite Hp; apply in_or_app; right; now left|exact W].
      * apply (Ih x k); [rewrite Hp; apply in_or_app; right; now right|exact W].
  - (* Get *)
    destruct (alookup k (cache s)) as [[v p]|] eqn:E.
    + inversion Hs; subst s' out; clear Hs. split; [exact HI|]. f_equal. exact (inv_cache _ _ _ HI k v p E).
    + inversion Hs; subst s' out; clear Hs.
      destruct HI as [Ic Ip Is Ia Ih].
      assert (Hst : mget k (store s) = mget k m).
      { specialize (Ip k). unfold pin_of in Ip. rewrite E in Ip.
        pose proof (cnt_pending_nonneg k (pending s)). pose proof (cnt_notify_nonneg k (notifyq s)).
        rewrite (Is k). rewrite (pend_val_none k (pending s)); [reflexivity|]. apply cnt_pending_zero. lia. }
      split; [|now rewrite Hst].
      constructor; cbn [cache pending notifyq store next_epoch spec_map hi_upd write_of].
      * intros k' v p H. destruct (N.eq_dec k k') as [<-|Hne].
        -- rewrite alookup_aset_eq in H. inversion H; subst. exact Hst.
        -- rewrite alookup_aset_ne in H by exact Hne. now apply (Ic k' v p).
      * intros k'. destruct (N.eq_dec k k') as [<-|Hne].
        -- rewrite pin_of_aset_eq. cbn [snd]. specialize (Ip k). unfold pin_of in Ip. now rewrite E in Ip.
        -- rewrite pin_of_aset_ne by exact Hne. exact (Ip k').
      * exact Is.
      * exact Ia.
      * exact Ih.
  - (* BgCommit *)
    destruct (pending s) as [|b r] eqn:Hp; [discriminate|]. destruct (b_sub b); [|discriminate].
    inversion Hs; subst s' out; clear Hs. split; [|reflexivity].
    destruct HI as [Ic Ip Is Ia Ih]. rewrite Hp in *.
    constructor; cbn [cache pending notifyq store next_epoch spec_map hi_upd write_of].
    + exact Ic.
    + intros k. specialize (Ip k). cbn [cnt_pending] in Ip.
      assert (Hn : cnt_notify k (match map fst (b_writes b) with [] => notifyq s | _ :: _ => notifyq s ++ [(b_epoch b, map fst (b_writes b))] end)
                   = (cnt_notify k (notifyq s) + b2z (wrote k b))%Z).
      { unfold wrote. rewrite <- has_key_map_fst. destruct (map fst (b_writes b)) as [|x xs] eqn:M.
        - cbn. lia.
        - rewrite cnt_notify_app. cbn [cnt_notify]. lia. }
      rewrite Hn, Ip. lia.
    + intros k. specialize (Is k). cbn [pend_val] in Is. rewrite Is. rewrite mget_app.
      destruct (pend_val k r); reflexivity.
    + cbn [asc] in Ia. destruct Ia as [_ Ia]. eapply asc_weaken; [|exact Ia]. lia.
    + intros x k Hin W. apply (Ih x k); [now right|exact W].
  - (* BgNotify *)
    destruct (notify_one b k (notifyq s)) as [q'|] eqn:Hn; [|discriminate].
    inversion Hs; subst s' out; clear Hs. split; [|reflexivity].
    destruct (notify_one_cnt _ _ _ _ Hn) as [N1 N2].
    destruct (cache_unpin_spec k (cache s)) as (U1 & U2 & U3).
    destruct HI as [Ic Ip Is Ia Ih].
    constructor; cbn [cache pending notifyq store next_epoch spec_map hi_upd write_of].
    + intros k' v p H. destruct (N.eq_dec k k') as [<-|Hne].
      * destruct (alookup k (cache s)) as [[v0 p0]|] eqn:E.
        -- rewrite (U1 v0 p0 eq_refl) in H. inversion H; subst. now apply (Ic k v p0).
        -- rewrite (U2 eq_refl), E in H. discriminate.
      * rewrite (U3 k' Hne) in H. now apply (Ic k' v p).
    + intros k'. destruct (N.eq_dec k k') as [<-|Hne].
      * rewrite N1. specialize (Ip k). unfold pin_of in *.
        destruct (alookup k (cache s)) as [[v0 p0]|] eqn:E.
        -- rewrite (U1 v0 p0 eq_refl). lia.
        -- exfalso. pose proof (cnt_pending_nonneg k (pending s)). pose proof (cnt_notify_nonneg k q'). lia.
      * rewrite (N2 k' Hne). unfold pin_of. rewrite (U3 k' Hne). exact (Ip k').
    + exact Is.
    + exact Ia.
    + exact Ih.
  - (* Evict *)
    destruct (alookup k (cache s)) as [[v p]|] eqn:E; [|discriminate].
    destruct (p <=? 0)%Z eqn:P; [|discriminate]. inversion Hs; subst s' out; clear Hs. split; [|reflexivity].
    destruct HI as [Ic Ip Is Ia Ih].
    constructor; cbn [cache pending notifyq store next_epoch spec_map hi_upd write_of].
    + intros k' v' p' H. destruct (N.eq_dec k k') as [<-|Hne].
      * rewrite alookup_aremove_eq in H. discriminate.
      * rewrite alookup_aremove_ne in H by exact Hne. now apply (Ic k' v' p').
    + intros k'. destruct (N.eq_dec k k') as [<-|Hne].
      * unfold pin_of. rewrite alookup_aremove_eq. specialize (Ip k). unfold pin_of in Ip. rewrite E in Ip.
        pose proof (cnt_pending_nonneg k (pending s)). pose proof (cnt_notify_nonneg k (notifyq s)). lia.
      * unfold pin_of. rewrite alookup_aremove_ne by exact Hne. exact (Ip k').
    + exact Is.
    + exact Ia.
    + exact Ih.
Qed.

Lemma inv_init : Inv init [] [].
Proof.
  constructor; cbn; try discriminate; try reflexivity; try lia; try tauto.
Qed.

Lemma ryw_gen ops : forall s m hi s' outs,
  Inv s m hi -> run s ops = Some (s', outs) -> ordered hi ops = true -> outs = spec m ops.
Proof.
  induction ops as [|o r IH]; intros s m hi s' outs HI Hr Ho; cbn [run] in Hr.
  - inversion Hr; reflexivity.
  - destruct (step s o) as [[s1 out]|] eqn:Hs; [|discriminate].
    destruct (run s1 r) as [[s2 outs2]|] eqn:Hr2; [|discriminate]. inversion Hr; subst s' outs; clear Hr.
    assert (Hok : ord_ok hi o = true /\ ordered (hi_upd hi o) r = true).
    { cbn [ordered] in Ho. unfold ord_ok, hi_upd. destruct (write_of o) as [[b k]|]; [|auto].
      apply andb_prop in Ho. exact Ho. }
    destruct Hok as [Hok1 Hok2].
    destruct (inv_step _ _ _ _ _ _ HI Hs Hok1) as [HI' Hout].
    specialize (IH _ _ _ _ _ HI' Hr2 Hok2).
    destruct o; cbn [spec spec_map] in *; subst out; try exact IH. now rewrite IH.
Qed.

(** Every [Get] of every enabled, epoch-ordered operation sequence returns the latest write. *)
Theorem wide_ryw : forall ops s outs,
  run init ops = Some (s, outs) -> ordered [] ops = true -> outs = spec [] ops.
Proof. intros ops s outs. apply ryw_gen. exact inv_init. Qed.

(** The hypothesis is needed: two open batches, the younger one writes first, the older
    one second (issue order 1 then 2, store order 2 then 1); after both are durable and the
    entry has been evicted the map answers 1 although 2 was written last. *)
Definition unordered_witness : list op :=
  [NewBatch; NewBatch; Insert 1 7 1; Insert 0 7 2; Submit 0; Submit 1; BgCommit; BgCommit;
   BgNotify 0 7; BgNotify 1 7; Evict 7; Get 7].
Theorem wide_unordered_refuted :
  exists ops s outs, run init ops = Some (s, outs) /\ ordered [] ops = false /\ outs <> spec [] ops.
Proof.
  exists unordered_witness. eexists. eexists. split; [vm_compute; reflexivity|]. split; [reflexivity|].
  vm_compute. discriminate.
Qed.

(** The hypotheses are satisfiable by a history that exercises every kind of step:
    a negative entry, a read inside the commit window, eviction and reload. *)
Definition sample_history : list op :=
  [NewBatch; Insert 0 1 10; Insert 0 2 20; Get 1; NewBatch; Remove 1 1; Get 1; Submit 0; BgCommit;
   Get 1; Get 3; Evict 3; BgNotify 0 2; BgNotify 0 1; Evict 2; Get 2; Submit 1; BgCommit; Get 1;
   BgNotify 1 1; Evict 1; Get 1].
Example sample_history_ok :
  exists s, run init sample_history = Some (s, [Some 10; None; None; None; Some 20; None; None])
            /\ ordered [] sample_history = true.
Proof. eexists. split; vm_compute; reflexivity. Qed.
