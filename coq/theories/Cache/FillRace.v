(** C09 — the miss path of [WideColumnCache::get] is not atomic: [init()] reads the store,
    then [tiny_lfu.entry] installs the answer if the slot is vacant.  Here the miss path is
    split into [LoadRead] and [LoadInstall], and the steps of other threads (and of the
    background) may come in between.  The single-flight table only excludes a second
    *loader* of the same key; writers, the commit thread, the after-commit thread and the
    eviction policy are not excluded. *)
From QV Require Import Common.Prelude Cache.Wide.
Open Scope N_scope.

Inductive cop :=
| Seq (o : op)                 (* any step of the sequential model *)
| LoadRead (t : N) (k : key)   (* thread t missed on k and evaluates init(): reads the store *)
| LoadInstall (t : N) (k : key)(* thread t: entry(k): Vacant => insert what it read; then the fast path answers *).

Record cst := CSt { base : st; inflight : list (N * (key * option val)) }.
Definition cinit : cst := CSt init [].

Definition cstep (s : cst) (o : cop) : option (cst * option (option val)) :=
  match o with
  | Seq o' =>
      match step (base s) o' with
      | Some (b', out) => Some (CSt b' (inflight s), out)
      | None => None
      end
  | LoadRead t k =>
      match alookup k (cache (base s)), alookup t (inflight s) with
      | None, None => Some (CSt (base s) ((t, (k, mget k (store (base s)))) :: inflight s), None)
      | _, _ => None                       (* only a miss starts a load; one load per thread *)
      end
  | LoadInstall t k =>
      match alookup t (inflight s) with
      | Some (k', v) =>
          if k' =? k then
            let b := base s in
            let c' := match alookup k (cache b) with
                      | None => aset k (v, 0%Z) (cache b)     (* Vacant: insert {value, pin 0} *)
                      | Some _ => cache b                     (* Occupied: keep the explicit value *)
                      end in
            let ans := match alookup k c' with Some (w, _) => w | None => None end in
            Some (CSt (St (store b) c' (next_epoch b) (pending b) (notifyq b)) (aremove t (inflight s)), Some ans)
          else None
      | None => None
      end
  end.

Fixpoint crun (s : cst) (ops : list cop) : option (cst * list (option val)) :=
  match ops with
  | [] => Some (s, [])
  | o :: r =>
      match cstep s o with
      | None => None
      | Some (s', out) =>
          match crun s' r with
          | None => None
          | Some (s'', outs) => Some (s'', match out with Some x => x :: outs | None => outs end)
          end
      end
  end.

(** the sequential operations of a concurrent history, for [spec] and [ordered];
    a completed load counts as a [Get] *)
Definition seq_of (o : cop) : list op :=
  match o with Seq o' => [o'] | LoadRead _ _ => [] | LoadInstall _ k => [Get k] end.

(** F8: reader 1 misses on key 7 and reads "absent"; a writer inserts 1, the batch becomes
    durable and is notified, the entry is evicted; the reader installs "absent".  The load's
    own answer may be either (it overlaps the write); the [Get] issued afterwards must
    return 1 and returns "absent". *)
Definition fill_race_witness : list cop :=
  [LoadRead 1 7; Seq NewBatch; Seq (Insert 0 7 1); Seq (Submit 0); Seq BgCommit; Seq (BgNotify 0 7);
   Seq (Evict 7); LoadInstall 1 7; Seq (Get 7)].

Theorem wide_concurrent_fill_refuted :
  exists ops s outs,
    crun cinit ops = Some (s, outs) /\ ordered [] (flat_map seq_of ops) = true /\
    last outs None <> last (spec [] (flat_map seq_of ops)) None.
Proof.
  exists fill_race_witness. eexists. eexists. split; [vm_compute; reflexivity|]. split; [reflexivity|].
  vm_compute. discriminate.
Qed.
