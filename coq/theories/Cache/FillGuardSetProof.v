(** C09 — the guarded miss path of [CacheKeyOfSetMap::get_entry] (model: FillGuardSet.v): proofs.

    - [set_fill_unguarded_refuted]: without the guard ([guarded = false], the code before commit
      597cc55) a set that misses a staged operation is installed.
    - [set_guard_ryw]: with the guard and the order "append to the log, count, look for the
      cached set" of [apply_op], every [get] that does not overlap a write to its key yields
      the reference set, for every interleaving of writers (three steps per operation),
      loaders (five steps), the commit thread, the after-commit thread and the two eviction
      policies. *)
From QV Require Import Common.Prelude Cache.Wide Cache.WideProof Cache.SetLog Cache.SetLogProof
  Cache.SetCache Cache.SetCacheProof Cache.FillGuard Cache.FillGuardProof Cache.FillGuardSet.
Open Scope N_scope.

(** * Witnesses *)
Definition gouts (r : option (gsst * list (list N))) : option (list (list N)) :=
  match r with Some (_, o) => Some o | None => None end.

Theorem set_fill_unguarded_refuted :
  exists thr grp ops s outs,
    gsrun thr grp false false gsinit ops = Some (s, outs) /\ sordered [] (flat_map qseq_of ops) = true /\
    same_sets outs (sspec [] (flat_map qseq_of ops)) = false.
Proof.
  exists 1024, grp16, set_race_witness. eexists. eexists. split; [vm_compute; reflexivity|]. split; reflexivity.
Qed.

(** the same history with the guard: the install is refused, the answer is right *)
Example set_race_witness_guarded :
  gouts (gsrun 1024 grp16 true false gsinit set_race_witness) = Some [[5]] /\
  sspec [] (flat_map qseq_of set_race_witness) = [[5]].
Proof. split; vm_compute; reflexivity. Qed.

(** a history with a refused and two accepted installs (one of them while an operation is
    staged and not yet counted), with the real threshold and with a spilling one *)
Example set_retry_history_ok :
  gouts (gsrun 1024 grp16 true false gsinit set_retry_history) = Some [[5; 6]; []; [6]; [6]; [6]] /\
  gouts (gsrun 2 (fun _ => 0) true false gsinit set_retry_history) = Some [[5; 6]; []; [6]; [6]; [6]] /\
  sspec [] (flat_map qseq_of set_retry_history) = [[5; 6]; []; [6]; [6]; [6]] /\
  sordered [] (flat_map qseq_of set_retry_history) = true.
Proof. split; [|split; [|split]]; vm_compute; reflexivity. Qed.
(** after the first [QInstall] (step 9) nothing is cached; after the second and third
    (step 20) both sets are, and 6 is still on its way *)
Example set_retry_history_states :
  (exists s outs, gsrun 1024 grp16 true false gsinit (firstn 9 set_retry_history) = Some (s, outs) /\
                  scache (sbase s) = []) /\
  (exists s outs, gsrun 1024 grp16 true false gsinit (firstn 20 set_retry_history) = Some (s, outs) /\
                  scache (sbase s) = [(1, InMem []); (0, InMem [5])] /\ omid s = [Mid 0 0 6 true false]).
Proof. split; eexists; eexists; (split; [vm_compute; reflexivity|]); [reflexivity|split; reflexivity]. Qed.

(** writers overlapping on one element: the cached set answers [5], after an eviction the
    same [get] answers [] with no write in between (the reference, by staging order, is []) *)
Example overlap_witness_diverges :
  gouts (gsrun 1024 grp16 true true gsinit overlap_witness) = Some [[]; [5]; []] /\
  sspec [] (flat_map qseq_of overlap_witness) = [[]; []; []] /\
  sordered [] (flat_map qseq_of overlap_witness) = true /\
  gsrun 1024 grp16 true false gsinit overlap_witness = None.
Proof. split; [|split; [|split]]; vm_compute; reflexivity. Qed.

(** * Operations in the middle *)
Lemma mid_on_key_false k l : mid_on_key k l = false -> forall m, In m l -> m_key m <> k.
Proof.
  unfold mid_on_key. intros H m Hin E. assert (X : existsb (fun m => m_key m =? k) l = true).
  { apply existsb_exists. exists m. split; [exact Hin|now apply N.eqb_eq]. }
  congruence.
Qed.
Lemma mid_on_elem_false k x l : mid_on_elem k x l = false -> forall m, In m l -> ~ (m_key m = k /\ m_elem m = x).
Proof.
  unfold mid_on_elem. intros H m Hin [E1 E2].
  assert (X : existsb (fun m => (m_key m =? k) && (m_elem m =? x)) l = true).
  { apply existsb_exists. exists m. split; [exact Hin|]. apply andb_true_intro. split; now apply N.eqb_eq. }
  congruence.
Qed.
Lemma mid_of_batch_none b l : mid_of_batch b l = None -> forall m, In m l -> m_batch m <> b.
Proof.
  unfold mid_of_batch. intros H m Hin E. pose proof (find_none _ _ H m Hin) as X. cbn in X.
  apply N.eqb_neq in X. contradiction.
Qed.
Lemma mid_of_batch_some b l m : mid_of_batch b l = Some m -> In m l /\ m_batch m = b.
Proof. unfold mid_of_batch. intros H. apply find_some in H. destruct H as [H1 H2]. now apply N.eqb_eq in H2. Qed.
Lemma remove_mid_In b l m : In m (remove_mid b l) <-> In m l /\ m_batch m <> b.
Proof.
  unfold remove_mid. rewrite filter_In. rewrite negb_true_iff, N.eqb_neq. tauto.
Qed.

Definition exempt (k : key) (x : N) (om : list midop) : Prop := exists b i, In (Mid b k x i false) om.
Definition midon (k : key) (x : N) (om : list midop) : Prop := exists b i f, In (Mid b k x i f) om.
Definition mid_uniq (om : list midop) : Prop :=
  forall m1 m2, In m1 om -> In m2 om ->
                (m_key m1 = m_key m2 /\ m_elem m1 = m_elem m2) \/ m_batch m1 = m_batch m2 -> m1 = m2.

Lemma exempt_midon k x om : exempt k x om -> midon k x om.
Proof. intros (b & i & H). now exists b, i, false. Qed.

(** * What a loader knows *)
Section Proof.
Variable thr : N.
Variable grp : key -> N.

Definition snap_ok (om : list midop) (st : list (key * list N)) (lg : list (key * (list entry * Z)))
           (m : list (key * list N)) (k : key) (a r : list N) : Prop :=
  (forall x, In x a -> ~ In x r) /\
  forall x, ~ exempt k x om ->
    (In x a -> In x (sget k m)) /\ (In x r -> ~ In x (sget k m)) /\
    (~ In x a -> ~ In x r ->
       (In x (sget k st) <-> In x (sget k m)) /\ forall e, In e (logh k lg) -> e_elem e <> x).
Definition entry_ok (om : list midop) (m : list (key * list N)) (k : key) (e : centry) : Prop :=
  match e with
  | InMem set => forall x, ~ exempt k x om -> (In x set <-> In x (sget k m))
  | TooLarge => True
  end.
Definition pguard (wc : list (N * N)) (k : key) (c : N) (P : Prop) : Prop :=
  c <= count_of (grp k) wc /\ (count_of (grp k) wc = c -> P).
Definition sphase_ok wc om st lg m (ph : sphase) : Prop :=
  match ph with
  | PStarted k c => c <= count_of (grp k) wc
  | PSnapped k c a r => pguard wc k c (snap_ok om st lg m k a r)
  | PMissed k c a r => pguard wc k c (snap_ok om st lg m k a r)
  | PScanned k c e => pguard wc k c (entry_ok om m k e)
  end.

Record GSInv (s : gsst) (m : list (key * list N)) (hi : list (key * N)) : Prop := {
  q_base : SInv (set_cache [] (sbase s)) m hi;
  q_cache : forall k set, alookup k (scache (sbase s)) = Some (InMem set) ->
                          forall x, ~ midon k x (omid s) -> (In x set <-> In x (sget k m));
  q_mid : forall b k x i f, In (Mid b k x i f) (omid s) -> (In x (sget k m) <-> i = true);
  q_uniq : mid_uniq (omid s);
  q_loads : forall t ph, alookup t (sloads s) = Some ph ->
                         sphase_ok (ocount s) (omid s) (sstore (sbase s)) (slogs (sbase s)) m ph
}.

Lemma pguard_mono wc k c (P P' : Prop) : (P -> P') -> pguard wc k c P -> pguard wc k c P'.
Proof. intros H [H1 H2]. split; auto. Qed.
Lemma sphase_ok_mono wc om st lg m om' st' lg' m' ph :
  (forall k a r, snap_ok om st lg m k a r -> snap_ok om' st' lg' m' k a r) ->
  (forall k e, entry_ok om m k e -> entry_ok om' m' k e) ->
  sphase_ok wc om st lg m ph -> sphase_ok wc om' st' lg' m' ph.
Proof.
  intros H1 H2. destruct ph as [k c|k c a r|k c a r|k c e]; cbn [sphase_ok]; [tauto| | |];
    apply pguard_mono; auto.
Qed.
Lemma sphase_ok_bump wc om st lg m om' k0 ph :
  (forall k a r, grp k <> grp k0 -> snap_ok om st lg m k a r -> snap_ok om' st lg m k a r) ->
  (forall k e, grp k <> grp k0 -> entry_ok om m k e -> entry_ok om' m k e) ->
  sphase_ok wc om st lg m ph -> sphase_ok (bump (grp k0) wc) om' st lg m ph.
Proof.
  intros H1 H2.
  assert (G : forall k c (P P' : Prop), (grp k <> grp k0 -> P -> P') -> pguard wc k c P -> pguard (bump (grp k0) wc) k c P').
  { intros k c P P' HP [Hle HG]. unfold pguard. destruct (N.eq_dec (grp k0) (grp k)) as [E|E].
    - rewrite <- E, count_bump_eq. rewrite <- E in Hle. split; [lia|]. intros Hc. lia.
    - rewrite (count_bump_ne _ _ _ E). split; [exact Hle|]. intros Hc. apply HP; [congruence|auto]. }
  destruct ph as [k c|k c a r|k c a r|k c e]; cbn [sphase_ok].
  - intros Hle. destruct (N.eq_dec (grp k0) (grp k)) as [E|E].
    + rewrite <- E, count_bump_eq. rewrite <- E in Hle. lia.
    + now rewrite (count_bump_ne _ _ _ E).
  - apply G. intros; now apply H1.
  - apply G. intros; now apply H1.
  - apply G. intros; now apply H2.
Qed.

(** the exempt elements only grow / stay *)
Lemma snap_ok_exempt om om' st lg m k a r :
  (forall x, exempt k x om -> exempt k x om') -> snap_ok om st lg m k a r -> snap_ok om' st lg m k a r.
Proof. intros H [D S]. split; [exact D|]. intros x Hx. apply S. intros E. apply Hx. now apply H. Qed.
Lemma entry_ok_exempt om om' m k e :
  (forall x, exempt k x om -> exempt k x om') -> entry_ok om m k e -> entry_ok om' m k e.
Proof. intros H. destruct e as [set|]; cbn [entry_ok]; [|auto]. intros S x Hx. apply S. intros E. apply Hx. now apply H. Qed.

(** * Facts about the sequential model *)
Lemma sstage_swrite s b k x i s' :
  sstage s b k x i = Some s' ->
  swrite thr (set_cache [] s) b k x i = Some (set_cache [] s') /\
  sstore s' = sstore s /\ scache s' = scache s /\
  exists u, slogs s' = wlogs k (Entry b (sseq s) i x) u (slogs s).
Proof.
  unfold sstage, swrite. cbn [set_cache spending slogs scache sseq sstore snext_epoch snotifyq alookup].
  destruct (sfind_batch b (spending s)) as [bt|]; [|discriminate].
  destruct (supd_batch b (sadd_write k x i) (spending s)) as [p'|]; [|discriminate].
  intros H. inversion H; subst s'; clear H. cbn [set_cache spending slogs scache sseq sstore snext_epoch snotifyq].
  split; [reflexivity|]. split; [reflexivity|]. split; [reflexivity|].
  exists (match alookup k (sb_writes bt) with None => true | Some _ => false end). reflexivity.
Qed.

Lemma sread_shape s k :
  sread thr true true s k =
  let '(added, removed) := snap_lww (logh k (slogs s)) in
  let scan := sget k (sstore s) in
  match alookup k (scache s) with
  | Some (InMem set) => (scache s, set)
  | Some TooLarge => (scache s, stream_iter scan added removed)
  | None =>
      (aset k (build thr scan added removed) (scache s),
       if thr <? N.of_nat (length scan)
       then spill_iter true (S (length scan + length added)) (firstn (N.to_nat (thr + 1)) scan)
                       (skipn (N.to_nat (thr + 1)) scan) added removed
       else fold_left (fun acc x => del x acc) removed (fold_left (fun acc x => ins x acc) added scan))
  end.
Proof.
  unfold sread. rewrite log_snapshot_lww. destruct (snap_lww (logh k (slogs s))) as [a r].
  cbn zeta. destruct (alookup k (scache s)) as [[set|]|]; try reflexivity.
  unfold build. destruct (thr <? N.of_nat (length (sget k (sstore s)))); reflexivity.
Qed.

(** the answer of an uninterrupted [get] and the cache it leaves *)
Lemma gs_get s m hi k c' out :
  GSInv s m hi -> (forall mo, In mo (omid s) -> m_key mo <> k) ->
  sread thr true true (sbase s) k = (c', out) ->
  (forall x, In x out <-> In x (sget k m)) /\
  (forall k' set, alookup k' c' = Some (InMem set) ->
                  forall x, ~ midon k' x (omid s) -> (In x set <-> In x (sget k' m))).
Proof.
  intros [HB HC HM HU HL] Hnomid Hr.
  assert (Hnm : forall x, ~ midon k x (omid s)).
  { intros x (b & i & f & Hin). exact (Hnomid _ Hin eq_refl). }
  destruct (alookup k (scache (sbase s))) as [[set|]|] eqn:C.
  - (* hit, in memory *)
    rewrite sread_shape, C in Hr. destruct (snap_lww (logh k (slogs (sbase s)))) as [a r].
    inversion Hr; subst c' out. split; [|exact HC]. intros x. apply (HC k set C x (Hnm x)).
  - (* hit, too large: streamed *)
    set (s1 := set_cache [(k, TooLarge)] (sbase s)).
    assert (H1 : SInv s1 m hi).
    { apply (sinv_cache_set _ _ _ [(k, TooLarge)] HB). intros k' set H. cbn [alookup] in H.
      destruct (k' =? k); discriminate. }
    assert (Hr1 : sread thr true true s1 k = ([(k, TooLarge)], out)).
    { rewrite sread_shape in Hr |- *. cbn [s1 set_cache slogs sstore scache alookup]. rewrite N.eqb_refl.
      rewrite C in Hr. destruct (snap_lww (logh k (slogs (sbase s)))) as [a r]. inversion Hr; reflexivity. }
    destruct (sinv_get _ _ _ _ _ _ _ H1 Hr1) as [_ Hout].
    rewrite sread_shape, C in Hr. destruct (snap_lww (logh k (slogs (sbase s)))) as [a r].
    inversion Hr; subst. split; [exact Hout|exact HC].
  - (* miss *)
    set (s0 := set_cache [] (sbase s)).
    assert (Hr0 : exists e, sread thr true true s0 k = (aset k e [], out) /\ c' = aset k e (scache (sbase s))).
    { rewrite sread_shape in Hr |- *. cbn [s0 set_cache slogs sstore scache alookup]. rewrite C in Hr.
      destruct (snap_lww (logh k (slogs (sbase s)))) as [a r]. cbn zeta in *.
      eexists. inversion Hr; subst. split; reflexivity. }
    destruct Hr0 as (e & Hr0 & ->).
    destruct (sinv_get _ _ _ _ _ _ _ HB Hr0) as [H1 Hout]. split; [exact Hout|].
    intros k' set H x Hx. destruct (N.eq_dec k k') as [<-|Hne].
    + rewrite alookup_aset_eq in H. inversion H; subst e.
      apply (si_cache _ _ _ H1 k set). cbn [set_cache scache]. apply alookup_aset_eq.
    + rewrite alookup_aset_ne in H by exact Hne. now apply (HC k' set H x).
Qed.

(** * One step *)
Definition qmap (m : list (key * list N)) (o : gsop) : list (key * list N) :=
  match qop_of o with Some o' => smap m o' | None => m end.
Definition qhi (hi : list (key * N)) (o : gsop) : list (key * N) :=
  match qop_of o with Some o' => shi_upd hi o' | None => hi end.
Definition qord (hi : list (key * N)) (o : gsop) : bool :=
  match qop_of o with Some o' => sord_ok hi o' | None => true end.

Lemma gsinv_seq s m hi o s' out :
  GSInv s m hi -> gsstep thr grp true false s (QSeq o) = Some (s', out) ->
  GSInv s' m hi /\
  match o with
  | SGet k => exists l, out = Some l /\ forall x, In x l <-> In x (sget k m)
  | _ => out = None
  end.
Proof.
  intros HI Hs. pose proof HI as [HB HC HM HU HL]. cbn [gsstep] in Hs.
  destruct o as [|b k x|b k x|b|k| |b k|k|k]; try discriminate Hs.
  - (* SNew *)
    cbn [sstep] in Hs. inversion Hs; subst s' out; clear Hs. split; [|reflexivity].
    constructor; cbn [sbase ocount omid sloads scache sstore slogs]; auto.
    apply sinv_new in HB. exact HB.
  - (* SSub *)
    destruct (mid_of_batch b (omid s)); [discriminate|]. cbn [sstep] in Hs.
    destruct (supd_batch b smark_sub (spending (sbase s))) as [p'|] eqn:U; [|discriminate].
    inversion Hs; subst s' out; clear Hs. split; [|reflexivity].
    constructor; cbn [sbase ocount omid sloads scache sstore slogs]; auto.
    exact (sinv_sub _ _ _ b p' HB U).
  - (* SGet *)
    destruct (mid_on_key k (omid s)) eqn:Mk; [discriminate|]. cbn [negb sstep] in Hs.
    destruct (sread thr true true (sbase s) k) as [c' l] eqn:R. inversion Hs; subst s' out; clear Hs.
    destruct (gs_get _ _ _ _ _ _ HI (mid_on_key_false _ _ Mk) R) as [Hout Hc]. split; [|now exists l].
    constructor; cbn [sbase ocount omid sloads scache sstore slogs]; auto.
  - (* SCommit *)
    cbn [sstep] in Hs. destruct (spending (sbase s)) as [|b r] eqn:P; [discriminate|].
    destruct (sb_sub b); [|discriminate]. inversion Hs; subst s' out; clear Hs. split; [|reflexivity].
    assert (Hst : forall k x, (forall e, In e (logh k (slogs (sbase s))) -> e_elem e <> x) ->
                    (In x (sget k (commit_store (sb_writes b) (sstore (sbase s)))) <-> In x (sget k (sstore (sbase s))))).
    { intros k x Hno. rewrite commit_store_get. destruct (alookup k (sb_writes b)) as [ops|] eqn:A; [|tauto].
      rewrite apply_ops_In. destruct (alookup x ops) as [i|] eqn:B; [|tauto]. exfalso.
      destruct (si_plog _ _ _ HB b k x i) as (e & He & _ & Hx).
      - cbn [set_cache spending]. rewrite P. now left.
      - unfold batch_op. now rewrite A.
      - exact (Hno e He Hx). }
    constructor; cbn [sbase ocount omid sloads scache sstore slogs]; auto.
    + exact (sinv_commit _ _ _ b r HB P).
    + intros t ph Hl. eapply sphase_ok_mono; [| |exact (HL t ph Hl)]; [|auto].
      intros k a r0 [D S]. split; [exact D|]. intros x Hx. destruct (S x Hx) as (S1 & S2 & S3).
      split; [exact S1|]. split; [exact S2|]. intros Ha Hr. destruct (S3 Ha Hr) as [S4 S5]. split; [|exact S5].
      rewrite (Hst k x S5). exact S4.
  - (* SNotify *)
    cbn [sstep] in Hs. destruct (notify_one b k (snotifyq (sbase s))) as [q'|] eqn:Nq; [|discriminate].
    inversion Hs; subst s' out; clear Hs. split; [|reflexivity].
    pose proof (sinv_notify _ _ _ b k q' HB Nq) as HB'. cbn [set_cache slogs sstore scache snext_epoch sseq spending] in HB'.
    constructor; cbn [sbase ocount omid sloads scache sstore slogs]; auto.
    intros t ph Hl. eapply sphase_ok_mono; [| |exact (HL t ph Hl)]; [|auto].
    intros k' a r [D S]. split; [exact D|]. intros x Hx. destruct (S x Hx) as (S1 & S2 & S3).
    split; [exact S1|]. split; [exact S2|]. intros Ha Hr. destruct (S3 Ha Hr) as [S4 S5]. split; [exact S4|].
    intros e He. apply S5. revert He. destruct (alookup k (slogs (sbase s))) as [[h d]|] eqn:E; [|auto].
    destruct (N.eq_dec k k') as [<-|Hne].
    + rewrite logh_aset_eq. unfold logh. rewrite E.
      pose proof (si_root _ _ _ HB k) as Hroot. cbn [set_cache slogs] in Hroot. unfold logh in Hroot. rewrite E in Hroot.
      destruct (flush_dichotomy b h Hroot) as [[F _]|[F _]]; rewrite F; [intros []|auto].
    + now rewrite logh_aset_ne.
  - (* SEvict *)
    cbn [sstep] in Hs. destruct (alookup k (scache (sbase s))) eqn:C; [|discriminate].
    inversion Hs; subst s' out; clear Hs. split; [|reflexivity].
    constructor; cbn [sbase ocount omid sloads scache sstore slogs]; auto.
    intros k' set H x Hx. destruct (N.eq_dec k k') as [<-|Hne].
    + rewrite alookup_aremove_eq in H. discriminate.
    + rewrite alookup_aremove_ne in H by exact Hne. now apply (HC k' set H x).
  - (* SEvictLog *)
    cbn [sstep] in Hs. destruct (alookup k (slogs (sbase s))) as [[h d]|] eqn:E; [|discriminate].
    destruct (d =? 0)%Z eqn:D0; [|discriminate]. apply Z.eqb_eq in D0. subst d.
    inversion Hs; subst s' out; clear Hs. split; [|reflexivity].
    constructor; cbn [sbase ocount omid sloads scache sstore slogs]; auto.
    + exact (sinv_evictlog _ _ _ k h HB E).
    + intros t ph Hl. eapply sphase_ok_mono; [| |exact (HL t ph Hl)]; [|auto].
      intros k' a r [D S]. split; [exact D|]. intros x Hx. destruct (S x Hx) as (S1 & S2 & S3).
      split; [exact S1|]. split; [exact S2|]. intros Ha Hr. destruct (S3 Ha Hr) as [S4 S5]. split; [exact S4|].
      intros e He. apply S5. destruct (N.eq_dec k k') as [<-|Hne].
      * rewrite logh_aremove_eq in He. destruct He.
      * now rewrite logh_aremove_ne in He.
Qed.

Lemma gsinv_stage s m hi b k x i s' out :
  GSInv s m hi -> gsstep thr grp true false s (QStage b k x i) = Some (s', out) ->
  match alookup k hi with Some e => e <=? b | None => true end = true ->
  GSInv s' (smap1 m k x i) ((k, b) :: hi) /\ out = None.
Proof.
  intros [HB HC HM HU HL] Hs Hord. cbn [gsstep] in Hs.
  cbn [negb andb] in Hs. destruct (mid_on_elem k x (omid s)) eqn:Mk; [discriminate|].
  destruct (mid_of_batch b (omid s)) eqn:Mb; [discriminate|].
  destruct (sstage (sbase s) b k x i) as [b'|] eqn:St; [|discriminate].
  inversion Hs; subst s' out; clear Hs. split; [|reflexivity].
  pose proof (mid_on_elem_false _ _ _ Mk) as Hk. pose proof (mid_of_batch_none _ _ Mb) as Hb.
  destruct (sstage_swrite _ _ _ _ _ _ St) as (Hsw & Hst & Hca & u & Hlg).
  set (e := Entry b (sseq (sbase s)) i x) in *.
  destruct (wlogs_spec k e u (slogs (sbase s))) as (WL1 & _ & WL3).
  assert (Hex : forall k' x', exempt k' x' (omid s) -> exempt k' x' (Mid b k x i false :: omid s)).
  { intros k' x' (b1 & i1 & H). exists b1, i1. now right. }
  constructor; cbn [sbase ocount omid sloads].
  - exact (sinv_write _ _ _ _ _ _ _ _ _ HB Hsw Hord).
  - rewrite Hca. intros k' set H x' Hx'.
    assert (Hx0 : ~ midon k' x' (omid s)).
    { intros (b1 & i1 & f1 & H1). apply Hx'. exists b1, i1, f1. now right. }
    rewrite (HC k' set H x' Hx0). destruct (N.eq_dec k k') as [<-|Hnk].
    + symmetry. apply smap1_ne_x. intros <-. apply Hx'. exists b, i, false. now left.
    + now rewrite (smap1_ne_k m k k' x i Hnk).
  - intros b1 k1 x1 i1 f1 [H|H].
    + inversion H; subst. apply smap1_eq_x.
    + rewrite <- (HM _ _ _ _ _ H). destruct (N.eq_dec k k1) as [<-|Hne].
      * apply smap1_ne_x. intros <-. exact (Hk _ H (conj eq_refl eq_refl)).
      * now rewrite (smap1_ne_k m k k1 x i Hne).
  - intros m1 m2 [<-|H1] [<-|H2] Hor; [reflexivity| | |now apply HU]; exfalso; cbn [m_key m_batch] in Hor.
    + destruct Hor as [[E1 E2]|E]; [exact (Hk _ H2 (conj (eq_sym E1) (eq_sym E2)))|exact (Hb _ H2 (eq_sym E))].
    + destruct Hor as [[E1 E2]|E]; [exact (Hk _ H1 (conj E1 E2))|exact (Hb _ H1 E)].
  - intros t ph Hl. rewrite Hst, Hlg. eapply sphase_ok_mono; [| |exact (HL t ph Hl)].
    + intros k' a r [D S]. split; [exact D|]. intros x' Hx'.
      assert (Hx0 : ~ exempt k' x' (omid s)) by (intros E; apply Hx'; now apply Hex).
      destruct (S x' Hx0) as (S1 & S2 & S3).
      destruct (N.eq_dec k k') as [<-|Hnk].
      * assert (Hnx : x <> x'). { intros <-. apply Hx'. exists b, i. now left. }
        pose proof (smap1_ne_x m k x x' i Hnx) as Hm. rewrite Hm.
        split; [exact S1|]. split; [exact S2|]. intros Ha Hr. destruct (S3 Ha Hr) as [S4 S5]. split; [exact S4|].
        intros e' He'. rewrite WL1 in He'. apply push_In in He'. destruct He' as [->|He']; [cbn; congruence|now apply S5].
      * rewrite (smap1_ne_k m k k' x i Hnk). rewrite (proj1 (WL3 k' Hnk)). auto.
    + intros k' e0. destruct e0 as [set|]; cbn [entry_ok]; [|auto]. intros S x' Hx'.
      assert (Hx0 : ~ exempt k' x' (omid s)) by (intros E; apply Hx'; now apply Hex).
      rewrite (S x' Hx0). destruct (N.eq_dec k k') as [<-|Hnk].
      * symmetry. apply smap1_ne_x. intros <-. apply Hx'. exists b, i. now left.
      * now rewrite (smap1_ne_k m k k' x i Hnk).
Qed.

Lemma gsinv_bump s m hi b s' out :
  GSInv s m hi -> gsstep thr grp true false s (QBump b) = Some (s', out) -> GSInv s' m hi /\ out = None.
Proof.
  intros [HB HC HM HU HL] Hs. cbn [gsstep] in Hs.
  destruct (mid_of_batch b (omid s)) as [[b0 k x i [|]]|] eqn:Mb; try discriminate.
  inversion Hs; subst s' out; clear Hs. split; [|reflexivity].
  destruct (mid_of_batch_some _ _ _ Mb) as [Hin Hb0]. cbn [m_batch] in Hb0. subst b0.
  assert (Hold : forall mo, In mo (omid s) -> mo = Mid b k x i false \/ m_batch mo <> b).
  { intros mo Hmo. destruct (N.eq_dec (m_batch mo) b) as [E|E]; [left|now right].
    apply (HU _ _ Hmo Hin). right. exact E. }
  assert (Hnew : forall mo, In mo (Mid b k x i true :: remove_mid b (omid s)) ->
                            mo = Mid b k x i true \/ (In mo (omid s) /\ m_batch mo <> b)).
  { intros mo [<-|H]; [now left|right; now apply remove_mid_In]. }
  constructor; cbn [sbase ocount omid sloads]; auto.
  - intros k' set H x' Hx'. apply (HC k' set H x'). intros (b1 & i1 & f1 & H1). apply Hx'.
    destruct (Hold _ H1) as [E|E].
    + inversion E; subst. exists b, i, true. now left.
    + exists b1, i1, f1. right. apply remove_mid_In. split; [exact H1|exact E].
  - intros b1 k1 x1 i1 f1 H. destruct (Hnew _ H) as [E|[H1 _]].
    + inversion E; subst. exact (HM _ _ _ _ _ Hin).
    + exact (HM _ _ _ _ _ H1).
  - intros m1 m2 H1 H2 Hor. destruct (Hnew _ H1) as [->|[H1' N1]], (Hnew _ H2) as [->|[H2' N2]].
    + reflexivity.
    + exfalso. cbn [m_key m_elem m_batch] in Hor. destruct Hor as [E|E]; [|congruence].
      assert (X : Mid b k x i false = m2) by (apply (HU _ _ Hin H2'); left; exact E). subst m2. now apply N2.
    + exfalso. cbn [m_key m_elem m_batch] in Hor. destruct Hor as [E|E]; [|congruence].
      assert (X : m1 = Mid b k x i false) by (apply (HU _ _ H1' Hin); left; exact E). subst m1. now apply N1.
    + now apply HU.
  - intros t ph Hl. apply (sphase_ok_bump (ocount s) (omid s) _ _ _ _ k ph); [| |exact (HL t ph Hl)].
    + intros k' a r Hg. apply snap_ok_exempt. intros x' (b1 & i1 & H1). destruct (Hold _ H1) as [E|E].
      * inversion E; subst. congruence.
      * exists b1, i1. right. apply remove_mid_In. split; [exact H1|exact E].
    + intros k' e Hg. apply entry_ok_exempt. intros x' (b1 & i1 & H1). destruct (Hold _ H1) as [E|E].
      * inversion E; subst. congruence.
      * exists b1, i1. right. apply remove_mid_In. split; [exact H1|exact E].
Qed.

Lemma gsinv_apply s m hi b s' out :
  GSInv s m hi -> gsstep thr grp true false s (QApply b) = Some (s', out) -> GSInv s' m hi /\ out = None.
Proof.
  intros [HB HC HM HU HL] Hs. cbn [gsstep] in Hs.
  destruct (mid_of_batch b (omid s)) as [[b0 k x i [|]]|] eqn:Mb; try discriminate.
  inversion Hs; subst s' out; clear Hs. split; [|reflexivity].
  destruct (mid_of_batch_some _ _ _ Mb) as [Hin Hb0]. cbn [m_batch] in Hb0. subst b0.
  assert (Hold : forall mo, In mo (omid s) -> mo = Mid b k x i true \/ m_batch mo <> b).
  { intros mo Hmo. destruct (N.eq_dec (m_batch mo) b) as [E|E]; [left|now right].
    apply (HU _ _ Hmo Hin). right. exact E. }
  constructor; cbn [sbase ocount omid sloads set_cache scache sstore slogs]; auto.
  - intros k' set' H x' Hx'. unfold sapply in H.
    assert (Hc : (k <> k' /\ alookup k' (scache (sbase s)) = Some (InMem set')) \/
                 (k = k' /\ exists set, alookup k (scache (sbase s)) = Some (InMem set) /\
                                        set' = if i then ins x set else del x set)).
    { destruct (N.eq_dec k k') as [<-|Hne].
      - right. split; [reflexivity|]. destruct (alookup k (scache (sbase s))) as [[set|]|] eqn:C; try (rewrite C in H; discriminate).
        destruct (thr <? _); rewrite alookup_aset_eq in H; [discriminate|]. inversion H. now exists set.
      - left. split; [exact Hne|]. destruct (alookup k (scache (sbase s))) as [[set|]|]; try exact H.
        destruct (thr <? _); now rewrite alookup_aset_ne in H by exact Hne. }
    destruct Hc as [[Hne H1]|[<- (set & H1 & ->)]].
    + apply (HC k' set' H1 x'). intros (b1 & i1 & f1 & Hm1). apply Hx'. exists b1, i1, f1. apply remove_mid_In.
      split; [exact Hm1|]. destruct (Hold _ Hm1) as [E|E]; [inversion E; subst; congruence|exact E].
    + destruct (N.eq_dec x x') as [<-|Hnx].
      * rewrite (HM _ _ _ _ _ Hin). destruct i; [rewrite ins_In; intuition|rewrite del_In; split; [intros [_ F]; congruence|discriminate]].
      * assert (Hx0 : ~ midon k x' (omid s)).
        { intros (b1 & i1 & f1 & Hm1). destruct (Hold _ Hm1) as [E|E]; [inversion E; subst; congruence|].
          apply Hx'. exists b1, i1, f1. apply remove_mid_In. split; [exact Hm1|exact E]. }
        rewrite <- (HC k set H1 x' Hx0). destruct i.
        -- rewrite ins_In. split; [intros [E|H2]; [congruence|exact H2]|auto].
        -- rewrite del_In. split; [intros [H2 _]; exact H2|intros H2; split; [exact H2|congruence]].
  - intros b1 k1 x1 i1 f1 H. apply remove_mid_In in H. exact (HM _ _ _ _ _ (proj1 H)).
  - intros m1 m2 H1 H2. apply remove_mid_In in H1, H2. apply HU; tauto.
  - intros t ph Hl.
    assert (Hex : forall k' x', exempt k' x' (omid s) -> exempt k' x' (remove_mid b (omid s))).
    { intros k' x' (b1 & i1 & Hm1). exists b1, i1. apply remove_mid_In. split; [exact Hm1|].
      destruct (Hold _ Hm1) as [E|E]; [discriminate E|exact E]. }
    eapply sphase_ok_mono; [| |exact (HL t ph Hl)].
    + intros k' a r. apply snap_ok_exempt. apply Hex.
    + intros k' e. apply entry_ok_exempt. apply Hex.
Qed.

Lemma loads_other {A} t t' (v : A) l ph (P : A -> Prop) :
  (forall t0 ph0, alookup t0 l = Some ph0 -> P ph0) -> P v -> alookup t' (aset t v l) = Some ph -> P ph.
Proof.
  intros H Hv Hl. destruct (N.eq_dec t t') as [<-|Hne].
  - rewrite alookup_aset_eq in Hl. inversion Hl; subst. exact Hv.
  - rewrite alookup_aset_ne in Hl by exact Hne. eauto.
Qed.

Lemma gsinv_load s m hi o s' out :
  GSInv s m hi -> gsstep thr grp true false s o = Some (s', out) ->
  match o with QStart _ _ | QSnap _ _ | QMiss _ _ | QScan _ _ | QInstall _ _ => True | _ => False end ->
  GSInv s' m hi /\ out = None.
Proof.
  intros [HB HC HM HU HL] Hs Ho. destruct o as [| | | |t k|t k|t k|t k|t k]; try destruct Ho; cbn [gsstep] in Hs.
  - (* QStart *)
    inversion Hs; subst s' out; clear Hs. split; [|reflexivity].
    constructor; cbn [sbase ocount omid sloads]; auto.
    intros t' ph Hl. eapply (loads_other _ _ _ _ _ _ HL); [|exact Hl]. cbn [sphase_ok]. lia.
  - (* QSnap *)
    destruct (alookup t (sloads s)) as [[k' c|k' c a r|k' c a r|k' c e]|] eqn:Ht; try discriminate.
    destruct (k' =? k) eqn:E; [|discriminate]. apply N.eqb_eq in E. subst k'.
    rewrite log_snapshot_lww in Hs. destruct (snap_lww (logh k (slogs (sbase s)))) as [a r] eqn:Sn.
    inversion Hs; subst s' out; clear Hs. split; [|reflexivity].
    constructor; cbn [sbase ocount omid sloads]; auto.
    intros t' ph Hl. eapply (loads_other _ _ _ _ _ _ HL); [|exact Hl]. cbn [sphase_ok].
    pose proof (HL t _ Ht) as Hle. cbn [sphase_ok] in Hle. split; [exact Hle|]. intros _.
    set (h := logh k (slogs (sbase s))) in *.
    assert (Ha : forall x, In x a <-> exists e, last_op x h None = Some e /\ e_ins e = true).
    { intros x. rewrite <- snap_lww_added. now rewrite Sn. }
    assert (Hr : forall x, In x r <-> exists e, last_op x h None = Some e /\ e_ins e = false).
    { intros x. rewrite <- snap_lww_removed. now rewrite Sn. }
    split.
    + intros x Hxa Hxr. apply Ha in Hxa. apply Hr in Hxr. destruct Hxa as (e1 & E1 & I1), Hxr as (e2 & E2 & I2). congruence.
    + intros x _. destruct (si_log _ _ _ HB k x) as [L1 L2]. cbn [set_cache slogs sstore] in L1, L2. fold h in L1, L2.
      split; [|split].
      * intros Hxa. apply Ha in Hxa. destruct Hxa as (e1 & E1 & I1). apply (L1 e1 (last_op_some _ _ _ E1)). exact I1.
      * intros Hxr. apply Hr in Hxr. destruct Hxr as (e1 & E1 & I1). rewrite (L1 e1 (last_op_some _ _ _ E1)). congruence.
      * intros Hna Hnr. destruct (last_op x h None) as [e1|] eqn:E1.
        -- exfalso. destruct (e_ins e1) eqn:I1; [apply Hna, Ha|apply Hnr, Hr]; now exists e1.
        -- pose proof (last_op_none _ _ E1) as Hno. split; [|exact Hno]. symmetry. now apply L2.
  - (* QMiss *)
    destruct (alookup t (sloads s)) as [[k' c|k' c a r|k' c a r|k' c e]|] eqn:Ht; try discriminate.
    destruct (alookup k (scache (sbase s))); [discriminate|].
    destruct (k' =? k) eqn:E; [|discriminate]. apply N.eqb_eq in E. subst k'.
    inversion Hs; subst s' out; clear Hs. split; [|reflexivity].
    constructor; cbn [sbase ocount omid sloads]; auto.
    intros t' ph Hl. eapply (loads_other _ _ _ _ _ _ HL); [|exact Hl]. exact (HL t _ Ht).
  - (* QScan *)
    destruct (alookup t (sloads s)) as [[k' c|k' c a r|k' c a r|k' c e]|] eqn:Ht; try discriminate.
    destruct (k' =? k) eqn:E; [|discriminate]. apply N.eqb_eq in E. subst k'.
    inversion Hs; subst s' out; clear Hs. split; [|reflexivity].
    constructor; cbn [sbase ocount omid sloads]; auto.
    intros t' ph Hl. eapply (loads_other _ _ _ _ _ _ HL); [|exact Hl]. cbn [sphase_ok].
    pose proof (HL t _ Ht) as HP. cbn [sphase_ok] in HP. eapply pguard_mono; [|exact HP].
    intros [D S]. unfold build. destruct (thr <? _); cbn [entry_ok]; [exact I|].
    intros x Hx. destruct (S x Hx) as (S1 & S2 & S3). rewrite fold_del_In, fold_ins_In. split.
    + intros [[Hsc|Hxa] Hnr]; [|now apply S1].
      destruct (in_dec N.eq_dec x a) as [Hxa|Hna]; [now apply S1|]. now apply (S3 Hna Hnr).
    + intros Hm. destruct (in_dec N.eq_dec x a) as [Hxa|Hna].
      * split; [now right|now apply D].
      * assert (Hnr : ~ In x r) by (intros Hxr; now apply (S2 Hxr)).
        split; [left; now apply (S3 Hna Hnr)|exact Hnr].
  - (* QInstall *)
    destruct (alookup t (sloads s)) as [[k' c|k' c a r|k' c a r|k' c e]|] eqn:Ht; try discriminate.
    destruct (k' =? k) eqn:E; [|discriminate]. apply N.eqb_eq in E. subst k'.
    inversion Hs; subst s' out; clear Hs. split; [|reflexivity].
    constructor; cbn [sbase ocount omid sloads set_cache scache sstore slogs]; auto.
    + intros k' set H x Hx.
      destruct (alookup k (scache (sbase s))) eqn:C; [now apply (HC k' set H x)|].
      cbn [negb orb] in H. destruct (count_of (grp k) (ocount s) =? c) eqn:Ec; [|now apply (HC k' set H x)].
      apply N.eqb_eq in Ec. destruct (N.eq_dec k k') as [<-|Hne].
      * rewrite alookup_aset_eq in H. inversion H; subst e.
        pose proof (HL t _ Ht) as [_ HP]. cbn [sphase_ok] in HP. specialize (HP Ec). cbn [entry_ok] in HP.
        apply HP. intros Ex. apply Hx. now apply exempt_midon.
      * rewrite alookup_aset_ne in H by exact Hne. now apply (HC k' set H x).
    + intros t' ph Hl. destruct (N.eq_dec t t') as [<-|Hne]; [rewrite alookup_aremove_eq in Hl; discriminate|].
      rewrite alookup_aremove_ne in Hl by exact Hne. exact (HL _ _ Hl).
Qed.

Lemma gsinv_step s m hi o s' out :
  GSInv s m hi -> gsstep thr grp true false s o = Some (s', out) -> qord hi o = true ->
  GSInv s' (qmap m o) (qhi hi o) /\
  match o with
  | QSeq (SGet k) => exists l, out = Some l /\ forall x, In x l <-> In x (sget k m)
  | _ => out = None
  end.
Proof.
  intros HI Hs Ho. destruct o as [o'|b k x i|b|b|t k|t k|t k|t k|t k].
  - destruct (gsinv_seq _ _ _ _ _ _ HI Hs) as [H1 H2].
    assert (Hnw : match o' with SIns _ _ _ | SRem _ _ _ => False | _ => True end).
    { destruct o'; try exact I; cbn [gsstep] in Hs; discriminate. }
    unfold qmap, qhi. cbn [qop_of]. destruct o'; try destruct Hnw; cbn [smap shi_upd swrite_of]; auto.
  - unfold qord in Ho. cbn [qop_of] in Ho. unfold qmap, qhi. cbn [qop_of].
    destruct i; cbn [smap shi_upd swrite_of sord_ok] in *; eapply gsinv_stage; eauto.
  - unfold qmap, qhi. cbn [qop_of]. eapply gsinv_bump; eauto.
  - unfold qmap, qhi. cbn [qop_of]. eapply gsinv_apply; eauto.
  - unfold qmap, qhi. cbn [qop_of]. eapply gsinv_load; eauto. exact I.
  - unfold qmap, qhi. cbn [qop_of]. eapply gsinv_load; eauto. exact I.
  - unfold qmap, qhi. cbn [qop_of]. eapply gsinv_load; eauto. exact I.
  - unfold qmap, qhi. cbn [qop_of]. eapply gsinv_load; eauto. exact I.
  - unfold qmap, qhi. cbn [qop_of]. eapply gsinv_load; eauto. exact I.
Qed.

Lemma gsinv_init : GSInv gsinit [] [].
Proof.
  constructor; cbn; try (intros; discriminate); try tauto.
  - exact sinv_init.
  - intros m1 m2 [].
Qed.

Lemma set_guard_ryw_gen ops : forall s m hi s' outs,
  GSInv s m hi -> gsrun thr grp true false s ops = Some (s', outs) -> sordered hi (flat_map qseq_of ops) = true ->
  same_sets outs (sspec m (flat_map qseq_of ops)) = true.
Proof.
  induction ops as [|o r IH]; intros s m hi s' outs HI Hr Ho; cbn [gsrun] in Hr.
  - inversion Hr; reflexivity.
  - destruct (gsstep thr grp true false s o) as [[s1 out]|] eqn:Hs; [|discriminate].
    destruct (gsrun thr grp true false s1 r) as [[s2 outs2]|] eqn:Hr2; [|discriminate]. inversion Hr; subst s' outs; clear Hr.
    cbn [flat_map] in *.
    assert (Hok : qord hi o = true /\ sordered (qhi hi o) (flat_map qseq_of r) = true).
    { unfold qord, qhi, qseq_of in *. destruct (qop_of o) as [o'|]; cbn [app] in Ho; [|auto].
      cbn [sordered] in Ho. unfold sord_ok, shi_upd. destruct (swrite_of o') as [[b k]|]; [|auto].
      apply andb_prop in Ho. exact Ho. }
    destruct Hok as [Hok1 Hok2].
    destruct (gsinv_step _ _ _ _ _ _ HI Hs Hok1) as [HI' Hout].
    specialize (IH _ _ _ _ _ HI' Hr2 Hok2).
    unfold qseq_of, qmap in *. destruct o as [o'|b k x i|b|b|t k|t k|t k|t k|t k]; cbn [qop_of app] in *;
      try (subst out; exact IH).
    + destruct o'; cbn [sspec smap] in *; try (subst out; exact IH).
      destruct Hout as (l & -> & Hl). cbn [same_sets]. rewrite IH, andb_true_r. now apply same_set_iff.
    + subst out. destruct i; cbn [sspec smap] in *; exact IH.
Qed.
End Proof.

(** Read-your-writes for the key→set map with the guarded miss path, any spill threshold,
    any grouping of the keys into counters, every interleaving: every uninterrupted [get]
    (one that overlaps no write to its key) yields, as a set, exactly the members after all
    inserts and removes staged before it. *)
Theorem set_guard_ryw : forall thr (grp : key -> N) ops s outs,
  gsrun thr grp true false gsinit ops = Some (s, outs) -> sordered [] (flat_map qseq_of ops) = true ->
  same_sets outs (sspec [] (flat_map qseq_of ops)) = true.
Proof. intros thr grp ops s outs. apply set_guard_ryw_gen. exact (gsinv_init thr grp). Qed.
