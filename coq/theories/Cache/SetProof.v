(** C09 — key→set map: the property is false of the model of the code as it is (two
    independent defects), by concrete histories evaluated with [vm_compute]. *)
From QV Require Import Common.Prelude Cache.Wide Cache.SetLog Cache.SetCache.
Open Scope N_scope.

Definition houts (r : option (sst * list (list N))) : option (list (list N)) :=
  match r with Some (_, o) => Some o | None => None end.

(** F2 (threshold 2 instead of 1024): the store holds threshold+1 members of key 0, the key
    is not cached, one [remove] is staged: the iteration stops at the removed element. *)
Definition f2_witness : list sop :=
  [SNew; SIns 0 0 1; SIns 0 0 2; SIns 0 0 3; SSub 0; SCommit; SNotify 0 0; SNew; SRem 1 0 2; SGet 0].

(** F3: 5 is a committed member; batch 1 removes it and has reached the store, its
    after-commit has not run; batch 2 inserts it again; the key is not cached. *)
Definition f3_witness : list sop :=
  [SNew; SIns 0 0 5; SSub 0; SCommit; SNotify 0 0; SNew; SNew; SRem 1 0 5; SIns 2 0 5; SSub 1; SCommit; SGet 0].

(** F3 without any background step: three open batches insert, remove, insert 5; the heap
    array reads (insert, insert, remove) and the overlay cancels the last pair. *)
Definition f3b_witness : list sop :=
  [SNew; SNew; SNew; SIns 0 0 5; SRem 1 0 5; SIns 2 0 5; SGet 0].

Definition refutes (thr : N) (fix_iter fix_overlay : bool) (ops : list sop) : Prop :=
  exists s outs, srun thr fix_iter fix_overlay sinit ops = Some (s, outs) /\
                 sordered [] ops = true /\ same_sets outs (sspec [] ops) = false.

(** each defect alone (the other one repaired) breaks read-your-writes *)
Theorem set_ryw_refuted_spill : exists thr ops, refutes thr false true ops.
Proof. exists 2, f2_witness. eexists. eexists. split; [vm_compute; reflexivity|]. split; reflexivity. Qed.

Theorem set_ryw_refuted_overlay : exists thr ops, refutes thr true false ops.
Proof. exists 2, f3_witness. eexists. eexists. split; [vm_compute; reflexivity|]. split; reflexivity. Qed.

Theorem set_ryw_refuted_overlay_no_background : exists thr ops, refutes thr true false ops.
Proof. exists 2, f3b_witness. eexists. eexists. split; [vm_compute; reflexivity|]. split; reflexivity. Qed.

(** the code as it is (both defects), with the real threshold, on the three histories *)
Example code_as_is_f3 : houts (srun 1024 false false sinit f3_witness) = Some [[]].
Proof. vm_compute. reflexivity. Qed.
Example code_as_is_f3b : houts (srun 1024 false false sinit f3b_witness) = Some [[]].
Proof. vm_compute. reflexivity. Qed.
(** and the repaired variant answers them correctly *)
Example repaired_f2 : houts (srun 2 true true sinit f2_witness) = Some [[1; 3]].
Proof. vm_compute. reflexivity. Qed.
Example repaired_f3 : houts (srun 2 true true sinit f3_witness) = Some [[5]].
Proof. vm_compute. reflexivity. Qed.
Example repaired_f3b : houts (srun 2 true true sinit f3b_witness) = Some [[5]].
Proof. vm_compute. reflexivity. Qed.
