(** C09 — the guarded miss path of [WideColumnCache::get] (model: FillGuard.v): proofs.

    - [guard_ryw]: with the [fetch_add] after the entry operation of a write ([BumpAfter]: the
      code as it is now, commit cea103e) or inside it ([BumpInside]), every answer of every
      interleaving is the answer of a last-write-wins map (the statement of
      [WideProof.wide_ryw], for all schedules of writers, loaders and background steps).
    - [guard_before_refuted]: with the [fetch_add] BEFORE the entry operation ([BumpBefore]: the
      ordering of commit 649e55c, since corrected) a stale read is still installed: a load that
      starts between the two halves of a write remembers a count that already includes the
      write, yet finds no entry and reads the store without the write. *)
From QV Require Import Common.Prelude Cache.Wide Cache.WideProof Cache.FillGuard.
Open Scope N_scope.

(** * Witnesses *)

(** the old witness goes wrong no more, wherever the [fetch_add] stands *)
Example old_witness_ok : forall pos,
  exists s, grun grp16 pos ginit (old_witness pos) = Some (s, [Some 1]) /\
            spec [] (flat_map gseq_of (old_witness pos)) = [Some 1] /\
            ordered [] (flat_map gseq_of (old_witness pos)) = true.
Proof. intros []; eexists; (split; [vm_compute; reflexivity|split; reflexivity]). Qed.

(** ... and not because everything is refused: in [retry_history] the first install is
    refused (the slot stays vacant), the second and third are accepted, all answers are right *)
Example retry_history_ok : forall pos,
  exists s, grun (fun _ => 0) pos ginit (retry_history pos) = Some (s, [Some 5; Some 5; None; None]) /\
            spec [] (flat_map gseq_of (retry_history pos)) = [Some 5; Some 5; None; None] /\
            ordered [] (flat_map gseq_of (retry_history pos)) = true /\
            alookup 8 (cache (gbase s)) = Some (None, 0%Z).
Proof. intros []; eexists; (split; [vm_compute; reflexivity|split; [reflexivity|split; reflexivity]]). Qed.

(** the prefix of [retry_history] up to the first [GInstall]: key 7 is not cached afterwards *)
Example retry_history_refusal : forall pos,
  exists n s outs, grun (fun _ => 0) pos ginit (firstn n (retry_history pos)) = Some (s, outs) /\
                   last (firstn n (retry_history pos)) (GSeq NewBatch) = GInstall 1 7 /\
                   alookup 7 (cache (gbase s)) = None /\ mget 7 (store (gbase s)) = Some 5.
Proof.
  intros [].
  - exists 12%nat. eexists. eexists. split; [vm_compute; reflexivity|]. split; [reflexivity|split; reflexivity].
  - exists 11%nat. eexists. eexists. split; [vm_compute; reflexivity|]. split; [reflexivity|split; reflexivity].
  - exists 12%nat. eexists. eexists. split; [vm_compute; reflexivity|]. split; [reflexivity|split; reflexivity].
Qed.

(** The ordering of commit 649e55c ([fetch_add] first) does not suffice. *)
Theorem guard_before_refuted :
  exists ops s outs,
    grun grp16 BumpBefore ginit ops = Some (s, outs) /\ ordered [] (flat_map gseq_of ops) = true /\
    last outs None <> last (spec [] (flat_map gseq_of ops)) None.
Proof.
  exists guard_race_witness. eexists. eexists. split; [vm_compute; reflexivity|]. split; [reflexivity|].
  vm_compute. discriminate.
Qed.
(** evaluation with a symbolic grouping: decide the comparisons of closed numbers by
    computation, those of equal terms by reflexivity *)
Ltac ground_cmp :=
  repeat match goal with
  | |- context [N.eqb ?a ?b] =>
      let v := eval vm_compute in (N.eqb a b) in
      match v with true => change (N.eqb a b) with true | false => change (N.eqb a b) with false end
  | |- context [Z.leb ?a ?b] =>
      let v := eval vm_compute in (Z.leb a b) in
      match v with true => change (Z.leb a b) with true | false => change (Z.leb a b) with false end
  | |- context [Z.eqb ?a ?b] =>
      let v := eval vm_compute in (Z.eqb a b) in
      match v with true => change (Z.eqb a b) with true | false => change (Z.eqb a b) with false end
  end.

(** the same with one counter per key or one counter for all keys *)
Theorem guard_before_refuted_any_grouping : forall grp : key -> N,
  exists ops s outs,
    grun grp BumpBefore ginit ops = Some (s, outs) /\ ordered [] (flat_map gseq_of ops) = true /\
    outs = [None] /\ spec [] (flat_map gseq_of ops) = [Some 1].
Proof.
  intros grp. exists guard_race_witness.
  eexists. exists [None]. split; [|split; [reflexivity|split; reflexivity]].
  unfold guard_race_witness.
  repeat (progress (cbv -[N.eqb N.add Z.leb Z.eqb Z.add Z.sub]; ground_cmp; rewrite ?N.eqb_refl)).
  reflexivity.
Qed.

(** * The invariant *)
Section Proof.
Variable grp : key -> N.

Definition covered (k : key) (pend : list batch) (wm : list (N * key)) : Prop :=
  forall bt, In bt pend -> wrote k bt = true -> alookup (b_epoch bt) wm = Some k.
Definition nomid (k : key) (wm : list (N * key)) : Prop := forall b, alookup b wm <> Some k.

(** a load whose remembered count is still the count has been overtaken by no write, except
    by writes that are half done (applied, not yet counted); once these are gone what it read
    is the latest write *)
Definition guard_ok (wc : list (N * N)) (wm : list (N * key)) (pend : list batch)
           (k : key) (c : N) (P : Prop) : Prop :=
  c <= count_of (grp k) wc /\
  (count_of (grp k) wc = c -> covered k pend wm /\ (nomid k wm -> P)).

Definition phase_ok wc wm pend (m : list (key * option val)) (ph : lphase) : Prop :=
  match ph with
  | LStarted k c => c <= count_of (grp k) wc
  | LMissed k c => guard_ok wc wm pend k c True
  | LRead k c v => guard_ok wc wm pend k c (v = mget k m)
  end.

Record GInv (s : gst) (m : list (key * option val)) (hi : list (key * N)) : Prop := {
  g_base : Inv (gbase s) m hi;
  g_mid : forall b k, alookup b (wmid s) = Some k ->
                      exists bt, In bt (pending (gbase s)) /\ b_epoch bt = b /\ b_sub bt = false /\ wrote k bt = true;
  g_loads : forall t ph, alookup t (loads s) = Some ph -> phase_ok (wcount s) (wmid s) (pending (gbase s)) m ph
}.

Lemma count_bump_eq g wc : count_of g (bump g wc) = count_of g wc + 1.
Proof. unfold bump, count_of at 1. now rewrite alookup_aset_eq. Qed.
Lemma count_bump_ne g g' wc : g <> g' -> count_of g' (bump g wc) = count_of g' wc.
Proof. intros H. unfold bump, count_of at 1. rewrite alookup_aset_ne by exact H. reflexivity. Qed.

Lemma phase_started wc wm pend m ph :
  phase_ok wc wm pend m ph ->
  match ph with LStarted k c | LMissed k c | LRead k c _ => c <= count_of (grp k) wc end.
Proof. destruct ph; cbn [phase_ok]; unfold guard_ok; tauto. Qed.

(** the pending batches change, the writers of the key stay the same or go away *)
Lemma guard_ok_pend wc (wm : list (N * key)) pend pend' (k : key) c (P : Prop) :
  (forall bt', In bt' pend' -> wrote k bt' = true ->
               exists bt, In bt pend /\ b_epoch bt = b_epoch bt' /\ wrote k bt = true) ->
  guard_ok wc wm pend k c P -> guard_ok wc wm pend' k c P.
Proof.
  intros Hsub [Hle H]. split; [exact Hle|]. intros Hc. destruct (H Hc) as [Hcov HP]. split; [|exact HP].
  intros bt' Hin W. destruct (Hsub bt' Hin W) as (bt & Hin0 & He & W0). rewrite <- He. now apply Hcov.
Qed.
Lemma phase_ok_pend wc (wm : list (N * key)) pend pend' m ph :
  (forall k bt', In bt' pend' -> wrote k bt' = true ->
                 exists bt, In bt pend /\ b_epoch bt = b_epoch bt' /\ wrote k bt = true) ->
  phase_ok wc wm pend m ph -> phase_ok wc wm pend' m ph.
Proof.
  intros Hsub. destruct ph as [k c|k c|k c v]; cbn [phase_ok]; [tauto| |]; apply guard_ok_pend; apply Hsub.
Qed.

(** a bump of the counter of [k]'s group ends every guard of this group *)
Lemma guard_ok_bumped wc (wm wm' : list (N * key)) pend pend' (k k' : key) c (P P' : Prop) :
  grp k' = grp k -> guard_ok wc wm pend k c P -> guard_ok (bump (grp k') wc) wm' pend' k c P'.
Proof.
  intros Hg [Hle _]. rewrite Hg. split; rewrite count_bump_eq; [lia|]. intros Hc. lia.
Qed.

(** a write of [k0] into batch [b]: the three ways it can touch counter and [wmid] *)
Lemma guard_ok_write wc (wm : list (N * key)) wc' (wm' : list (N * key)) l1 b0 l2 (k0 : key) w (k : key) c (P P' : Prop) :
  let u := match alookup k0 (b_writes b0) with None => true | Some _ => false end in
  let b0' := Batch (b_epoch b0) false ((k0, w) :: b_writes b0) in
  alookup (b_epoch b0) wm = None ->
  (u = false /\ wc' = wc /\ wm' = wm) \/
  (u = true /\ wc' = bump (grp k0) wc /\ wm' = wm) \/
  (u = true /\ wc' = wc /\ wm' = (b_epoch b0, k0) :: wm) ->
  (k0 <> k -> P -> P') ->
  guard_ok wc wm (l1 ++ b0 :: l2) k c P -> guard_ok wc' wm' (l1 ++ b0' :: l2) k c P'.
Proof.
  intros u b0' Hfree Hcase HP HG.
  assert (Hw0 : wrote k0 b0 = negb u).
  { unfold wrote, u. destruct (alookup k0 (b_writes b0)); reflexivity. }
  assert (Hwne : k0 <> k -> wrote k b0' = wrote k b0).
  { intros Hne. apply (wrote_cons_ne k0 k w b0 Hne). }
  (* under the guard the batch has not written k before *)
  assert (Hnot : count_of (grp k) wc = c -> wrote k b0 = false).
  { intros Hc. destruct HG as [_ HG]. destruct (HG Hc) as [Hcov _].
    destruct (wrote k b0) eqn:W; [|reflexivity].
    rewrite (Hcov b0) in Hfree; [discriminate|apply in_or_app; right; now left|exact W]. }
  destruct Hcase as [(Hu & -> & ->)|[(Hu & -> & ->)|(Hu & -> & ->)]].
  - (* not counted *)
    destruct HG as [Hle HG]. split; [exact Hle|]. intros Hc. destruct (HG Hc) as [Hcov HPP].
    pose proof (Hnot Hc) as Hn.
    assert (Hne : k0 <> k). { intros ->. rewrite Hw0, Hu in Hn. discriminate. }
    split.
    + intros bt Hin W. apply in_app_or in Hin. destruct Hin as [Hin|[<-|Hin]].
      * apply Hcov; [apply in_or_app; now left|exact W].
      * rewrite (Hwne Hne), Hn in W. discriminate.
      * apply Hcov; [apply in_or_app; right; now right|exact W].
    + intros Hnm. apply (HP Hne). now apply HPP.
  - (* counted inside *)
    destruct (N.eq_dec (grp k0) (grp k)) as [Hg|Hg]; [eapply guard_ok_bumped; eauto|].
    assert (Hne : k0 <> k) by congruence.
    destruct HG as [Hle HG]. split; rewrite (count_bump_ne _ _ _ Hg); [exact Hle|].
    intros Hc. destruct (HG Hc) as [Hcov HPP]. pose proof (Hnot Hc) as Hn. split.
    + intros bt Hin W. apply in_app_or in Hin. destruct Hin as [Hin|[<-|Hin]].
      * apply Hcov; [apply in_or_app; now left|exact W].
      * rewrite (Hwne Hne), Hn in W. discriminate.
      * apply Hcov; [apply in_or_app; right; now right|exact W].
    + intros Hnm. apply (HP Hne). now apply HPP.
  - (* counted later: the batch goes to wmid *)
    destruct HG as [Hle HG]. split; [exact Hle|]. intros Hc. destruct (HG Hc) as [Hcov HPP].
    pose proof (Hnot Hc) as Hn.
    assert (Hold : forall bt, In bt (l1 ++ b0 :: l2) -> wrote k bt = true ->
                              alookup (b_epoch bt) ((b_epoch b0, k0) :: wm) = Some k).
    { intros bt Hin W. pose proof (Hcov bt Hin W) as Hl. cbn [alookup].
      destruct (b_epoch bt =? b_epoch b0) eqn:E; [|exact Hl].
      apply N.eqb_eq in E. rewrite E, Hfree in Hl. discriminate. }
    split.
    + intros bt Hin W. apply in_app_or in Hin. destruct Hin as [Hin|[<-|Hin]].
      * apply Hold; [apply in_or_app; now left|exact W].
      * cbn [b_epoch b0' alookup]. rewrite N.eqb_refl. f_equal.
        destruct (N.eq_dec k0 k) as [E|Hne]; [exact E|]. rewrite (Hwne Hne), Hn in W. discriminate.
      * apply Hold; [apply in_or_app; right; now right|exact W].
    + intros Hnm. destruct (N.eq_dec k0 k) as [->|Hne].
      * exfalso. apply (Hnm (b_epoch b0)). cbn [alookup]. now rewrite N.eqb_refl.
      * apply (HP Hne). apply HPP. intros b Hb. apply (Hnm b). cbn [alookup].
        destruct (b =? b_epoch b0) eqn:E; [|exact Hb]. apply N.eqb_eq in E. subst b. rewrite Hfree in Hb. discriminate.
Qed.

Lemma phase_ok_write wc (wm : list (N * key)) wc' (wm' : list (N * key)) l1 b0 l2 (k0 : key) w m ph :
  let u := match alookup k0 (b_writes b0) with None => true | Some _ => false end in
  let b0' := Batch (b_epoch b0) false ((k0, w) :: b_writes b0) in
  alookup (b_epoch b0) wm = None ->
  (u = false /\ wc' = wc /\ wm' = wm) \/
  (u = true /\ wc' = bump (grp k0) wc /\ wm' = wm) \/
  (u = true /\ wc' = wc /\ wm' = (b_epoch b0, k0) :: wm) ->
  phase_ok wc wm (l1 ++ b0 :: l2) m ph -> phase_ok wc' wm' (l1 ++ b0' :: l2) ((k0, w) :: m) ph.
Proof.
  intros u b0' Hfree Hcase. destruct ph as [k c|k c|k c v]; cbn [phase_ok].
  - intros Hle. destruct Hcase as [(_ & -> & _)|[(_ & -> & _)|(_ & -> & _)]]; try exact Hle.
    destruct (N.eq_dec (grp k0) (grp k)) as [Hg|Hg].
    + rewrite Hg, count_bump_eq. lia.
    + now rewrite (count_bump_ne _ _ _ Hg).
  - apply guard_ok_write; auto.
  - apply guard_ok_write; auto. intros Hne ->. now rewrite mget_cons_ne.
Qed.

(** the counting half of a write that is counted later *)
Lemma guard_ok_bump_after wc (wm : list (N * key)) pend b (k0 k : key) c (P : Prop) :
  alookup b wm = Some k0 ->
  guard_ok wc wm pend k c P -> guard_ok (bump (grp k0) wc) (aremove b wm) pend k c P.
Proof.
  intros Hb HG. destruct (N.eq_dec (grp k0) (grp k)) as [Hg|Hg]; [eapply guard_ok_bumped; eauto|].
  assert (Hne : k0 <> k) by congruence.
  destruct HG as [Hle HG]. split; rewrite (count_bump_ne _ _ _ Hg); [exact Hle|].
  intros Hc. destruct (HG Hc) as [Hcov HPP]. split.
  - intros bt Hin W. pose proof (Hcov bt Hin W) as Hl.
    destruct (N.eq_dec b (b_epoch bt)) as [E|E]; [subst b; congruence|]. now rewrite alookup_aremove_ne.
  - intros Hnm. apply HPP. intros b' Hb'. apply (Hnm b').
    destruct (N.eq_dec b b') as [E|E]; [subst b'; congruence|]. now rewrite alookup_aremove_ne.
Qed.

(** * One step *)
Lemma inv_fill s m hi k v :
  Inv s m hi -> alookup k (cache s) = None -> v = mget k m ->
  Inv (St (store s) (aset k (v, 0%Z) (cache s)) (next_epoch s) (pending s) (notifyq s)) m hi.
Proof.
  intros [Ic Ip Is Ia Ih] E Hv. constructor; cbn [cache pending notifyq store next_epoch].
  - intros k' v' p H. destruct (N.eq_dec k k') as [<-|Hne].
    + rewrite alookup_aset_eq in H. inversion H; subst. reflexivity.
    + rewrite alookup_aset_ne in H by exact Hne. now apply (Ic k' v' p).
  - intros k'. destruct (N.eq_dec k k') as [<-|Hne].
    + rewrite pin_of_aset_eq. cbn [snd]. specialize (Ip k). unfold pin_of in Ip. now rewrite E in Ip.
    + rewrite pin_of_aset_ne by exact Hne. exact (Ip k').
  - exact Is.
  - exact Ia.
  - exact Ih.
Qed.

(** nothing cached for [k]: no live batch has written [k] *)
Lemma vacant_unwritten s m hi k :
  Inv s m hi -> alookup k (cache s) = None -> Forall (fun b => wrote k b = false) (pending s).
Proof.
  intros HI E. pose proof (inv_pin _ _ _ HI k) as Ip. unfold pin_of in Ip. rewrite E in Ip.
  pose proof (cnt_pending_nonneg k (pending s)). pose proof (cnt_notify_nonneg k (notifyq s)).
  apply cnt_pending_zero. lia.
Qed.

Lemma write_guard_cases pos b (k : key) u wc (wm : list (N * key)) wc' (wm' : list (N * key)) :
  pos <> BumpBefore -> write_guard grp pos b k u wc wm = Some (wc', wm') ->
  alookup b wm = None /\
  ((u = false /\ wc' = wc /\ wm' = wm) \/
   (u = true /\ wc' = bump (grp k) wc /\ wm' = wm) \/
   (u = true /\ wc' = wc /\ wm' = (b, k) :: wm)).
Proof.
  intros Hpos H. unfold write_guard in H. destruct pos; [congruence| |];
    destruct (alookup b wm) eqn:E; try discriminate; inversion H; subst; (split; [reflexivity|]);
    destruct u; auto.
Qed.

Lemma step_write_shape s o b k s' out :
  write_of o = Some (b, k) -> step s o = Some (s', out) ->
  exists w, write s b k w = Some s' /\ spec_map [] o = [(k, w)] /\ out = None.
Proof.
  intros Hw Hs. destruct o; cbn [write_of] in Hw; try discriminate; inversion Hw; subst; cbn [step] in Hs.
  - destruct (write s b k (Some v)) as [s1|] eqn:W; [|discriminate]. inversion Hs; subst. eauto.
  - destruct (write s b k None) as [s1|] eqn:W; [|discriminate]. inversion Hs; subst. eauto.
Qed.

Lemma ginv_step pos s m hi o s' out :
  pos <> BumpBefore ->
  GInv s m hi -> gstep grp pos s o = Some (s', out) ->
  match o with GSeq o' => ord_ok hi o' = true | _ => True end ->
  match o with
  | GSeq o' => GInv s' (spec_map m o') (hi_upd hi o') /\
               match o' with Get k => out = Some (mget k m) | _ => out = None end
  | _ => GInv s' m hi /\ out = None
  end.
Proof.
  intros Hpos [HI Hmid Hld] Hs Ho. destruct o as [o'|b k|t k|t k|t k|t k]; cbn [gstep] in Hs.
  - (* a sequential step *)
    destruct (write_of o') as [[b k]|] eqn:Hw.
    + (* write *)
      destruct (find_batch b (pending (gbase s))) as [bt|] eqn:Hf; [|discriminate].
      destruct (write_guard grp pos b k _ (wcount s) (wmid s)) as [[wc' wm']|] eqn:Hg; [|discriminate].
      destruct (step (gbase s) o') as [[b' out']|] eqn:Hst; [|discriminate].
      inversion Hs; subst s' out; clear Hs.
      destruct (inv_step _ _ _ _ _ _ HI Hst Ho) as [HI' Hout].
      destruct (step_write_shape _ _ _ _ _ _ Hw Hst) as (w & Hwr & Hsm & ->).
      assert (Hm' : spec_map m o' = (k, w) :: m).
      { destruct o'; cbn [write_of] in Hw; try discriminate; inversion Hw; subst; cbn [spec_map] in *;
          inversion Hsm; reflexivity. }
      split; [|destruct o'; cbn [write_of] in Hw; try discriminate; reflexivity].
      destruct (write_guard_cases _ _ _ _ _ _ _ _ Hpos Hg) as [Hfree Hcase].
      (* the shape of the write *)
      unfold write in Hwr. rewrite Hf in Hwr.
      destruct (upd_batch b (add_write k w) (pending (gbase s))) as [p'|] eqn:Hu; [|discriminate].
      destruct (upd_batch_split _ _ _ _ Hu) as (l1 & b0 & b0' & l2 & Hp & Hp' & Hb0 & Hadd & Hfind).
      rewrite Hfind in Hf. inversion Hf; subst bt; clear Hf.
      unfold add_write in Hadd. destruct (b_sub b0) eqn:Hsub; [discriminate|]. inversion Hadd; subst b0'; clear Hadd.
      inversion Hwr; subst b'; clear Hwr. subst b.
      constructor; cbn [gbase wcount wmid loads pending].
      * exact HI'.
      * (* g_mid *)
        intros b1 k1 Hl.
        assert (Hcs : (b1 = b_epoch b0 /\ k1 = k /\ match alookup k (b_writes b0) with None => true | Some _ => false end = true)
                      \/ (b1 <> b_epoch b0 /\ alookup b1 (wmid s) = Some k1)).
        { destruct Hcase as [(_ & _ & ->)|[(_ & _ & ->)|(Hu1 & _ & ->)]].
          - right. split; [intros ->; rewrite Hfree in Hl; discriminate|exact Hl].
          - right. split; [intros ->; rewrite Hfree in Hl; discriminate|exact Hl].
          - cbn [alookup] in Hl. destruct (b1 =? b_epoch b0) eqn:E.
            + left. apply N.eqb_eq in E. inversion Hl; subst. auto.
            + right. apply N.eqb_neq in E. auto. }
        destruct Hcs as [(-> & -> & _)|(Hne & Hl0)].
        -- exists (Batch (b_epoch b0) false ((k, w) :: b_writes b0)). rewrite Hp'.
           split; [apply in_or_app; right; now left|]. split; [reflexivity|]. split; [reflexivity|].
           apply wrote_cons_eq.
        -- destruct (Hmid b1 k1 Hl0) as (bt & Hin & He & Hs1 & W). exists bt. rewrite Hp'. rewrite Hp in Hin.
           split; [|auto]. apply in_app_or in Hin. destruct Hin as [Hin|[<-|Hin]].
           ++ apply in_or_app; now left.
           ++ congruence.
           ++ apply in_or_app; right; now right.
      * (* g_loads *)
        intros t ph Hl. rewrite Hm', Hp'. specialize (Hld t ph Hl). rewrite Hp in Hld.
        eapply phase_ok_write; eauto.
    + (* no write *)
      assert (Hwm : (match o' with Submit b => alookup b (wmid s) = None | _ => True end) /\
                    exists b' , step (gbase s) o' = Some (b', out) /\ s' = GSt b' (wcount s) (wmid s) (loads s)).
      { destruct o'; try discriminate Hw;
          try (destruct (step (gbase s) _) as [[b' out']|] eqn:Hst; [|discriminate]; inversion Hs; subst; eauto).
        destruct (alookup b (wmid s)) eqn:E; [discriminate|].
        destruct (step (gbase s) _) as [[b' out']|] eqn:Hst; [|discriminate]. inversion Hs; subst; eauto. }
      clear Hs. destruct Hwm as [Hsubm (b' & Hst & ->)].
      destruct (inv_step _ _ _ _ _ _ HI Hst Ho) as [HI' Hout].
      assert (Hm' : spec_map m o' = m) by (destruct o'; try discriminate Hw; reflexivity).
      split; [|exact Hout]. rewrite Hm' in *.
      (* what the step does to the pending batches *)
      assert (Hpend : (forall bt, In bt (pending (gbase s)) -> b_sub bt = false ->
                         match o' with Submit b => b_epoch bt <> b | _ => True end ->
                         In bt (pending b')) /\
                      (forall k bt', In bt' (pending b') -> wrote k bt' = true ->
                         exists bt, In bt (pending (gbase s)) /\ b_epoch bt = b_epoch bt' /\ wrote k bt = true)).
      { destruct o'; try discriminate Hw; cbn [step] in Hst.
        - inversion Hst; subst; cbn [pending]. split.
          + intros bt Hin _ _. apply in_or_app; now left.
          + intros k bt' Hin W. apply in_app_or in Hin. destruct Hin as [Hin|[<-|[]]]; [eauto|discriminate W].
        - destruct (upd_batch b mark_sub (pending (gbase s))) as [p'|] eqn:Hu; [|discriminate].
          inversion Hst; subst; cbn [pending].
          destruct (upd_batch_split _ _ _ _ Hu) as (l1 & b0 & b0' & l2 & Hp & -> & Hb0 & Hm & _).
          unfold mark_sub in Hm. destruct (b_sub b0); [discriminate|]. inversion Hm; subst b0'; clear Hm.
          rewrite Hp. split.
          + intros bt Hin _ Hne. apply in_app_or in Hin. destruct Hin as [Hin|[<-|Hin]].
            * apply in_or_app; now left.
            * congruence.
            * apply in_or_app; right; now right.
          + intros k bt' Hin W. apply in_app_or in Hin. destruct Hin as [Hin|[<-|Hin]].
            * exists bt'. split; [apply in_or_app; now left|auto].
            * exists b0. split; [apply in_or_app; right; now left|auto].
            * exists bt'. split; [apply in_or_app; right; now right|auto].
        - destruct (alookup k (cache (gbase s))) as [[v p]|]; inversion Hst; subst; cbn [pending]; split; eauto.
        - destruct (pending (gbase s)) as [|b r] eqn:Hp; [discriminate|]. destruct (b_sub b) eqn:Hsb; [|discriminate].
          inversion Hst; subst; cbn [pending]. split.
          + intros bt [<-|Hin] Hs0 _; [congruence|exact Hin].
          + intros k bt' Hin W. exists bt'. split; [now right|auto].
        - destruct (notify_one b k (notifyq (gbase s))); [|discriminate]. inversion Hst; subst; cbn [pending]. split; eauto.
        - destruct (alookup k (cache (gbase s))) as [[v p]|]; [|discriminate]. destruct (p <=? 0)%Z; [|discriminate].
          inversion Hst; subst; cbn [pending]. split; eauto. }
      destruct Hpend as [Hkeep Hshrink].
      assert (Hhi : hi_upd hi o' = hi) by (unfold hi_upd; now rewrite Hw). rewrite Hhi in *.
      constructor; cbn [gbase wcount wmid loads].
      * exact HI'.
      * intros b1 k1 Hl. destruct (Hmid b1 k1 Hl) as (bt & Hin & He & Hs1 & W). exists bt. split; [|auto].
        apply Hkeep; [exact Hin|exact Hs1|]. destruct o'; try exact I. intros Hb. rewrite <- He, Hb in Hl. congruence.
      * intros t ph Hl. eapply phase_ok_pend; [exact Hshrink|]. exact (Hld t ph Hl).
  - (* the counting half *)
    destruct pos; [congruence|discriminate|].
    destruct (alookup b (wmid s)) as [k'|] eqn:Hb; [|discriminate].
    destruct (k' =? k) eqn:E; [|discriminate]. apply N.eqb_eq in E. subst k'.
    inversion Hs; subst s' out; clear Hs. split; [|reflexivity].
    constructor; cbn [gbase wcount wmid loads].
    + exact HI.
    + intros b1 k1 Hl. destruct (N.eq_dec b b1) as [<-|Hne]; [rewrite alookup_aremove_eq in Hl; discriminate|].
      rewrite alookup_aremove_ne in Hl by exact Hne. now apply Hmid.
    + intros t ph Hl. specialize (Hld t ph Hl). destruct ph as [k1 c|k1 c|k1 c v]; cbn [phase_ok] in *.
      * destruct (N.eq_dec (grp k) (grp k1)) as [Hg|Hg].
        -- rewrite Hg, count_bump_eq. lia.
        -- now rewrite (count_bump_ne _ _ _ Hg).
      * now apply guard_ok_bump_after.
      * now apply guard_ok_bump_after.
  - (* GStart *)
    inversion Hs; subst s' out; clear Hs. split; [|reflexivity].
    constructor; cbn [gbase wcount wmid loads]; [exact HI|exact Hmid|].
    intros t' ph Hl. destruct (N.eq_dec t t') as [<-|Hne].
    + rewrite alookup_aset_eq in Hl. inversion Hl; subst. cbn [phase_ok]. lia.
    + rewrite alookup_aset_ne in Hl by exact Hne. exact (Hld _ _ Hl).
  - (* GMiss *)
    destruct (alookup t (loads s)) as [[k' c|k' c|k' c v]|] eqn:Ht; try discriminate.
    destruct (alookup k (cache (gbase s))) eqn:Ec; [discriminate|].
    destruct (k' =? k) eqn:E; [|discriminate]. apply N.eqb_eq in E. subst k'.
    inversion Hs; subst s' out; clear Hs. split; [|reflexivity].
    constructor; cbn [gbase wcount wmid loads]; [exact HI|exact Hmid|].
    intros t' ph Hl. destruct (N.eq_dec t t') as [<-|Hne].
    + rewrite alookup_aset_eq in Hl. inversion Hl; subst. cbn [phase_ok].
      pose proof (Hld t _ Ht) as Hle. cbn [phase_ok] in Hle. split; [exact Hle|]. intros _. split; [|auto].
      pose proof (vacant_unwritten _ _ _ k HI Ec) as Hv. rewrite Forall_forall in Hv.
      intros bt Hin W. rewrite (Hv bt Hin) in W. discriminate.
    + rewrite alookup_aset_ne in Hl by exact Hne. exact (Hld _ _ Hl).
  - (* GRead *)
    destruct (alookup t (loads s)) as [[k' c|k' c|k' c v]|] eqn:Ht; try discriminate.
    destruct (k' =? k) eqn:E; [|discriminate]. apply N.eqb_eq in E. subst k'.
    inversion Hs; subst s' out; clear Hs. split; [|reflexivity].
    constructor; cbn [gbase wcount wmid loads]; [exact HI|exact Hmid|].
    intros t' ph Hl. destruct (N.eq_dec t t') as [<-|Hne].
    + rewrite alookup_aset_eq in Hl. inversion Hl; subst. cbn [phase_ok].
      pose proof (Hld t _ Ht) as [Hle HG]. cbn [phase_ok] in *. split; [exact Hle|]. intros Hc.
      destruct (HG Hc) as [Hcov _]. split; [exact Hcov|]. intros Hnm.
      rewrite (inv_store _ _ _ HI k). rewrite pend_val_none; [reflexivity|].
      rewrite Forall_forall. intros bt Hin. destruct (wrote k bt) eqn:W; [|reflexivity].
      exfalso. exact (Hnm _ (Hcov bt Hin W)).
    + rewrite alookup_aset_ne in Hl by exact Hne. exact (Hld _ _ Hl).
  - (* GInstall *)
    destruct (alookup t (loads s)) as [[k' c|k' c|k' c v]|] eqn:Ht; try discriminate.
    destruct (k' =? k) eqn:E; [|discriminate]. apply N.eqb_eq in E. subst k'.
    inversion Hs; subst s' out; clear Hs. split; [|reflexivity].
    assert (Hothers : forall t' ph, alookup t' (aremove t (loads s)) = Some ph ->
                                    phase_ok (wcount s) (wmid s) (pending (gbase s)) m ph).
    { intros t' ph Hl. destruct (N.eq_dec t t') as [<-|Hne]; [rewrite alookup_aremove_eq in Hl; discriminate|].
      rewrite alookup_aremove_ne in Hl by exact Hne. exact (Hld _ _ Hl). }
    destruct (alookup k (cache (gbase s))) as [e|] eqn:Ec.
    + (* occupied *)
      constructor; cbn [gbase wcount wmid loads pending]; [|exact Hmid|exact Hothers].
      destruct (gbase s); exact HI.
    + destruct (count_of (grp k) (wcount s) =? c) eqn:Ecnt.
      * (* vacant, count unchanged: the read is the latest write *)
        apply N.eqb_eq in Ecnt.
        pose proof (Hld t _ Ht) as [Hle HG]. cbn [phase_ok] in *. destruct (HG Ecnt) as [Hcov HP].
        pose proof (vacant_unwritten _ _ _ k HI Ec) as Hv. rewrite Forall_forall in Hv.
        assert (Hnm : nomid k (wmid s)).
        { intros b Hb. destruct (Hmid b k Hb) as (bt & Hin & _ & _ & W). rewrite (Hv bt Hin) in W. discriminate. }
        constructor; cbn [gbase wcount wmid loads pending]; [|exact Hmid|exact Hothers].
        apply inv_fill; [exact HI|exact Ec|exact (HP Hnm)].
      * (* refused *)
        constructor; cbn [gbase wcount wmid loads pending]; [|exact Hmid|exact Hothers].
        destruct (gbase s); exact HI.
Qed.

Lemma ginv_init : GInv ginit [] [].
Proof. constructor; cbn; [exact inv_init|discriminate|discriminate]. Qed.

Lemma guard_ryw_gen pos ops : pos <> BumpBefore -> forall s m hi s' outs,
  GInv s m hi -> grun grp pos s ops = Some (s', outs) -> ordered hi (flat_map gseq_of ops) = true ->
  outs = spec m (flat_map gseq_of ops).
Proof.
  intros Hpos. induction ops as [|o r IH]; intros s m hi s' outs HI Hr Ho; cbn [grun] in Hr.
  - inversion Hr; reflexivity.
  - destruct (gstep grp pos s o) as [[s1 out]|] eqn:Hs; [|discriminate].
    destruct (grun grp pos s1 r) as [[s2 outs2]|] eqn:Hr2; [|discriminate]. inversion Hr; subst s' outs; clear Hr.
    cbn [flat_map] in *. destruct o as [o'|b k|t k|t k|t k|t k]; cbn [gseq_of app] in *;
      try (destruct (ginv_step _ _ _ _ _ _ _ Hpos HI Hs I) as [HI' ->]; exact (IH _ _ _ _ _ HI' Hr2 Ho)).
    assert (Hok : ord_ok hi o' = true /\ ordered (hi_upd hi o') (flat_map gseq_of r) = true).
    { cbn [ordered] in Ho. unfold ord_ok, hi_upd. destruct (write_of o') as [[b k]|]; [|auto].
      apply andb_prop in Ho. exact Ho. }
    destruct Hok as [Hok1 Hok2].
    destruct (ginv_step _ _ _ _ _ _ _ Hpos HI Hs Hok1) as [HI' Hout].
    specialize (IH _ _ _ _ _ HI' Hr2 Hok2).
    destruct o'; cbn [spec spec_map] in *; subst out; try exact IH. now rewrite IH.
Qed.
End Proof.

(** Read-your-writes for the guarded miss path, for every schedule: any number of loader
    threads, each anywhere in its miss path (and free to start over), writers whose counted
    writes are in two halves when the [fetch_add] comes after the entry operation, the commit
    thread, the after-commit thread and the eviction policy, in any enabled order; any
    grouping of the keys into counters.  If the writes to one key are issued in the epoch
    order of their batches, every answer is that of a last-write-wins map over the writes
    issued before it. *)
Theorem guard_ryw : forall (grp : key -> N) pos ops s outs,
  pos <> BumpBefore ->
  grun grp pos ginit ops = Some (s, outs) -> ordered [] (flat_map gseq_of ops) = true ->
  outs = spec [] (flat_map gseq_of ops).
Proof. intros grp pos ops s outs Hpos. apply guard_ryw_gen; [exact Hpos|apply ginv_init]. Qed.

(** what the proof rests on, as a statement about the reachable states: a cached value is the
    latest write to its key (pinned or not), and an accepted fill keeps it so *)
Theorem guard_cache_coherent : forall (grp : key -> N) pos ops s outs,
  pos <> BumpBefore ->
  grun grp pos ginit ops = Some (s, outs) -> ordered [] (flat_map gseq_of ops) = true ->
  forall k v p, alookup k (cache (gbase s)) = Some (v, p) ->
                v = last (spec [] (flat_map gseq_of ops ++ [Get k])) None.
Proof.
  intros grp pos ops s outs Hpos Hr Ho k v p Hc.
  assert (Hr' : grun grp pos ginit (ops ++ [GSeq (Get k)]) = Some (s, outs ++ [v])).
  { clear Ho. revert Hr. generalize ginit. revert outs.
    induction ops as [|o r IH]; intros outs s0 Hr; cbn [grun app] in *.
    - inversion Hr; subst. cbn [gstep write_of step]. rewrite Hc. destruct (gbase s) eqn:Eb.
      cbn. destruct s; cbn in *; subst; reflexivity.
    - destruct (gstep grp pos s0 o) as [[s1 out]|]; [|discriminate].
      destruct (grun grp pos s1 r) as [[s2 outs2]|] eqn:Hr2; [|discriminate]. inversion Hr; subst.
      rewrite (IH _ _ Hr2). destruct out; reflexivity. }
  assert (Hf : flat_map gseq_of (ops ++ [GSeq (Get k)]) = flat_map gseq_of ops ++ [Get k]).
  { rewrite flat_map_app. reflexivity. }
  assert (Ho' : ordered [] (flat_map gseq_of (ops ++ [GSeq (Get k)])) = true).
  { rewrite Hf. clear -Ho. revert Ho. generalize (@nil (key * N)).
    induction (flat_map gseq_of ops) as [|o r IH]; intros hi Ho; cbn [app ordered] in *; [reflexivity|].
    destruct (write_of o) as [[b k']|]; [|now apply IH].
    apply andb_prop in Ho. destruct Ho as [H1 H2]. rewrite H1. now apply IH. }
  pose proof (guard_ryw grp pos _ _ _ Hpos Hr' Ho') as Hout. rewrite Hf in Hout.
  rewrite <- Hout. now rewrite last_last.
Qed.

(** the code as it is now (commit cea103e: entry operation first, [fetch_add] second) *)
Corollary guard_ryw_code : forall (grp : key -> N) ops s outs,
  grun grp BumpAfter ginit ops = Some (s, outs) -> ordered [] (flat_map gseq_of ops) = true ->
  outs = spec [] (flat_map gseq_of ops).
Proof. intros grp ops s outs. apply guard_ryw. discriminate. Qed.
