(** C09 — the miss path of [WideColumnCache::get] with the write-count guard
    (crates/storage/src/wide_column_cache.rs: guard introduced by commit 649e55c, position
    of the [fetch_add] corrected by commit cea103e).  Executable definitions and witnesses
    only; the proofs are in FillGuardProof.v.

    The code as it is now (cea103e):
      get:     loop { c := write_count(key).load();              (GStart)
                      fast path: entry found => return it;        (GSeq (Get k), a hit)
                                 not found                        (GMiss)
                      v := init()   -- store read, no lock held   (GRead)
                      entry(key): Vacant and write_count(key) == c => insert {v, pin 0}
                                  otherwise nothing               (GInstall)
                    }                                             (the loop starts again)
      insert / remove with [updated]:  tiny_lfu.entry(key, ..);   (GSeq (Insert ..) / GSeq (Remove ..))
                                       write_count(key).fetch_add(1)   (GBump)
    [write_count(key)] is one counter per group of keys ([grp], a hash of the key).

    The position of the [fetch_add] relative to the entry operation of the write is the
    parameter [pos] of the model; both halves of a counted write are steps of their own,
    steps of other threads come in between:
    - [BumpAfter]: the code as it is now (cea103e): entry operation, then [fetch_add];
    - [BumpBefore]: the code of commit 649e55c: [fetch_add], then the entry operation.
      NOT sufficient: [guard_race_witness], [FillGuardProof.guard_before_refuted]
      (reproduced on the real code of 649e55c before cea103e was made);
    - [BumpInside]: a variant that is not in the code: the [fetch_add] inside the closure handed
      to [tiny_lfu.entry], i.e. atomic with the entry operation as far as [entry]/[get_map] on
      the same key are concerned.

    [wmid] holds, per write batch (= per writer: a batch is [&mut]), the key of a first
    write that is between its two halves.  While a batch is there its writer does nothing
    else (program order): no other write into the batch, no submit.

    The sequential [Get] of Wide.v stays available ([GSeq (Get k)]): on a hit it is the fast
    path, on a miss it is the whole miss path without interruption (a special case of
    [GStart; GMiss; GRead; GInstall; hit]).  All answers come from [GSeq (Get k)]: after
    [GInstall] the loop of the code starts again and answers by the fast path (or misses
    again).  Loader threads are not limited (the single-flight table only removes loaders). *)
From QV Require Import Common.Prelude Cache.Wide.
Open Scope N_scope.

Inductive bump_pos := BumpBefore | BumpInside | BumpAfter.

Inductive lphase :=
| LStarted (k : key) (c : N)                  (* counter remembered *)
| LMissed (k : key) (c : N)                   (* ... and the fast path found nothing *)
| LRead (k : key) (c : N) (v : option val).   (* ... and init() answered v *)

Record gst := GSt {
  gbase : st;
  wcount : list (N * N);        (* group -> number of counted writes; no binding = 0 *)
  wmid : list (N * key);        (* batch -> key of the write that is half done *)
  loads : list (N * lphase)     (* loader thread -> where it is *)
}.
Definition ginit : gst := GSt init [] [] [].

Inductive gop :=
| GSeq (o : op)                 (* a step of the sequential model (for a counted write: the entry operation) *)
| GBump (b : N) (k : key)       (* the [fetch_add] of a first write of [k] into batch [b], when it is a step of its own *)
| GStart (t : N) (k : key)
| GMiss (t : N) (k : key)
| GRead (t : N) (k : key)
| GInstall (t : N) (k : key).

Definition count_of (g : N) (wc : list (N * N)) : N :=
  match alookup g wc with Some n => n | None => 0 end.
Definition bump (g : N) (wc : list (N * N)) : list (N * N) := aset g (count_of g wc + 1) wc.

Section Guard.
Variable grp : key -> N.        (* key -> index into [write_counts] *)
Variable pos : bump_pos.

(** what the entry operation of a write of [k] into batch [b] does to counter and [wmid];
    [updated] = first write of [k] in this batch *)
Definition write_guard (b : N) (k : key) (updated : bool) (wc : list (N * N)) (wm : list (N * key))
  : option (list (N * N) * list (N * key)) :=
  match pos with
  | BumpBefore =>
      match updated, alookup b wm with
      | true, Some k' => if k' =? k then Some (wc, aremove b wm) else None   (* second half *)
      | false, None => Some (wc, wm)
      | _, _ => None
      end
  | BumpInside =>
      match alookup b wm with                                                (* always None here *)
      | None => Some (if updated then bump (grp k) wc else wc, wm)
      | Some _ => None
      end
  | BumpAfter =>
      match alookup b wm with
      | None => Some (wc, if updated then (b, k) :: wm else wm)             (* first half *)
      | Some _ => None
      end
  end.

Definition gstep (s : gst) (o : gop) : option (gst * option (option val)) :=
  match o with
  | GSeq o' =>
      do (wc', wm') <-
        match write_of o' with
        | Some (b, k) =>
            do bt <- find_batch b (pending (gbase s));
            write_guard b k (match alookup k (b_writes bt) with None => true | Some _ => false end)
                        (wcount s) (wmid s)
        | None =>
            match o' with
            | Submit b => match alookup b (wmid s) with None => Some (wcount s, wmid s) | Some _ => None end
            | _ => Some (wcount s, wmid s)
            end
        end;
      do (b', out) <- step (gbase s) o';
      Some (GSt b' wc' wm' (loads s), out)
  | GBump b k =>
      match pos with
      | BumpBefore =>
          do bt <- find_batch b (pending (gbase s));
          match b_sub bt, alookup k (b_writes bt), alookup b (wmid s) with
          | false, None, None =>
              Some (GSt (gbase s) (bump (grp k) (wcount s)) ((b, k) :: wmid s) (loads s), None)
          | _, _, _ => None
          end
      | BumpInside => None
      | BumpAfter =>
          match alookup b (wmid s) with
          | Some k' =>
              if k' =? k
              then Some (GSt (gbase s) (bump (grp k) (wcount s)) (aremove b (wmid s)) (loads s), None)
              else None
          | None => None
          end
      end
  | GStart t k =>
      Some (GSt (gbase s) (wcount s) (wmid s)
                (aset t (LStarted k (count_of (grp k) (wcount s))) (loads s)), None)
  | GMiss t k =>
      match alookup t (loads s), alookup k (cache (gbase s)) with
      | Some (LStarted k' c), None =>
          if k' =? k
          then Some (GSt (gbase s) (wcount s) (wmid s) (aset t (LMissed k c) (loads s)), None)
          else None
      | _, _ => None
      end
  | GRead t k =>
      match alookup t (loads s) with
      | Some (LMissed k' c) =>
          if k' =? k
          then Some (GSt (gbase s) (wcount s) (wmid s)
                         (aset t (LRead k c (mget k (store (gbase s)))) (loads s)), None)
          else None
      | _ => None
      end
  | GInstall t k =>
      match alookup t (loads s) with
      | Some (LRead k' c v) =>
          if k' =? k then
            let b := gbase s in
            let c' := match alookup k (cache b) with
                      | None => if count_of (grp k) (wcount s) =? c
                                then aset k (v, 0%Z) (cache b)    (* Vacant, count unchanged: insert *)
                                else cache b                       (* Vacant, count changed: nothing *)
                      | Some _ => cache b                          (* Occupied: nothing *)
                      end in
            Some (GSt (St (store b) c' (next_epoch b) (pending b) (notifyq b))
                      (wcount s) (wmid s) (aremove t (loads s)), None)
          else None
      | _ => None
      end
  end.

Fixpoint grun (s : gst) (ops : list gop) : option (gst * list (option val)) :=
  match ops with
  | [] => Some (s, [])
  | o :: r =>
      match gstep s o with
      | None => None
      | Some (s', out) =>
          match grun s' r with
          | None => None
          | Some (s'', outs) => Some (s'', match out with Some x => x :: outs | None => outs end)
          end
      end
  end.
End Guard.

(** the sequential operations of a history, for [spec] and [ordered]: a write is issued where
    its entry operation stands *)
Definition gseq_of (o : gop) : list op := match o with GSeq o' => [o'] | _ => [] end.

(** * Witnesses (key 7 is in group 7 of 16) *)
Definition grp16 (k : key) : N := k mod 16.

(** The history of [FillRace.fill_race_witness] with the new steps: the load starts, misses
    and reads "absent"; a writer inserts 1, the batch becomes durable and is notified, the
    entry is evicted; the install is refused; the next [Get] answers 1.  One version per
    position of the [fetch_add]. *)
Definition old_witness (pos : bump_pos) : list gop :=
  [GStart 1 7; GMiss 1 7; GRead 1 7; GSeq NewBatch] ++
  match pos with
  | BumpBefore => [GBump 0 7; GSeq (Insert 0 7 1)]
  | BumpInside => [GSeq (Insert 0 7 1)]
  | BumpAfter => [GSeq (Insert 0 7 1); GBump 0 7]
  end ++
  [GSeq (Submit 0); GSeq BgCommit; GSeq (BgNotify 0 7); GSeq (Evict 7); GInstall 1 7; GSeq (Get 7)].

(** The ordering of commit 649e55c ([BumpBefore]): the writer has counted its write and has
    not yet reached the entry operation; the load starts in this window (it remembers the count that already includes
    the write, finds no entry, reads "absent" from the store); then the write is applied,
    becomes durable, is notified and evicted; the install finds the slot vacant and the
    count unchanged and puts "absent" into the cache. *)
Definition guard_race_witness : list gop :=
  [GSeq NewBatch; GBump 0 7; GStart 1 7; GMiss 1 7; GRead 1 7; GSeq (Insert 0 7 1); GSeq (Submit 0);
   GSeq BgCommit; GSeq (BgNotify 0 7); GSeq (Evict 7); GInstall 1 7; GSeq (Get 7)].

(** A refused fill that is retried: loader 1 is overtaken by the insert of 5 (refused, the
    slot is vacant again after the eviction), starts again and installs 5; meanwhile loader 2
    fills key 8 (same counter when all keys share one group) undisturbed by later steps;
    a remove follows and is seen. *)
Definition retry_history (pos : bump_pos) : list gop :=
  [GSeq NewBatch; GStart 1 7; GMiss 1 7; GRead 1 7] ++
  match pos with
  | BumpBefore => [GBump 0 7; GSeq (Insert 0 7 5)]
  | BumpInside => [GSeq (Insert 0 7 5)]
  | BumpAfter => [GSeq (Insert 0 7 5); GBump 0 7]
  end ++
  [GSeq (Get 7); GSeq (Submit 0); GSeq BgCommit; GSeq (BgNotify 0 7); GSeq (Evict 7);
   GInstall 1 7;                                         (* refused: vacant, count changed *)
   GStart 1 7; GMiss 1 7; GStart 2 8; GMiss 2 8; GRead 2 8; GRead 1 7;
   GInstall 2 8; GInstall 1 7;                           (* both accepted *)
   GSeq (Get 7); GSeq (Get 8); GSeq NewBatch] ++
  match pos with
  | BumpBefore => [GBump 1 7; GSeq (Remove 1 7)]
  | BumpInside => [GSeq (Remove 1 7)]
  | BumpAfter => [GSeq (Remove 1 7); GBump 1 7]
  end ++
  [GSeq (Get 7)].
