(** C09 — facts about the staging log (binary max-heap in array order) and the repaired
    (last-writer-wins) overlay, used by the read-your-writes proof of the key→set map.

    What the proof needs of the heap is little: [push] keeps the elements and keeps a
    maximal epoch at the root; [pop] only loses elements; hence [flush_up_to e] either
    empties the log (all epochs <= e) or leaves it untouched (the root, a maximum, is > e):
    with a max-heap the flush is all-or-nothing. *)
From QV Require Import Common.Prelude Cache.SetLog.
Open Scope N_scope.

(** * lists *)
Lemma upd_length {A} (l : list A) i a : length (upd l i a) = length l.
Proof. revert i. induction l as [|x r IH]; intros [|i]; cbn [upd length]; auto. Qed.
Lemma nth_upd_eq {A} (l : list A) i a d : (i < length l)%nat -> nth i (upd l i a) d = a.
Proof. revert i. induction l as [|x r IH]; intros [|i] H; cbn [upd nth length] in *; try lia; auto. apply IH. lia. Qed.
Lemma nth_upd_ne {A} (l : list A) i j a d : i <> j -> nth j (upd l i a) d = nth j l d.
Proof.
  revert i j. induction l as [|x r IH]; intros [|i] [|j] H; cbn [upd nth]; auto; try congruence.
Qed.
Lemma In_upd {A} (l : list A) i a x : In x (upd l i a) -> x = a \/ In x l.
Proof.
  revert i. induction l as [|y r IH]; intros [|i] H; cbn [upd] in H; auto.
  - destruct H as [H|H]; [left; auto|right; now right].
  - destruct H as [H|H]; [right; now left|]. destruct (IH _ H); auto. right; now right.
Qed.

Lemma swap_length h i j : length (swap h i j) = length h.
Proof. unfold swap. now rewrite !upd_length. Qed.
Lemma nth_swap h i j p : (i < length h)%nat -> (j < length h)%nat ->
  nth p (swap h i j) dflt = if (p =? j)%nat then nth i h dflt else if (p =? i)%nat then nth j h dflt else nth p h dflt.
Proof.
  intros Hi Hj. unfold swap. destruct (p =? j)%nat eqn:Ej.
  - apply Nat.eqb_eq in Ej. subst p. apply nth_upd_eq. now rewrite upd_length.
  - apply Nat.eqb_neq in Ej. rewrite nth_upd_ne by auto. destruct (p =? i)%nat eqn:Ei.
    + apply Nat.eqb_eq in Ei. subst p. now apply nth_upd_eq.
    + apply Nat.eqb_neq in Ei. now rewrite nth_upd_ne by auto.
Qed.
Lemma swap_In h i j x : (i < length h)%nat -> (j < length h)%nat -> (In x (swap h i j) <-> In x h).
Proof.
  intros Hi Hj. split; intros H.
  - destruct (In_nth _ _ dflt H) as (p & Hp & E). rewrite swap_length in Hp. rewrite nth_swap in E by auto.
    subst x. destruct (p =? j)%nat; [now apply nth_In|]. destruct (p =? i)%nat; now apply nth_In.
  - destruct (In_nth _ _ dflt H) as (p & Hp & E). subst x.
    destruct (Nat.eq_dec p i) as [->|Ni].
    + replace (nth i h dflt) with (nth j (swap h i j) dflt); [apply nth_In; now rewrite swap_length|].
      rewrite nth_swap by auto. now rewrite Nat.eqb_refl.
    + destruct (Nat.eq_dec p j) as [->|Nj].
      * replace (nth j h dflt) with (nth i (swap h i j) dflt); [apply nth_In; now rewrite swap_length|].
        rewrite nth_swap by auto. rewrite Nat.eqb_refl. destruct (i =? j)%nat eqn:E; [apply Nat.eqb_eq in E; now subst|reflexivity].
      * replace (nth p h dflt) with (nth p (swap h i j) dflt); [apply nth_In; now rewrite swap_length|].
        rewrite nth_swap by auto. apply Nat.eqb_neq in Ni, Nj. now rewrite Ni, Nj.
Qed.

(** * sift_up, push *)
Lemma parent_lt p : (Nat.div (S p - 1) 2 < S p)%nat.
Proof. replace (S p - 1)%nat with p by lia. pose proof (Nat.div_le_upper_bound p 2 p). assert (p / 2 <= p)%nat; [|lia]. apply Nat.div_le_upper_bound; lia. Qed.

Lemma sift_up_length f h pos : length (sift_up f h pos) = length h.
Proof.
  revert h pos. induction f as [|f IH]; intros h pos; cbn [sift_up]; [reflexivity|].
  destruct pos as [|p]; [reflexivity|]. destruct (_ <=? _); [reflexivity|]. rewrite IH. apply swap_length.
Qed.
Lemma sift_up_In f h pos x : (pos < length h)%nat -> (In x (sift_up f h pos) <-> In x h).
Proof.
  revert h pos. induction f as [|f IH]; intros h pos Hp; cbn [sift_up]; [tauto|].
  destruct pos as [|p]; [tauto|]. destruct (_ <=? _); [tauto|].
  pose proof (parent_lt p) as Hpar. rewrite IH by (rewrite swap_length; lia). apply swap_In; lia.
Qed.

(** a maximal epoch sits at the root *)
Definition root_max (h : list entry) : Prop := forall x, In x h -> e_epoch x <= e_epoch (nth 0 h dflt).

Lemma sift_up_root f h pos :
  (pos < f)%nat -> (pos < length h)%nat ->
  (forall p, (p < length h)%nat -> p <> pos -> e_epoch (nth p h dflt) <= e_epoch (nth 0 h dflt)) ->
  root_max (sift_up f h pos).
Proof.
  revert h pos. induction f as [|f IH]; intros h pos Hf Hp Hall; [lia|]. cbn [sift_up].
  assert (Hdone : (forall p, (p < length h)%nat -> e_epoch (nth p h dflt) <= e_epoch (nth 0 h dflt)) -> root_max h).
  { intros Hx x Hin. destruct (In_nth _ _ dflt Hin) as (p & Hpl & <-). now apply Hx. }
  destruct pos as [|p].
  - apply Hdone. intros q Hq. destruct q; [lia|]. apply Hall; [exact Hq|lia].
  - pose proof (parent_lt p) as Hpar. set (par := Nat.div (S p - 1) 2) in *. clearbody par.
    destruct (e_epoch (nth (S p) h dflt) <=? e_epoch (nth par h dflt)) eqn:Le.
    + apply N.leb_le in Le. apply Hdone. intros q Hq. destruct (Nat.eq_dec q (S p)) as [->|Nq]; [|now apply Hall].
      destruct par as [|par']; [exact Le|]. etransitivity; [exact Le|]. apply Hall; lia.
    + apply N.leb_gt in Le. apply IH; [lia|rewrite swap_length; lia|].
      intros q Hq Nq. rewrite swap_length in Hq. rewrite !nth_swap by lia.
      destruct (Nat.eqb_spec q par) as [Eqp|Nqp]; [congruence|].
      destruct (Nat.eqb_spec 0 par) as [E0|N0].
      * destruct (Nat.eqb_spec q (S p)) as [Eqs|Nqs].
        -- lia.
        -- specialize (Hall q Hq Nqs). subst par. lia.
      * destruct (Nat.eqb_spec 0 (S p)) as [E1|_]; [lia|].
        destruct (Nat.eqb_spec q (S p)) as [Eqs|Nqs].
        -- apply Hall; lia.
        -- now apply Hall.
Qed.

Lemma push_In h e x : In x (push h e) <-> x = e \/ In x h.
Proof.
  unfold push. rewrite sift_up_In by (rewrite app_length; cbn; lia). rewrite in_app_iff. cbn. intuition.
Qed.
Lemma push_root_max h e : root_max h -> root_max (push h e).
Proof.
  intros Hr. unfold push. apply sift_up_root; [lia|rewrite app_length; cbn; lia|].
  intros p Hp Np. rewrite app_length in Hp. cbn in Hp.
  assert (Hp' : (p < length h)%nat) by lia.
  destruct h as [|r t]; [cbn in Hp'; lia|].
  cbn [length] in Hp'. rewrite !app_nth1 by (cbn [length]; lia). apply Hr. apply nth_In. exact Hp'.
Qed.

(** * sift_down, pop, flush *)
Lemma sift_down_spec f : forall h pos, (pos < length h)%nat ->
  length (fst (sift_down f h pos)) = length h /\ (snd (sift_down f h pos) < length h)%nat /\
  forall x, In x (fst (sift_down f h pos)) -> In x h.
Proof.
  induction f as [|f IH]; intros h pos Hp; cbn [sift_down]; [cbn; auto|].
  destruct (2 * pos + 1 + 2 <=? length h)%nat eqn:E1.
  - apply Nat.leb_le in E1.
    set (c := if e_epoch (nth (2 * pos + 1) h dflt) <=? e_epoch (nth (2 * pos + 1 + 1) h dflt)
              then (2 * pos + 1 + 1)%nat else (2 * pos + 1)%nat).
    assert (Hc : (c < length h)%nat) by (subst c; destruct (_ <=? _); lia).
    destruct (IH (swap h pos c) c) as (L & P & I); [rewrite swap_length; exact Hc|].
    rewrite swap_length in L, P. split; [exact L|]. split; [exact P|].
    intros x Hx. apply I in Hx. now apply swap_In in Hx.
  - destruct (2 * pos + 1 + 1 =? length h)%nat eqn:E2.
    + apply Nat.eqb_eq in E2. cbn [fst snd]. rewrite swap_length. split; [reflexivity|]. split; [lia|].
      intros x Hx. apply swap_In in Hx; [exact Hx|lia|lia].
    + cbn [fst snd]. auto.
Qed.

Lemma pop_In h x : In x (pop h) -> In x h.
Proof.
  unfold pop. destruct h as [|a t]; [cbn; tauto|].
  pose proof (@app_removelast_last _ (a :: t) dflt ltac:(discriminate)) as E.
  destruct (removelast (a :: t)) as [|r0 r] eqn:R; [cbn; tauto|].
  set (h1 := upd (r0 :: r) 0 (last (a :: t) dflt)).
  assert (L1 : (0 < length h1)%nat) by (subst h1; rewrite upd_length; cbn; lia).
  destruct (sift_down_spec (length h1) h1 0 L1) as (L & P & I).
  destruct (sift_down (length h1) h1 0) as [h2 pos] eqn:SD. cbn [fst snd] in *.
  intros Hx. apply sift_up_In in Hx; [|lia]. apply I in Hx. subst h1. apply In_upd in Hx.
  rewrite E. apply in_or_app. destruct Hx as [->|Hx]; [right; now left|now left].
Qed.
Lemma pop_length h : h <> [] -> (length (pop h) < length h)%nat.
Proof.
  intros Hne. unfold pop.
  pose proof (@app_removelast_last _ h dflt Hne) as E.
  assert (Len : length h = S (length (removelast h))).
  { rewrite E at 1. rewrite app_length. cbn. lia. }
  destruct (removelast h) as [|r0 r] eqn:R; [cbn; lia|].
  set (h1 := upd (r0 :: r) 0 (last h dflt)).
  assert (L1 : (0 < length h1)%nat) by (subst h1; rewrite upd_length; cbn; lia).
  destruct (sift_down_spec (length h1) h1 0 L1) as (L & P & I).
  destruct (sift_down (length h1) h1 0) as [h2 pos] eqn:SD. cbn [fst snd] in *.
  rewrite sift_up_length, L. subst h1. rewrite upd_length. lia.
Qed.

Lemma flush_all fuel : forall e h, (length h <= fuel)%nat ->
  (forall x, In x h -> e_epoch x <= e) -> flush_up_to_f fuel e h = [].
Proof.
  induction fuel as [|f IH]; intros e h Hl Hall.
  - destruct h; [reflexivity|cbn in Hl; lia].
  - cbn [flush_up_to_f]. destruct h as [|r t]; [reflexivity|].
    assert (Hr : e_epoch r <=? e = true) by (apply N.leb_le, Hall; now left). rewrite Hr.
    apply IH.
    + pose proof (pop_length (r :: t) ltac:(discriminate)). lia.
    + intros x Hx. apply Hall. now apply pop_In.
Qed.

(** with a max-heap, [FlushUpTo] is all-or-nothing *)
Lemma flush_dichotomy e h : root_max h ->
  (flush_up_to e h = [] /\ forall x, In x h -> e_epoch x <= e) \/
  (flush_up_to e h = h /\ exists x, In x h /\ e < e_epoch x).
Proof.
  intros Hr. unfold flush_up_to. destruct h as [|r t]; [left; split; [reflexivity|intros x []]|].
  destruct (e_epoch r <=? e) eqn:E.
  - left. apply N.leb_le in E.
    assert (Hall : forall x, In x (r :: t) -> e_epoch x <= e).
    { intros x Hx. specialize (Hr x Hx). cbn [nth] in Hr. lia. }
    split; [|exact Hall]. apply flush_all; [lia|exact Hall].
  - right. apply N.leb_gt in E. split.
    + cbn [length flush_up_to_f]. now rewrite (proj2 (N.leb_gt _ _) E).
    + exists r. split; [now left|exact E].
Qed.
Lemma root_max_nil : root_max [].
Proof. intros x []. Qed.

(** * small sets *)
Lemma mem_In x l : mem x l = true <-> In x l.
Proof.
  unfold mem. rewrite existsb_exists. split.
  - intros (y & Hy & E). apply N.eqb_eq in E. now subst.
  - intros H. exists x. split; [exact H|apply N.eqb_refl].
Qed.
Lemma del_In x y l : In y (del x l) <-> In y l /\ y <> x.
Proof.
  unfold del. rewrite filter_In. split; intros [H1 H2]; split; auto.
  - intros ->. now rewrite N.eqb_refl in H2.
  - apply negb_true_iff. apply N.eqb_neq. congruence.
Qed.
Lemma add_In x y l : In y (add x l) <-> y = x \/ In y l.
Proof.
  unfold add. destruct (mem x l) eqn:M.
  - apply mem_In in M. split; [auto|]. intros [->|H]; auto.
  - rewrite in_app_iff. cbn. intuition.
Qed.
Lemma del_NoDup x l : NoDup l -> NoDup (del x l).
Proof. apply NoDup_filter. Qed.

(** * the last-writer-wins overlay *)
Definition is_last (v : N) (h : list entry) (e : entry) : Prop :=
  In e h /\ e_elem e = v /\ forall e', In e' h -> e_elem e' = v -> e_seq e' <= e_seq e.

Lemma last_op_gen v h : forall best,
  match best with Some y => e_elem y = v | None => True end ->
  match last_op v h best with
  | Some e => (In e h \/ best = Some e) /\ e_elem e = v /\
              (forall e', In e' h -> e_elem e' = v -> e_seq e' <= e_seq e) /\
              (forall y, best = Some y -> e_seq y <= e_seq e)
  | None => best = None /\ forall e', In e' h -> e_elem e' <> v
  end.
Proof.
  induction h as [|x r IH]; intros best Hb; cbn [last_op].
  - destruct best as [y|]; [|split; [reflexivity|intros e' []]].
    split; [now right|]. split; [exact Hb|]. split; [intros e' []|]. intros y' E. inversion E. lia.
  - destruct (e_elem x =? v) eqn:Ex.
    + apply N.eqb_eq in Ex.
      assert (Hnew : match last_op v r (Some x) with
                     | Some e => In e (x :: r) /\ e_elem e = v /\
                                 (forall e', In e' (x :: r) -> e_elem e' = v -> e_seq e' <= e_seq e) /\
                                 e_seq x <= e_seq e
                     | None => False end).
      { specialize (IH (Some x) Ex). destruct (last_op v r (Some x)) as [e|]; [|destruct IH; discriminate].
        destruct IH as (A & B & C & D). split; [|split; [exact B|split]].
        - destruct A as [A|A]; [now right|inversion A; now left].
        - intros e' [<-|Hin] He; [apply D; reflexivity|now apply C].
        - apply D. reflexivity. }
      destruct best as [y|].
      * destruct (e_seq y <? e_seq x) eqn:Lt.
        -- apply N.ltb_lt in Lt. destruct (last_op v r (Some x)) as [e|]; [|contradiction].
           destruct Hnew as (A & B & C & D). split; [now left|]. split; [exact B|]. split; [exact C|].
           intros y' E. inversion E; subst. lia.
        -- apply N.ltb_ge in Lt. specialize (IH (Some y) Hb).
           destruct (last_op v r (Some y)) as [e|]; [|destruct IH; discriminate].
           destruct IH as (A & B & C & D). split; [|split; [exact B|split]].
           ++ destruct A as [A|A]; [left; now right|now right].
           ++ intros e' [<-|Hin] He; [specialize (D y eq_refl); lia|now apply C].
           ++ exact D.
      * destruct (last_op v r (Some x)) as [e|]; [|contradiction].
        destruct Hnew as (A & B & C & D). split; [now left|]. split; [exact B|]. split; [exact C|]. intros y E. discriminate.
    + apply N.eqb_neq in Ex. specialize (IH best Hb). destruct (last_op v r best) as [e|].
      * destruct IH as (A & B & C & D). split; [|split; [exact B|split; [|exact D]]].
        -- destruct A as [A|A]; [left; now right|now right].
        -- intros e' [<-|Hin] He; [congruence|now apply C].
      * destruct IH as (A & B). split; [exact A|]. intros e' [<-|Hin]; [exact Ex|now apply B].
Qed.

Lemma last_op_some v h e : last_op v h None = Some e -> is_last v h e.
Proof.
  intros H. pose proof (last_op_gen v h None I) as G. rewrite H in G. destruct G as (A & B & C & _).
  split; [|split; assumption]. destruct A as [A|A]; [exact A|discriminate].
Qed.
Lemma last_op_none v h : last_op v h None = None -> forall e', In e' h -> e_elem e' <> v.
Proof. intros H. pose proof (last_op_gen v h None I) as G. rewrite H in G. now destruct G. Qed.

Lemma elems_of_In h x : In x (elems_of h) <-> exists e, In e h /\ e_elem e = x.
Proof.
  induction h as [|y r IH]; cbn [elems_of].
  - split; [intros []|intros (e & [] & _)].
  - rewrite add_In, IH. split.
    + intros [->|(e & He & E)]; [exists y; split; [now left|reflexivity]|exists e; split; [now right|exact E]].
    + intros (e & [<-|He] & E); [now left|right; now exists e].
Qed.

(** membership in the two halves of the repaired snapshot *)
Lemma snap_lww_added h x : In x (fst (snap_lww h)) <-> exists e, last_op x h None = Some e /\ e_ins e = true.
Proof.
  unfold snap_lww. cbn [fst]. rewrite filter_In. unfold decides. split.
  - intros [_ H]. destruct (last_op x h None) as [e|]; [|discriminate]. exists e. split; [reflexivity|].
    now apply eqb_prop in H.
  - intros (e & He & Hi). split.
    + apply elems_of_In. destruct (last_op_some _ _ _ He) as (A & B & _). now exists e.
    + rewrite He, Hi. reflexivity.
Qed.
Lemma snap_lww_removed h x : In x (snd (snap_lww h)) <-> exists e, last_op x h None = Some e /\ e_ins e = false.
Proof.
  unfold snap_lww. cbn [snd]. rewrite filter_In. unfold decides. split.
  - intros [_ H]. destruct (last_op x h None) as [e|]; [|discriminate]. exists e. split; [reflexivity|].
    now apply eqb_prop in H.
  - intros (e & He & Hi). split.
    + apply elems_of_In. destruct (last_op_some _ _ _ He) as (A & B & _). now exists e.
    + rewrite He, Hi. reflexivity.
Qed.
