(** C09 — the miss path of [CacheKeyOfSetMap::get_entry] with the operation-count guard
    (crates/storage/src/key_of_set_map/cache.rs after commit 597cc55), on top of the REPAIRED
    sequential model of SetCache.v ([fix_iter = fix_overlay = true]).  Executable definitions
    and witnesses only; the proofs are in FillGuardSetProof.v.

    The code:
      get_entry: loop { c := op_count(key).load();                              (QStart)
                        snapshot := get_staging_snapshot(key);                  (QSnap)
                        cache.get(key) found => return;  not found              (QMiss)
                        entry := fetch_entry(key, snapshot)  -- store scan      (QScan)
                        cache.entry(key): Vacant: op_count(key) != c => None (the loop starts again)
                                                  otherwise insert(entry)
                                          Occupied: nothing                     (QInstall)
                      }
      apply_op:  dirty count / log creation, append the operation to the log;   (QStage)
                 op_count(key).fetch_add(1);                                    (QBump)
                 cache.get(key): found => update the set (threshold => TooLarge) (QApply)
    The three parts of [apply_op] are separate steps; steps of other threads (loaders, the
    commit thread, the after-commit thread, the eviction policies) may come in between.

    Assumptions built into the enabledness of the steps (they restate that the sequential
    model takes a write as one step):
    - a writer is in the middle of at most one operation (a batch is [&mut]), and does not
      submit its batch in the middle ([omid] has at most one entry per batch);
    - two writers are not in the middle of operations on the same element of the same key at the
      same time ([QStage] needs a (key, element) without an entry in [omid]; operations on
      different elements of one key may overlap);
    - an answer is only asked of a [get] that does not overlap a write to its key:
      [QSeq (SGet k)] (the whole [get], uninterrupted: a hit, or the complete miss path) needs
      a key without an entry in [omid].  The loaders' own answers (they overlap whatever
      happens during the load) are not part of the statement; what a loader leaves behind in
      the cache is.
    A write is issued ([sspec], [sordered]) where it is staged.

    [guarded = false] is the code before the repair (the install only asks for a vacant slot).
    [overlap = true] drops the second assumption (see [overlap_witness]). *)
From QV Require Import Common.Prelude Cache.Wide Cache.SetLog Cache.SetCache Cache.FillGuard.
Open Scope N_scope.

Record midop := Mid { m_batch : N; m_key : key; m_elem : N; m_ins : bool; m_bumped : bool }.

Inductive sphase :=
| PStarted (k : key) (c : N)
| PSnapped (k : key) (c : N) (added removed : list N)
| PMissed (k : key) (c : N) (added removed : list N)
| PScanned (k : key) (c : N) (e : centry).

Record gsst := GSSt {
  sbase : sst;
  ocount : list (N * N);        (* group -> op_count; no binding = 0 *)
  omid : list midop;            (* operations staged and not yet applied to the cached set *)
  sloads : list (N * sphase)
}.
Definition gsinit : gsst := GSSt sinit [] [] [].

Inductive gsop :=
| QSeq (o : sop)                (* every step of the sequential model except the writes *)
| QStage (b : N) (k : key) (x : N) (i : bool)
| QBump (b : N)
| QApply (b : N)
| QStart (t : N) (k : key)
| QSnap (t : N) (k : key)
| QMiss (t : N) (k : key)
| QScan (t : N) (k : key)
| QInstall (t : N) (k : key).

Definition set_cache (c : list (key * centry)) (s : sst) : sst :=
  SSt (sstore s) c (slogs s) (snext_epoch s) (sseq s) (spending s) (snotifyq s).

(** [apply_op], step 1: what [swrite] does to the batch and the staging log *)
Definition sstage (s : sst) (b : N) (k : key) (x : N) (i : bool) : option sst :=
  match sfind_batch b (spending s), supd_batch b (sadd_write k x i) (spending s) with
  | Some bt, Some p' =>
      let updated := match alookup k (sb_writes bt) with None => true | Some _ => false end in
      let e := Entry b (sseq s) i x in
      let logs' :=
        match alookup k (slogs s) with
        | Some (h, d) => aset k (push h e, if updated then (d + 1)%Z else d) (slogs s)
        | None => aset k (push [] e, if updated then 1%Z else 0%Z) (slogs s)
        end in
      Some (SSt (sstore s) (scache s) logs' (snext_epoch s) (sseq s + 1) p' (snotifyq s))
  | _, _ => None
  end.

Definition mid_of_batch (b : N) (l : list midop) : option midop := find (fun m => m_batch m =? b) l.
Definition mid_on_key (k : key) (l : list midop) : bool := existsb (fun m => m_key m =? k) l.
Definition mid_on_elem (k : key) (x : N) (l : list midop) : bool :=
  existsb (fun m => (m_key m =? k) && (m_elem m =? x)) l.
Definition remove_mid (b : N) (l : list midop) : list midop := filter (fun m => negb (m_batch m =? b)) l.

Section GS.
Variable thr : N.
Variable grp : key -> N.
Variable guarded : bool.
Variable overlap : bool.        (* true: writers may be in the middle of operations on one element at the same time *)

(** [apply_op], step 2 and 3: what [swrite] does to the value cache *)
Definition sapply (c : list (key * centry)) (k : key) (x : N) (i : bool) : list (key * centry) :=
  match alookup k c with
  | Some (InMem set) =>
      let set' := if i then ins x set else del x set in
      if thr <? N.of_nat (length set') then aset k TooLarge c else aset k (InMem set') c
  | _ => c
  end.

(** [fetch_entry]: what [sread] puts into the cache on a miss *)
Definition build (scan added removed : list N) : centry :=
  if thr <? N.of_nat (length scan) then TooLarge
  else InMem (fold_left (fun acc x => del x acc) removed (fold_left (fun acc x => ins x acc) added scan)).

Definition gsstep (s : gsst) (o : gsop) : option (gsst * option (list N)) :=
  match o with
  | QSeq o' =>
      let ok := match o' with
                | SIns _ _ _ | SRem _ _ _ => false
                | SGet k => negb (mid_on_key k (omid s))
                | SSub b => match mid_of_batch b (omid s) with None => true | Some _ => false end
                | _ => true
                end in
      if ok then
        do (b', out) <- sstep thr true true (sbase s) o';
        Some (GSSt b' (ocount s) (omid s) (sloads s), out)
      else None
  | QStage b k x i =>
      if negb overlap && mid_on_elem k x (omid s) then None
      else match mid_of_batch b (omid s) with
           | Some _ => None
           | None =>
               do b' <- sstage (sbase s) b k x i;
               Some (GSSt b' (ocount s) (Mid b k x i false :: omid s) (sloads s), None)
           end
  | QBump b =>
      match mid_of_batch b (omid s) with
      | Some (Mid _ k x i false) =>
          Some (GSSt (sbase s) (bump (grp k) (ocount s)) (Mid b k x i true :: remove_mid b (omid s)) (sloads s), None)
      | _ => None
      end
  | QApply b =>
      match mid_of_batch b (omid s) with
      | Some (Mid _ k x i true) =>
          Some (GSSt (set_cache (sapply (scache (sbase s)) k x i) (sbase s)) (ocount s)
                     (remove_mid b (omid s)) (sloads s), None)
      | _ => None
      end
  | QStart t k =>
      Some (GSSt (sbase s) (ocount s) (omid s)
                 (aset t (PStarted k (count_of (grp k) (ocount s))) (sloads s)), None)
  | QSnap t k =>
      match alookup t (sloads s) with
      | Some (PStarted k' c) =>
          if k' =? k then
            let '(a, r) := log_snapshot true k (sbase s) in
            Some (GSSt (sbase s) (ocount s) (omid s) (aset t (PSnapped k c a r) (sloads s)), None)
          else None
      | _ => None
      end
  | QMiss t k =>
      match alookup t (sloads s), alookup k (scache (sbase s)) with
      | Some (PSnapped k' c a r), None =>
          if k' =? k
          then Some (GSSt (sbase s) (ocount s) (omid s) (aset t (PMissed k c a r) (sloads s)), None)
          else None
      | _, _ => None
      end
  | QScan t k =>
      match alookup t (sloads s) with
      | Some (PMissed k' c a r) =>
          if k' =? k
          then Some (GSSt (sbase s) (ocount s) (omid s)
                          (aset t (PScanned k c (build (sget k (sstore (sbase s))) a r)) (sloads s)), None)
          else None
      | _ => None
      end
  | QInstall t k =>
      match alookup t (sloads s) with
      | Some (PScanned k' c e) =>
          if k' =? k then
            let c' := match alookup k (scache (sbase s)) with
                      | None => if negb guarded || (count_of (grp k) (ocount s) =? c)
                                then aset k e (scache (sbase s))
                                else scache (sbase s)
                      | Some _ => scache (sbase s)
                      end in
            Some (GSSt (set_cache c' (sbase s)) (ocount s) (omid s) (aremove t (sloads s)), None)
          else None
      | _ => None
      end
  end.

Fixpoint gsrun (s : gsst) (ops : list gsop) : option (gsst * list (list N)) :=
  match ops with
  | [] => Some (s, [])
  | o :: r =>
      match gsstep s o with
      | None => None
      | Some (s', out) =>
          match gsrun s' r with
          | None => None
          | Some (s'', outs) => Some (s'', match out with Some x => x :: outs | None => outs end)
          end
      end
  end.
End GS.

(** the sequential operation a step stands for *)
Definition qop_of (o : gsop) : option sop :=
  match o with
  | QSeq o' => Some o'
  | QStage b k x i => Some (if i then SIns b k x else SRem b k x)
  | _ => None
  end.
Definition qseq_of (o : gsop) : list sop := match qop_of o with Some o' => [o'] | None => [] end.

(** * Witnesses *)

(** the set fill race (finding "set-fill-race"): the load takes its snapshot and scans the
    store; an insert of 5 is staged, counted and finds no cached set; the load installs the
    set it built. *)
Definition set_race_witness : list gsop :=
  [QSeq SNew; QStart 1 0; QSnap 1 0; QMiss 1 0; QScan 1 0; QStage 0 0 5 true; QBump 0; QApply 0;
   QInstall 1 0; QSeq (SGet 0)].

(** a refused build that is done again, next to an accepted one on another key, a removal
    that reaches the installed set through [QApply], commit, notification, evictions *)
Definition set_retry_history : list gsop :=
  [QSeq SNew; QStart 1 0; QSnap 1 0; QMiss 1 0; QScan 1 0; QStage 0 0 5 true; QBump 0; QApply 0;
   QInstall 1 0;                                              (* refused *)
   QStart 1 0; QSnap 1 0; QStart 2 1; QSnap 2 1; QMiss 2 1; QMiss 1 0; QScan 1 0; QScan 2 1;
   QStage 0 0 6 true;                                         (* staged, not yet counted *)
   QInstall 1 0;                                              (* accepted: {5}; 6 follows by QApply *)
   QInstall 2 1; QBump 0; QApply 0; QSeq (SGet 0); QSeq (SGet 1);
   QStage 0 0 5 false; QBump 0; QApply 0; QSeq (SGet 0);
   QSeq (SSub 0); QSeq SCommit; QSeq (SEvict 0); QSeq (SGet 0); QSeq (SNotify 0 0); QSeq (SEvict 0);
   QSeq (SEvictLog 0); QSeq (SGet 0)].

(** Why writers must not overlap on one element (this has nothing to do with the miss path;
    the sequential model excludes it by taking a write as one step): batch 0 inserts 5, batch 1
    removes 5, the set is cached.  The insert is staged first and applied last: the cached set
    keeps 5, the log and (after the commits, in epoch order) the store say "removed". *)
Definition overlap_witness : list gsop :=
  [QSeq SNew; QSeq SNew; QSeq (SGet 0); QStage 0 0 5 true; QStage 1 0 5 false; QBump 1; QApply 1;
   QBump 0; QApply 0; QSeq (SGet 0); QSeq (SEvict 0); QSeq (SGet 0)].
