(** Correspondence checker for the cached maps (C09).  The harness
    (harness/src/bin/cachemaps.rs) writes what the real code did as [case]s; [failures]
    returns the indices on which the model disagrees.

    A trace lists the foreground calls in issue order together with the background steps
    the harness placed (store made visible by the gated database; after-commit of a batch
    known to have completed).  Evictions are not visible directly: a read that went to
    the database ([miss]) while the model holds an entry is explained by an [Evict] just
    before it, which the model only allows for an entry that is not pinned. *)
From QV Require Import Common.Prelude Cache.Wide Cache.SetLog Cache.SetCache.
Open Scope N_scope.

Inductive wob :=
| WNew | WIns (b k v : N) | WRem (b k : N) | WSub (b : N)
| WGet (k : N) (res : option N) (miss : bool)
| WCommit | WNotify (b : N).

Inductive sob :=
| ONew | OIns (b k x : N) | ORem (b k x : N) | OSub (b : N)
| OGet (k : N) (res : list N) (miss : bool)
| OCommit | ONotify (b : N).

Inductive hop := HPush (e : N) | HFlush (e : N).

Inductive case :=
| WCase (tr : list wob)
| SCase (tr : list sob)
| HCase (ops : list hop) (arr : list (N * N)).

Definition opt_eqb (a b : option N) : bool :=
  match a, b with Some x, Some y => x =? y | None, None => true | _, _ => false end.

(** ** single-value / multi-type map *)
Fixpoint notify_all_w (fuel : nat) (s : st) (b : N) : option st :=
  match fuel with
  | O => None
  | S f =>
      match alookup b (notifyq s) with
      | Some (k :: _) =>
          match step s (BgNotify b k) with Some (s', _) => notify_all_w f s' b | None => None end
      | _ => Some s
      end
  end.

Definition wstep1 (s : st) (o : op) : option st :=
  match step s o with Some (s', _) => Some s' | None => None end.

(** returns the model state after the trace, [None] on the first disagreement;
    [m] is the last-write-wins reference, consulted when [chk_spec] *)
Fixpoint check_w (chk_spec : bool) (s : st) (m : list (key * option val)) (tr : list wob) : bool :=
  match tr with
  | [] => true
  | o :: r =>
      match o with
      | WNew => match wstep1 s NewBatch with Some s' => check_w chk_spec s' m r | None => false end
      | WIns b k v => match wstep1 s (Insert b k v) with Some s' => check_w chk_spec s' ((k, Some v) :: m) r | None => false end
      | WRem b k => match wstep1 s (Remove b k) with Some s' => check_w chk_spec s' ((k, None) :: m) r | None => false end
      | WSub b => match wstep1 s (Submit b) with Some s' => check_w chk_spec s' m r | None => false end
      | WCommit => match wstep1 s BgCommit with Some s' => check_w chk_spec s' m r | None => false end
      | WNotify b => match notify_all_w 4096 s b with Some s' => check_w chk_spec s' m r | None => false end
      | WGet k res miss =>
          let s1 :=
            match alookup k (cache s), miss with
            | Some _, true => wstep1 s (Evict k)          (* must be enabled: the entry was not pinned *)
            | Some _, false => Some s
            | None, true => Some s
            | None, false => None                         (* the code answered from a cache entry the model does not have *)
            end in
          match s1 with
          | None => false
          | Some s1 =>
              match step s1 (Get k) with
              | Some (s2, Some out) =>
                  opt_eqb out res && (negb chk_spec || opt_eqb (mget k m) res) && check_w chk_spec s2 m r
              | _ => false
              end
          end
      end
  end.

Definition wop_of (o : wob) : list op :=
  match o with WIns b k v => [Insert b k v] | WRem b k => [Remove b k] | _ => [] end.
Definition w_ordered (tr : list wob) : bool := ordered [] (flat_map wop_of tr).

(** ** key→set map *)
Section SetCheck.
Variable fix_iter fix_overlay : bool.
Definition thr_code : N := 1024.
Notation sstep' := (sstep thr_code fix_iter fix_overlay).

Fixpoint notify_all_s (fuel : nat) (s : sst) (b : N) : option sst :=
  match fuel with
  | O => None
  | S f =>
      match alookup b (snotifyq s) with
      | Some (k :: _) =>
          match sstep' s (SNotify b k) with Some (s', _) => notify_all_s f s' b | None => None end
      | _ => Some s
      end
  end.
Definition sstep1 (s : sst) (o : sop) : option sst :=
  match sstep' s o with Some (s', _) => Some s' | None => None end.

Fixpoint check_s (chk_spec : bool) (s : sst) (m : list (key * list N)) (tr : list sob) : bool :=
  match tr with
  | [] => true
  | o :: r =>
      match o with
      | ONew => match sstep1 s SNew with Some s' => check_s chk_spec s' m r | None => false end
      | OIns b k x => match sstep1 s (SIns b k x) with Some s' => check_s chk_spec s' (aset k (ins x (sget k m)) m) r | None => false end
      | ORem b k x => match sstep1 s (SRem b k x) with Some s' => check_s chk_spec s' (aset k (del x (sget k m)) m) r | None => false end
      | OSub b => match sstep1 s (SSub b) with Some s' => check_s chk_spec s' m r | None => false end
      | OCommit => match sstep1 s SCommit with Some s' => check_s chk_spec s' m r | None => false end
      | ONotify b => match notify_all_s 4096 s b with Some s' => check_s chk_spec s' m r | None => false end
      | OGet k res miss =>
          let s1 :=
            match alookup k (scache s), miss with
            | Some _, true => sstep1 s (SEvict k)
            | Some _, false => Some s
            | None, true => Some s
            | None, false => None
            end in
          match s1 with
          | None => false
          | Some s1 =>
              match sstep' s1 (SGet k) with
              | Some (s2, Some out) =>
                  same_set out res && (negb chk_spec || same_set (sget k m) res) && check_s chk_spec s2 m r
              | _ => false
              end
          end
      end
  end.
End SetCheck.

Definition sop_of (o : sob) : list sop :=
  match o with OIns b k x => [SIns b k x] | ORem b k x => [SRem b k x] | _ => [] end.
Definition s_ordered (tr : list sob) : bool := sordered [] (flat_map sop_of tr).

(** ** the heap against [std::collections::BinaryHeap] *)
Fixpoint run_heap (h : list entry) (seq : N) (ops : list hop) : list entry :=
  match ops with
  | [] => h
  | HPush e :: r => run_heap (push h (Entry e seq false 0)) (seq + 1) r
  | HFlush e :: r => run_heap (flush_up_to e h) seq r
  end.
Fixpoint arr_eqb (h : list entry) (arr : list (N * N)) : bool :=
  match h, arr with
  | [], [] => true
  | x :: r, (e, q) :: t => (e_epoch x =? e) && (e_seq x =? q) && arr_eqb r t
  | _, _ => false
  end.

(** [spec_sets]: whether set cases are also compared with the reference set (they are when
    the tree does not show the known defects, or for cases the harness marked clean). *)
Definition check (fix_iter fix_overlay spec_sets : bool) (c : case) : bool :=
  match c with
  | WCase tr => check_w (w_ordered tr) init [] tr
  | SCase tr => check_s fix_iter fix_overlay (spec_sets && s_ordered tr) sinit [] tr
  | HCase ops arr => arr_eqb (run_heap [] 0 ops) arr
  end.

Fixpoint failures_from (f : case -> bool) (i : N) (cs : list case) : list N :=
  match cs with
  | [] => []
  | c :: r => if f c then failures_from f (i + 1) r else i :: failures_from f (i + 1) r
  end.
Definition failures (fix_iter fix_overlay spec_sets : bool) (cs : list case) : list N :=
  failures_from (check fix_iter fix_overlay spec_sets) 0 cs.
