(** C09 — model of the cached key→set map AS THE CODE HAS IT
    (crates/storage/src/key_of_set_map/cache.rs).  Executable definitions only.

    Parameters of the model
    - [thr]: the spill threshold (1024 in the code);
    - [fix_iter]: [false] = [MergeIterator::Spilled::next] as in the code (an [if let] on the
      half-constructed part: a removed element falls through to the tail and, when tail and
      staged additions are exhausted, ends the iteration), [true] = repaired (loop);
    - [fix_overlay]: [false] = staging overlay as in the code (Insert/Remove pairs cancel, in
      heap-array order), [true] = repaired (per element, the operation issued last decides).

    State: the backing store (per key a sorted duplicate-free list, what [scan_members]
    yields), the value cache ([InMemory set | TooLarge], never pinned: it may be evicted at
    any time), the staging logs (heap array + [dirty] counter; pinned while [dirty <> 0]),
    write batches (per key the element→operation map of the batch, last operation wins),
    the queue of committed batches whose after-commit has not run for some keys. *)
From QV Require Import Common.Prelude Cache.Wide Cache.SetLog.
Open Scope N_scope.

Section Model.
Variable thr : N.
Variable fix_iter fix_overlay : bool.

(** sorted duplicate-free insertion (the store and the harness' set type iterate in order) *)
Fixpoint isort (x : N) (l : list N) : list N :=
  match l with
  | [] => [x]
  | y :: r => if x <? y then x :: l else y :: isort x r
  end.
Definition ins (x : N) (l : list N) : list N := if mem x l then l else isort x l.

Inductive centry := InMem (s : list N) | TooLarge.

(** a batch: per key, the operations of the batch on that key (newest first; for one
    element the newest decides: [HashMap<Element, Operation>::insert]) *)
Record sbatch := SBatch { sb_epoch : N; sb_sub : bool; sb_writes : list (key * list (N * bool)) }.

Record sst := SSt {
  sstore : list (key * list N);
  scache : list (key * centry);
  slogs : list (key * (list entry * Z));
  snext_epoch : N;
  sseq : N;
  spending : list sbatch;
  snotifyq : list (N * list key)
}.
Definition sinit : sst := SSt [] [] [] 0 0 [] [].

Definition sget (k : key) (m : list (key * list N)) : list N :=
  match alookup k m with Some l => l | None => [] end.

Inductive sop :=
| SNew
| SIns (b : N) (k : key) (x : N)
| SRem (b : N) (k : key) (x : N)
| SSub (b : N)
| SGet (k : key)
| SCommit
| SNotify (b : N) (k : key)
| SEvict (k : key)        (* the value cache drops the entry of k (never pinned) *)
| SEvictLog (k : key).    (* the staging cache drops the log of k (enabled iff dirty = 0) *)

Fixpoint supd_batch (e : N) (f : sbatch -> option sbatch) (l : list sbatch) : option (list sbatch) :=
  match l with
  | [] => None
  | b :: r => if sb_epoch b =? e
              then match f b with Some b' => Some (b' :: r) | None => None end
              else match supd_batch e f r with Some r' => Some (b :: r') | None => None end
  end.
Fixpoint sfind_batch (e : N) (l : list sbatch) : option sbatch :=
  match l with
  | [] => None
  | b :: r => if sb_epoch b =? e then Some b else sfind_batch e r
  end.
Definition sadd_write (k : key) (x : N) (i : bool) (b : sbatch) : option sbatch :=
  if sb_sub b then None
  else Some (SBatch (sb_epoch b) false
               (aset k ((x, i) :: match alookup k (sb_writes b) with Some l => l | None => [] end) (sb_writes b))).
Definition smark_sub (b : sbatch) : option sbatch :=
  if sb_sub b then None else Some (SBatch (sb_epoch b) true (sb_writes b)).

(** apply the operations of one key of a batch to the stored set, oldest first *)
Fixpoint apply_ops (ops : list (N * bool)) (s : list N) : list N :=
  match ops with
  | [] => s
  | (x, i) :: r => let s' := apply_ops r s in if i then ins x s' else del x s'
  end.
(** the new bindings shadow the old ones; every key of the batch is computed from the old store *)
Definition commit_store (ws : list (key * list (N * bool))) (m : list (key * list N)) : list (key * list N) :=
  map (fun '(k, ops) => (k, apply_ops ops (sget k m))) ws ++ m.

(** ** reading *)

(** the tail of the store scan filtered by [removed.remove(&item)] *)
Fixpoint take_rest (rest removed : list N) : option (N * list N * list N) * list N :=
  match rest with
  | [] => (None, removed)
  | x :: r => if mem x removed then take_rest r (del x removed) else (Some (x, r, removed), removed)
  end.

(** [MergeIterator::Spilled]: the elements yielded until the first [None] *)
Fixpoint spill_iter (fuel : nat) (half rest added removed : list N) : list N :=
  match fuel with
  | O => []
  | S f =>
      let tail :=
        match take_rest rest removed with
        | (Some (x, rest', removed'), _) => Some (x, rest', added, removed')
        | (None, removed') =>
            match added with
            | a :: added' => Some (a, [], added', removed')
            | [] => None
            end
        end in
      match half with
      | h :: half' =>
          if negb (mem h removed) then h :: spill_iter f half' rest added removed
          else if fix_iter then spill_iter f half' rest added removed          (* repaired: keep draining *)
          else match tail with                                                (* as in the code: fall through *)
               | Some (x, rest', added', removed') => x :: spill_iter f half' rest' added' removed'
               | None => []
               end
      | [] =>
          match tail with
          | Some (x, rest', added', removed') => x :: spill_iter f [] rest' added' removed'
          | None => []
          end
      end
  end.

(** [MergeIterator::Streaming] *)
Fixpoint stream_iter (db added removed : list N) : list N :=
  match db with
  | [] => added
  | x :: r => if mem x removed then stream_iter r added (del x removed) else x :: stream_iter r added removed
  end.

Definition log_snapshot (k : key) (s : sst) : list N * list N :=
  match alookup k (slogs s) with
  | Some (h, _) => snapshot fix_overlay h
  | None => ([], [])
  end.

(** [get_entry] + [get]: new value cache and the iteration result *)
Definition sread (s : sst) (k : key) : list (key * centry) * list N :=
  let '(added, removed) := log_snapshot k s in
  let scan := sget k (sstore s) in
  match alookup k (scache s) with
  | Some (InMem set) => (scache s, set)
  | Some TooLarge => (scache s, stream_iter scan added removed)
  | None =>
      (* fetch_entry *)
      if thr <? N.of_nat (length scan) then
        let n := N.to_nat (thr + 1) in
        (aset k TooLarge (scache s),
         spill_iter (S (length scan + length added)) (firstn n scan) (skipn n scan) added removed)
      else
        let set := fold_left (fun acc x => del x acc) removed (fold_left (fun acc x => ins x acc) added scan) in
        (aset k (InMem set) (scache s), set)
  end.

(** ** writing: [apply_op] *)
Definition swrite (s : sst) (b : N) (k : key) (x : N) (i : bool) : option sst :=
  match sfind_batch b (spending s), supd_batch b (sadd_write k x i) (spending s) with
  | Some bt, Some p' =>
      let updated := match alookup k (sb_writes bt) with None => true | Some _ => false end in
      let e := Entry b (sseq s) i x in
      let logs' :=
        match alookup k (slogs s) with
        | Some (h, d) => aset k (push h e, if updated then (d + 1)%Z else d) (slogs s)
        | None => aset k (push [] e, if updated then 1%Z else 0%Z) (slogs s)
        end in
      let cache' :=
        match alookup k (scache s) with
        | Some (InMem set) =>
            let set' := if i then ins x set else del x set in
            if thr <? N.of_nat (length set') then aset k TooLarge (scache s) else aset k (InMem set') (scache s)
        | _ => scache s
        end in
      Some (SSt (sstore s) cache' logs' (snext_epoch s) (sseq s + 1) p' (snotifyq s))
  | _, _ => None
  end.

Definition sstep (s : sst) (o : sop) : option (sst * option (list N)) :=
  match o with
  | SNew =>
      Some (SSt (sstore s) (scache s) (slogs s) (snext_epoch s + 1) (sseq s)
                (spending s ++ [SBatch (snext_epoch s) false []]) (snotifyq s), None)
  | SIns b k x => match swrite s b k x true with Some s' => Some (s', None) | None => None end
  | SRem b k x => match swrite s b k x false with Some s' => Some (s', None) | None => None end
  | SSub b =>
      match supd_batch b smark_sub (spending s) with
      | Some p' => Some (SSt (sstore s) (scache s) (slogs s) (snext_epoch s) (sseq s) p' (snotifyq s), None)
      | None => None
      end
  | SGet k =>
      let '(c', out) := sread s k in
      Some (SSt (sstore s) c' (slogs s) (snext_epoch s) (sseq s) (spending s) (snotifyq s), Some out)
  | SCommit =>
      match spending s with
      | b :: r =>
          if sb_sub b then
            let ks := map fst (sb_writes b) in
            Some (SSt (commit_store (sb_writes b) (sstore s)) (scache s) (slogs s) (snext_epoch s) (sseq s) r
                      (match ks with [] => snotifyq s | _ => snotifyq s ++ [(sb_epoch b, ks)] end), None)
          else None
      | [] => None
      end
  | SNotify b k =>
      match notify_one b k (snotifyq s) with
      | Some q' =>
          let logs' :=
            match alookup k (slogs s) with
            | Some (h, d) => aset k (flush_up_to b h, (d - 1)%Z) (slogs s)
            | None => slogs s
            end in
          Some (SSt (sstore s) (scache s) logs' (snext_epoch s) (sseq s) (spending s) q', None)
      | None => None
      end
  | SEvict k =>
      match alookup k (scache s) with
      | Some _ => Some (SSt (sstore s) (aremove k (scache s)) (slogs s) (snext_epoch s) (sseq s)
                            (spending s) (snotifyq s), None)
      | None => None
      end
  | SEvictLog k =>
      match alookup k (slogs s) with
      | Some (_, d) =>
          if (d =? 0)%Z
          then Some (SSt (sstore s) (scache s) (aremove k (slogs s)) (snext_epoch s) (sseq s)
                         (spending s) (snotifyq s), None)
          else None
      | None => None
      end
  end.

Fixpoint srun (s : sst) (ops : list sop) : option (sst * list (list N)) :=
  match ops with
  | [] => Some (s, [])
  | o :: r =>
      match sstep s o with
      | None => None
      | Some (s', out) =>
          match srun s' r with
          | None => None
          | Some (s'', outs) => Some (s'', match out with Some x => x :: outs | None => outs end)
          end
      end
  end.

End Model.

(** The specification: per key the set after all inserts/removes issued so far. *)
Fixpoint sspec (m : list (key * list N)) (ops : list sop) : list (list N) :=
  match ops with
  | [] => []
  | SIns _ k x :: r => sspec (aset k (ins x (sget k m)) m) r
  | SRem _ k x :: r => sspec (aset k (del x (sget k m)) m) r
  | SGet k :: r => sget k m :: sspec m r
  | _ :: r => sspec m r
  end.

(** two iteration results denote the same set *)
Definition same_set (a b : list N) : bool :=
  forallb (fun x => mem x b) a && forallb (fun x => mem x a) b.
Fixpoint same_sets (a b : list (list N)) : bool :=
  match a, b with
  | [], [] => true
  | x :: r, y :: t => same_set x y && same_sets r t
  | _, _ => false
  end.

Definition swrite_of (o : sop) : option (N * key) :=
  match o with SIns b k _ => Some (b, k) | SRem b k _ => Some (b, k) | _ => None end.
Fixpoint sordered (hi : list (key * N)) (ops : list sop) : bool :=
  match ops with
  | [] => true
  | o :: r =>
      match swrite_of o with
      | Some (b, k) =>
          match alookup k hi with Some e => e <=? b | None => true end && sordered ((k, b) :: hi) r
      | None => sordered hi r
      end
  end.
