(** C09 — read-your-writes for the key→set map, REPAIRED variant of the model
    ([fix_iter = true]: the spilled iterator keeps draining; [fix_overlay = true]: per
    element the operation issued last decides).  Any threshold. *)
From QV Require Import Common.Prelude Cache.Wide Cache.WideProof Cache.SetLog Cache.SetLogProof Cache.SetCache.
Open Scope N_scope.

(** * sets as lists *)
Lemma isort_In x y l : In y (isort x l) <-> y = x \/ In y l.
Proof.
  induction l as [|z r IH]; cbn [isort]; [cbn; intuition|].
  destruct (x <? z); cbn [In]; [intuition|]. rewrite IH. intuition.
Qed.
Lemma isort_NoDup x l : ~ In x l -> NoDup l -> NoDup (isort x l).
Proof.
  induction l as [|z r IH]; intros Hn Hd; cbn [isort]; [constructor; [intros []|constructor]|].
  destruct (x <? z); [constructor; assumption|].
  inversion Hd; subst. constructor.
  - rewrite isort_In. intros [->|H]; [apply Hn; now left|contradiction].
  - apply IH; [intros H; apply Hn; now right|assumption].
Qed.
Lemma ins_In x y l : In y (ins x l) <-> y = x \/ In y l.
Proof.
  unfold ins. destruct (mem x l) eqn:M; [|apply isort_In].
  apply mem_In in M. split; [auto|]. intros [->|H]; auto.
Qed.
Lemma ins_NoDup x l : NoDup l -> NoDup (ins x l).
Proof.
  unfold ins. destruct (mem x l) eqn:M; [auto|]. intros Hd. apply isort_NoDup; [|exact Hd].
  intros H. apply mem_In in H. congruence.
Qed.

Lemma apply_ops_In ops s x :
  In x (apply_ops ops s) <-> match alookup x ops with Some i => i = true | None => In x s end.
Proof.
  induction ops as [|[y i] r IH]; cbn [apply_ops alookup]; [tauto|].
  destruct (x =? y) eqn:E.
  - apply N.eqb_eq in E. subst y. destruct i.
    + rewrite ins_In. intuition.
    + rewrite del_In. split; [intros [_ H]; congruence|discriminate].
  - apply N.eqb_neq in E. destruct i.
    + rewrite ins_In, IH. intuition.
    + rewrite del_In, IH. intuition.
Qed.
Lemma apply_ops_NoDup ops s : NoDup s -> NoDup (apply_ops ops s).
Proof.
  intros Hd. induction ops as [|[y i] r IH]; cbn [apply_ops]; [exact Hd|].
  destruct i; [now apply ins_NoDup|now apply del_NoDup].
Qed.

Lemma sget_aset_eq k l m : sget k (aset k l m) = l.
Proof. unfold sget. now rewrite alookup_aset_eq. Qed.
Lemma sget_aset_ne k k' l m : k <> k' -> sget k' (aset k l m) = sget k' m.
Proof. intros H. unfold sget. now rewrite alookup_aset_ne. Qed.

Lemma commit_store_get ws m k :
  sget k (commit_store ws m) = match alookup k ws with Some ops => apply_ops ops (sget k m) | None => sget k m end.
Proof.
  unfold commit_store, sget at 1. rewrite alookup_app.
  induction ws as [|[k' ops] r IH]; cbn [map alookup]; [reflexivity|].
  destruct (k =? k') eqn:E; [apply N.eqb_eq in E; now subst|exact IH].
Qed.

(** * the three ways a read combines store and overlay *)
Lemma stream_iter_In db : forall added removed x, NoDup db ->
  (In x (stream_iter db added removed) <-> (In x db /\ ~ In x removed) \/ In x added).
Proof.
  induction db as [|x0 r IH]; intros added removed x Hd; cbn [stream_iter].
  - cbn. tauto.
  - inversion Hd as [|? ? Hn Hd']; subst. destruct (mem x0 removed) eqn:M.
    + apply mem_In in M. rewrite IH by exact Hd'. rewrite del_In. split.
      * intros [[H1 H2]|H]; [|now right]. left. split; [now right|]. intros H3. apply H2. split; [exact H3|].
        intros ->. contradiction.
      * intros [[[<-|H1] H2]|H]; [contradiction| |now right]. left. split; [exact H1|]. intros [H3 _]. contradiction.
    + assert (Hx0 : ~ In x0 removed) by (intros H; apply mem_In in H; congruence).
      cbn [In]. rewrite IH by exact Hd'. split.
      * intros [<-|[[H1 H2]|H]]; [left; split; [now left|exact Hx0]|left; split; [now right|exact H2]|now right].
      * intros [[[<-|H1] H2]|H]; [now left|right; left; now split|right; now right].
Qed.

Lemma spill_tail_step fi f x r added removed :
  mem x removed = true ->
  spill_iter fi (S f) [] (x :: r) added removed = spill_iter fi (S f) [] r added (del x removed).
Proof. intros M. cbn [spill_iter take_rest]. now rewrite M. Qed.

Lemma spill_tail fi fuel : forall rest added removed, (length rest + length added < fuel)%nat ->
  spill_iter fi fuel [] rest added removed = stream_iter rest added removed.
Proof.
  induction fuel as [|f IH]; intros rest; [intros; lia|].
  induction rest as [|x r IHr]; intros added removed Hl.
  - cbn [spill_iter take_rest stream_iter]. destruct added as [|a added']; [reflexivity|].
    rewrite IH by (cbn [length] in *; lia). reflexivity.
  - cbn [stream_iter]. destruct (mem x removed) eqn:M.
    + rewrite spill_tail_step by exact M. apply IHr. cbn [length] in Hl. lia.
    + cbn [spill_iter take_rest]. rewrite M. rewrite IH by (cbn [length] in Hl; lia). reflexivity.
Qed.

Lemma spill_half fuel : forall half rest added removed, (length half + length rest + length added < fuel)%nat ->
  spill_iter true fuel half rest added removed =
  filter (fun h => negb (mem h removed)) half ++ stream_iter rest added removed.
Proof.
  induction fuel as [|f IH]; intros half rest added removed Hl; [lia|].
  destruct half as [|h half'].
  - cbn [filter app]. apply spill_tail. cbn [length] in Hl. lia.
  - cbn [spill_iter filter]. destruct (negb (mem h removed)).
    + cbn [app]. f_equal. apply IH. cbn [length] in Hl. lia.
    + apply IH. cbn [length] in Hl. lia.
Qed.

Lemma fold_ins_In added : forall s x, In x (fold_left (fun acc y => ins y acc) added s) <-> In x s \/ In x added.
Proof.
  induction added as [|a r IH]; intros s x; cbn [fold_left]; [cbn; tauto|].
  rewrite IH, ins_In. cbn [In]. intuition.
Qed.
Lemma fold_del_In removed : forall s x, In x (fold_left (fun acc y => del y acc) removed s) <-> In x s /\ ~ In x removed.
Proof.
  induction removed as [|a r IH]; intros s x; cbn [fold_left]; [cbn; tauto|].
  rewrite IH, del_In. cbn [In]. intuition.
Qed.

Lemma same_set_iff a b : same_set a b = true <-> forall x, In x a <-> In x b.
Proof.
  unfold same_set. rewrite andb_true_iff, !forallb_forall. split.
  - intros [H1 H2] x. split; intros H; [apply mem_In, H1, H|apply mem_In, H2, H].
  - intros H. split; intros x Hx; apply mem_In, H, Hx.
Qed.

(** * ghost quantities *)
Definition logh (k : key) (logs : list (key * (list entry * Z))) : list entry :=
  match alookup k logs with Some (h, _) => h | None => [] end.
Definition dirty_of (k : key) (logs : list (key * (list entry * Z))) : Z :=
  match alookup k logs with Some (_, d) => d | None => 0%Z end.
Definition batch_op (k : key) (x : N) (b : sbatch) : option bool :=
  match alookup k (sb_writes b) with Some ops => alookup x ops | None => None end.
Definition swrote (k : key) (b : sbatch) : bool :=
  match alookup k (sb_writes b) with Some _ => true | None => false end.
Fixpoint pend_op (k : key) (x : N) (l : list sbatch) : option bool :=
  match l with
  | [] => None
  | b :: r => match pend_op k x r with Some i => Some i | None => batch_op k x b end
  end.
Fixpoint scnt_pending (k : key) (l : list sbatch) : Z :=
  match l with [] => 0%Z | b :: r => (b2z (swrote k b) + scnt_pending k r)%Z end.
Fixpoint sasc (lo : N) (l : list sbatch) (hi : N) : Prop :=
  match l with [] => lo <= hi | b :: r => lo <= sb_epoch b /\ sasc (sb_epoch b + 1) r hi end.

Record SInv (s : sst) (m : list (key * list N)) (hi : list (key * N)) : Prop := {
  si_cache : forall k set, alookup k (scache s) = Some (InMem set) -> forall x, In x set <-> In x (sget k m);
  si_store : forall k x, In x (sget k m) <->
               match pend_op k x (spending s) with Some i => i = true | None => In x (sget k (sstore s)) end;
  si_log : forall k x,
      (forall e, is_last x (logh k (slogs s)) e -> (In x (sget k m) <-> e_ins e = true)) /\
      ((forall e', In e' (logh k (slogs s)) -> e_elem e' <> x) -> (In x (sget k m) <-> In x (sget k (sstore s))));
  si_seq : forall k e, In e (logh k (slogs s)) -> e_seq e < sseq s;
  si_root : forall k, root_max (logh k (slogs s));
  si_plog : forall b k x i, In b (spending s) -> batch_op k x b = Some i ->
              exists e, In e (logh k (slogs s)) /\ e_epoch e = sb_epoch b /\ e_elem e = x;
  si_dirty : forall k, dirty_of k (slogs s) = (scnt_pending k (spending s) + cnt_notify k (snotifyq s))%Z;
  si_asc : sasc 0 (spending s) (snext_epoch s);
  si_nq : forall e ks, In (e, ks) (snotifyq s) -> e < snext_epoch s /\ forall b, In b (spending s) -> e < sb_epoch b;
  si_hi : forall b k, In b (spending s) -> swrote k b = true -> exists e, alookup k hi = Some e /\ sb_epoch b <= e;
  si_nodup : forall k, NoDup (sget k (sstore s))
}.

Lemma scnt_pending_nonneg k l : (0 <= scnt_pending k l)%Z.
Proof. induction l as [|b r IH]; cbn [scnt_pending]; [lia|]. pose proof (b2z_nonneg (swrote k b)). lia. Qed.
Lemma scnt_pending_app k l1 l2 : scnt_pending k (l1 ++ l2) = (scnt_pending k l1 + scnt_pending k l2)%Z.
Proof. induction l1 as [|b r IH]; cbn [app scnt_pending]; [lia|]. rewrite IH. lia. Qed.
Lemma scnt_pending_zero k l : scnt_pending k l = 0%Z -> forall b, In b l -> swrote k b = false.
Proof.
  induction l as [|b r IH]; cbn [scnt_pending]; intros H c Hc; [destruct Hc|]. destruct Hc as [<-|Hin].
  - pose proof (scnt_pending_nonneg k r). destruct (swrote k b); cbn in H; [lia|reflexivity].
  - apply IH; [|exact Hin]. pose proof (scnt_pending_nonneg k r). pose proof (b2z_nonneg (swrote k b)). lia.
Qed.
Lemma pend_op_app k x l1 l2 :
  pend_op k x (l1 ++ l2) = match pend_op k x l2 with Some i => Some i | None => pend_op k x l1 end.
Proof.
  induction l1 as [|b r IH]; cbn [app pend_op]; [destruct (pend_op k x l2); reflexivity|].
  rewrite IH. destruct (pend_op k x l2); reflexivity.
Qed.
Lemma pend_op_none k x l : (forall b, In b l -> batch_op k x b = None) -> pend_op k x l = None.
Proof.
  induction l as [|b r IH]; intros H; cbn [pend_op]; [reflexivity|].
  rewrite IH by (intros c Hc; apply H; now right). apply H. now left.
Qed.
Lemma batch_op_wrote k x b i : batch_op k x b = Some i -> swrote k b = true.
Proof. unfold batch_op, swrote. destruct (alookup k (sb_writes b)); [reflexivity|discriminate]. Qed.

Lemma sasc_weaken lo lo' l hi : lo' <= lo -> sasc lo l hi -> sasc lo' l hi.
Proof. destruct l as [|b r]; cbn [sasc]; intros; [lia|]. split; [lia|tauto]. Qed.
Lemma sasc_snoc lo l e : sasc lo l e -> sasc lo (l ++ [SBatch e false []]) (e + 1).
Proof.
  revert lo. induction l as [|b r IH]; intros lo H; cbn [app sasc] in *.
  - cbn. lia.
  - destruct H as [H1 H2]. split; [exact H1|]. now apply IH.
Qed.
Lemma sasc_bound lo l hi : sasc lo l hi -> forall b, In b l -> lo <= sb_epoch b /\ sb_epoch b < hi.
Proof.
  revert lo. induction l as [|c r IH]; intros lo H b Hin; [destruct Hin|].
  cbn [sasc] in H. destruct H as [H1 H2].
  assert (Hhi : sb_epoch c + 1 <= hi).
  { clear -H2. revert H2. generalize (sb_epoch c + 1). induction r as [|d r IH]; intros lo H; cbn [sasc] in H; [exact H|].
    destruct H as [H1 H2]. specialize (IH _ H2). lia. }
  destruct Hin as [<-|Hin]; [lia|]. destruct (IH _ H2 b Hin). lia.
Qed.
Lemma sasc_after lo l1 b l2 hi : sasc lo (l1 ++ b :: l2) hi -> forall x, In x l2 -> sb_epoch b < sb_epoch x.
Proof.
  revert lo. induction l1 as [|c r IH]; intros lo H; cbn [app sasc] in H.
  - destruct H as [_ H]. intros x Hx. destruct (sasc_bound _ _ _ H x Hx). lia.
  - destruct H as [_ H]. now apply (IH _ H).
Qed.
Lemma sasc_replace lo l1 b b' l2 hi :
  sb_epoch b' = sb_epoch b -> sasc lo (l1 ++ b :: l2) hi -> sasc lo (l1 ++ b' :: l2) hi.
Proof.
  intros E. revert lo. induction l1 as [|c r IH]; intros lo H; cbn [app sasc] in *.
  - now rewrite E.
  - destruct H as [H1 H2]. split; [exact H1|]. now apply IH.
Qed.

Lemma supd_batch_split e f l l' :
  supd_batch e f l = Some l' ->
  exists l1 b b' l2, l = l1 ++ b :: l2 /\ l' = l1 ++ b' :: l2 /\ sb_epoch b = e /\ f b = Some b' /\
                     sfind_batch e l = Some b.
Proof.
  revert l'. induction l as [|c r IH]; intros l' H; cbn [supd_batch sfind_batch] in *; [discriminate|].
  destruct (sb_epoch c =? e) eqn:E.
  - apply N.eqb_eq in E. destruct (f c) as [c'|] eqn:F; [|discriminate]. inversion H; subst l'.
    exists [], c, c', r. cbn [app]. auto.
  - destruct (supd_batch e f r) as [r'|]; [|discriminate]. inversion H; subst l'.
    destruct (IH r' eq_refl) as (l1 & b & b' & l2 & -> & -> & Hb & Hf & Hfind).
    exists (c :: l1), b, b', l2. cbn [app]. auto.
Qed.

Lemma has_key_map_fst' {A} k (ws : list (key * A)) :
  has_key k (map fst ws) = match alookup k ws with Some _ => true | None => false end.
Proof.
  induction ws as [|[k' w] r IH]; cbn [map fst has_key existsb alookup]; [reflexivity|].
  destruct (k =? k'); [reflexivity|exact IH].
Qed.
Lemma notify_one_in b k q q' : notify_one b k q = Some q' ->
  (exists ks, In (b, ks) q) /\ forall e ks', In (e, ks') q' -> exists ks, In (e, ks) q.
Proof.
  revert q'. induction q as [|[e ks] r IH]; intros q' H; cbn [notify_one] in H; [discriminate|].
  destruct (e =? b) eqn:E.
  - apply N.eqb_eq in E. subst e. destruct (has_key k ks); [|discriminate]. inversion H; subst q'. split.
    + exists ks. now left.
    + intros e ks' Hin. destruct (del_key k ks) as [|y ys].
      * exists ks'. now right.
      * destruct Hin as [Hin|Hin]; [injection Hin as <- <-; exists ks; now left|exists ks'; now right].
  - destruct (notify_one b k r) as [r'|]; [|discriminate]. inversion H; subst q'.
    destruct (IH r' eq_refl) as [(ks0 & H0) H1]. split.
    + exists ks0. now right.
    + intros e' ks' [Hin|Hin]; [injection Hin as <- <-; exists ks; now left|].
      destruct (H1 _ _ Hin) as (ks1 & H2). exists ks1. now right.
Qed.

Lemma logh_aset_eq k h d logs : logh k (aset k (h, d) logs) = h.
Proof. unfold logh. now rewrite alookup_aset_eq. Qed.
Lemma logh_aset_ne k k' e logs : k <> k' -> logh k' (aset k e logs) = logh k' logs.
Proof. intros H. unfold logh. now rewrite alookup_aset_ne. Qed.
Lemma dirty_aset_eq k h d logs : dirty_of k (aset k (h, d) logs) = d.
Proof. unfold dirty_of. now rewrite alookup_aset_eq. Qed.
Lemma dirty_aset_ne k k' e logs : k <> k' -> dirty_of k' (aset k e logs) = dirty_of k' logs.
Proof. intros H. unfold dirty_of. now rewrite alookup_aset_ne. Qed.

(** * steps that do not touch sets: NewBatch, Submit, value-cache eviction *)
Ltac sproj := cbn [sstore scache slogs snext_epoch sseq spending snotifyq].

Lemma sinv_new s m hi :
  SInv s m hi ->
  SInv (SSt (sstore s) (scache s) (slogs s) (snext_epoch s + 1) (sseq s)
            (spending s ++ [SBatch (snext_epoch s) false []]) (snotifyq s)) m hi.
Proof.
  intros [Ic Is Il Iq Ir Ip Id Ia Inq Ih Ind]. constructor; sproj; auto.
  - intros k x. rewrite pend_op_app. cbn. exact (Is k x).
  - intros b k x i Hin Hb. apply in_app_or in Hin. destruct Hin as [Hin|[<-|[]]]; [now apply (Ip b k x i)|discriminate Hb].
  - intros k. rewrite scnt_pending_app. cbn. rewrite (Id k). lia.
  - now apply sasc_snoc.
  - intros e ks Hin. destruct (Inq e ks Hin) as [H1 H2]. split; [lia|].
    intros b Hb. apply in_app_or in Hb. destruct Hb as [Hb|[<-|[]]]; [now apply H2|exact H1].
  - intros b k Hin W. apply in_app_or in Hin. destruct Hin as [Hin|[<-|[]]]; [now apply (Ih b k)|discriminate W].
Qed.

Lemma sinv_sub s m hi b p' :
  SInv s m hi -> supd_batch b smark_sub (spending s) = Some p' ->
  SInv (SSt (sstore s) (scache s) (slogs s) (snext_epoch s) (sseq s) p' (snotifyq s)) m hi.
Proof.
  intros [Ic Is Il Iq Ir Ip Id Ia Inq Ih Ind] Hu.
  destruct (supd_batch_split _ _ _ _ Hu) as (l1 & b0 & b' & l2 & Hp & Hp' & Hb0 & Hm & _).
  unfold smark_sub in Hm. destruct (sb_sub b0); [discriminate|]. inversion Hm; subst b'; clear Hm.
  set (b' := SBatch (sb_epoch b0) true (sb_writes b0)) in *.
  assert (Hin' : forall c, In c p' -> exists c0, In c0 (spending s) /\ sb_epoch c = sb_epoch c0 /\ sb_writes c = sb_writes c0).
  { intros c Hc. rewrite Hp' in Hc. apply in_app_or in Hc. destruct Hc as [Hc|[<-|Hc]].
    - exists c. split; [rewrite Hp; apply in_or_app; now left|auto].
    - exists b0. split; [rewrite Hp; apply in_or_app; right; now left|auto].
    - exists c. split; [rewrite Hp; apply in_or_app; right; now right|auto]. }
  constructor; sproj; auto.
  - intros k x. specialize (Is k x). rewrite Hp, pend_op_app in Is. rewrite Hp', pend_op_app. exact Is.
  - intros c k x i Hc Hb. destruct (Hin' c Hc) as (c0 & H0 & He & Hw).
    destruct (Ip c0 k x i H0) as (e & A & B & C); [unfold batch_op in *; now rewrite <- Hw|].
    exists e. split; [exact A|]. split; [congruence|exact C].
  - intros k. specialize (Id k). rewrite Hp, scnt_pending_app in Id. rewrite Hp', scnt_pending_app. exact Id.
  - rewrite Hp'. rewrite Hp in Ia. eapply sasc_replace; [|exact Ia]. reflexivity.
  - intros e ks Hin. destruct (Inq e ks Hin) as [H1 H2]. split; [exact H1|].
    intros c Hc. destruct (Hin' c Hc) as (c0 & H0 & He & _). rewrite He. now apply H2.
  - intros c k Hc W. destruct (Hin' c Hc) as (c0 & H0 & He & Hw). rewrite He. apply (Ih c0 k H0).
    unfold swrote in *. now rewrite <- Hw.
Qed.

Lemma sinv_evict s m hi k :
  SInv s m hi ->
  SInv (SSt (sstore s) (aremove k (scache s)) (slogs s) (snext_epoch s) (sseq s) (spending s) (snotifyq s)) m hi.
Proof.
  intros [Ic Is Il Iq Ir Ip Id Ia Inq Ih Ind]. constructor; sproj; auto.
  intros k' set H. destruct (N.eq_dec k k') as [<-|Hne].
  - rewrite alookup_aremove_eq in H. discriminate.
  - rewrite alookup_aremove_ne in H by exact Hne. now apply Ic.
Qed.

(** * commit *)
Lemma sinv_commit s m hi b r :
  SInv s m hi -> spending s = b :: r ->
  SInv (SSt (commit_store (sb_writes b) (sstore s)) (scache s) (slogs s) (snext_epoch s) (sseq s) r
            (match map fst (sb_writes b) with [] => snotifyq s | _ :: _ => snotifyq s ++ [(sb_epoch b, map fst (sb_writes b))] end)) m hi.
Proof.
  intros [Ic Is Il Iq Ir Ip Id Ia Inq Ih Ind] Hp. rewrite Hp in *.
  assert (Hst : forall k x, In x (sget k (commit_store (sb_writes b) (sstore s))) <->
                            match batch_op k x b with Some i => i = true | None => In x (sget k (sstore s)) end).
  { intros k x. rewrite commit_store_get. unfold batch_op. destruct (alookup k (sb_writes b)) as [ops|]; [|tauto].
    apply apply_ops_In. }
  constructor; sproj; auto.
  - intros k x. specialize (Is k x). cbn [pend_op] in Is. rewrite Is.
    destruct (pend_op k x r); [tauto|]. symmetry. apply Hst.
  - intros k x. destruct (Il k x) as [L1 L2]. split; [exact L1|]. intros Hno. rewrite (L2 Hno).
    rewrite Hst. destruct (batch_op k x b) as [i|] eqn:B; [|tauto].
    destruct (Ip b k x i (or_introl eq_refl) B) as (e & A & _ & C). exfalso. now apply (Hno e A).
  - intros c k x i Hc. apply (Ip c k x i). now right.
  - intros k. specialize (Id k). cbn [scnt_pending] in Id.
    assert (Hn : cnt_notify k (match map fst (sb_writes b) with [] => snotifyq s | _ :: _ => snotifyq s ++ [(sb_epoch b, map fst (sb_writes b))] end)
                 = (cnt_notify k (snotifyq s) + b2z (swrote k b))%Z).
    { unfold swrote. rewrite <- has_key_map_fst'. destruct (map fst (sb_writes b)) as [|y ys] eqn:M.
      - cbn. lia.
      - rewrite cnt_notify_app. cbn [cnt_notify]. lia. }
    rewrite Hn, Id. lia.
  - cbn [sasc] in Ia. destruct Ia as [_ Ia]. eapply sasc_weaken; [|exact Ia]. lia.
  - cbn [sasc] in Ia. destruct Ia as [_ Ia]. intros e ks Hin.
    assert (Hold : In (e, ks) (snotifyq s) \/ e = sb_epoch b).
    { destruct (map fst (sb_writes b)); [now left|]. apply in_app_or in Hin. destruct Hin as [Hin|[Hin|[]]]; [now left|].
      right. now inversion Hin. }
    destruct Hold as [Hold| ->].
    + destruct (Inq e ks Hold) as [H1 H2]. split; [exact H1|]. intros c Hc. apply H2. now right.
    + split.
      * assert (Hx : forall lo l hi0, sasc lo l hi0 -> lo <= hi0).
        { intros lo l. revert lo. induction l as [|d l IHl]; intros lo hi0 H; cbn [sasc] in H; [exact H|].
          destruct H as [H1 H2]. specialize (IHl _ _ H2). lia. }
        specialize (Hx _ _ _ Ia). lia.
      * intros c Hc. destruct (sasc_bound _ _ _ Ia c Hc). lia.
  - intros c k Hc. apply (Ih c k). now right.
  - intros k. rewrite commit_store_get. destruct (alookup k (sb_writes b)); [apply apply_ops_NoDup|]; apply Ind.
Qed.

(** * the log of a key disappears (flushed entirely, or evicted): nothing of that key is pending *)
Lemma logh_aremove_eq k logs : logh k (aremove k logs) = [].
Proof. unfold logh. now rewrite alookup_aremove_eq. Qed.
Lemma logh_aremove_ne k k' logs : k <> k' -> logh k' (aremove k logs) = logh k' logs.
Proof. intros H. unfold logh. now rewrite alookup_aremove_ne. Qed.

Lemma sinv_log_gone s m hi k logs' q' :
  SInv s m hi ->
  (forall c x, In c (spending s) -> batch_op k x c = None) ->
  logh k logs' = [] -> (forall k', k <> k' -> logh k' logs' = logh k' (slogs s)) ->
  (forall k', dirty_of k' logs' = (scnt_pending k' (spending s) + cnt_notify k' q')%Z) ->
  (forall e ks', In (e, ks') q' -> exists ks, In (e, ks) (snotifyq s)) ->
  SInv (SSt (sstore s) (scache s) logs' (snext_epoch s) (sseq s) (spending s) q') m hi.
Proof.
  intros [Ic Is Il Iq Ir Ip Id Ia Inq Ih Ind] Hnone Hk Hoth Hd Hq. constructor; sproj; auto.
  - intros k' x. destruct (N.eq_dec k k') as [<-|Hne].
    + rewrite Hk. split; [intros e [[] _]|]. intros _. rewrite (Is k x).
      rewrite pend_op_none; [tauto|]. intros c Hc. now apply Hnone.
    + rewrite (Hoth k' Hne). apply Il.
  - intros k' e. destruct (N.eq_dec k k') as [<-|Hne]; [rewrite Hk; intros []|rewrite (Hoth k' Hne); apply Iq].
  - intros k'. destruct (N.eq_dec k k') as [<-|Hne]; [rewrite Hk; apply root_max_nil|rewrite (Hoth k' Hne); apply Ir].
  - intros c k' x i Hc Hb. destruct (N.eq_dec k k') as [<-|Hne].
    + rewrite (Hnone c x Hc) in Hb. discriminate.
    + rewrite (Hoth k' Hne). now apply (Ip c k' x i).
  - intros e ks' Hin. destruct (Hq e ks' Hin) as (ks & Hin'). now apply (Inq e ks).
Qed.

Lemma sinv_notify s m hi b k q' :
  SInv s m hi -> notify_one b k (snotifyq s) = Some q' ->
  SInv (SSt (sstore s) (scache s)
            (match alookup k (slogs s) with
             | Some (h, d) => aset k (flush_up_to b h, (d - 1)%Z) (slogs s)
             | None => slogs s
             end) (snext_epoch s) (sseq s) (spending s) q') m hi.
Proof.
  intros HI Hn. pose proof HI as [Ic Is Il Iq Ir Ip Id Ia Inq Ih Ind].
  destruct (notify_one_cnt _ _ _ _ Hn) as [N1 N2].
  destruct (notify_one_in _ _ _ _ Hn) as [(ks0 & Hb) Hq].
  destruct (Inq b ks0 Hb) as [_ Hbelow].
  destruct (alookup k (slogs s)) as [[h d]|] eqn:E.
  - assert (Hh : logh k (slogs s) = h) by (unfold logh; now rewrite E).
    assert (Hdk : dirty_of k (slogs s) = d) by (unfold dirty_of; now rewrite E).
    assert (Hdirty : forall k', dirty_of k' (aset k (flush_up_to b h, (d - 1)%Z) (slogs s)) =
                                (scnt_pending k' (spending s) + cnt_notify k' q')%Z).
    { intros k'. destruct (N.eq_dec k k') as [<-|Hne].
      - rewrite dirty_aset_eq, N1. specialize (Id k). rewrite Hdk in Id. lia.
      - rewrite dirty_aset_ne by exact Hne. rewrite (N2 k' Hne). apply Id. }
    specialize (Ir k). rewrite Hh in Ir.
    destruct (flush_dichotomy b h Ir) as [[F Hall]|[F _]]; rewrite F in Hdirty |- *.
    + apply sinv_log_gone with (k := k); auto.
      * intros c x Hc. destruct (batch_op k x c) as [i|] eqn:B; [|reflexivity]. exfalso.
        destruct (Ip c k x i Hc B) as (e & A & Ee & _). rewrite Hh in A. specialize (Hall e A).
        specialize (Hbelow c Hc). lia.
      * apply logh_aset_eq.
      * intros k' Hne. now apply logh_aset_ne.
    + (* nothing flushed *)
      assert (Hl : forall k', logh k' (aset k (h, (d - 1)%Z) (slogs s)) = logh k' (slogs s)).
      { intros k'. destruct (N.eq_dec k k') as [<-|Hne]; [now rewrite logh_aset_eq|now apply logh_aset_ne]. }
      constructor; sproj; auto.
      * intros k' x. rewrite Hl. apply Il.
      * intros k' e. rewrite Hl. apply Iq.
      * intros k'. rewrite Hl. destruct (N.eq_dec k k') as [<-|Hne]; [now rewrite Hh|apply (si_root _ _ _ HI)].
      * intros c k' x i Hc B. rewrite Hl. now apply (Ip c k' x i).
      * intros e ks' Hin. destruct (Hq e ks' Hin) as (ks & Hin'). now apply (Inq e ks).
  - (* no log: the key would not be counted as dirty *)
    exfalso. specialize (Id k). unfold dirty_of in Id. rewrite E in Id.
    pose proof (scnt_pending_nonneg k (spending s)). pose proof (cnt_notify_nonneg k q'). lia.
Qed.

Lemma sinv_evictlog s m hi k h :
  SInv s m hi -> alookup k (slogs s) = Some (h, 0%Z) ->
  SInv (SSt (sstore s) (scache s) (aremove k (slogs s)) (snext_epoch s) (sseq s) (spending s) (snotifyq s)) m hi.
Proof.
  intros HI E. pose proof HI as [Ic Is Il Iq Ir Ip Id Ia Inq Ih Ind].
  assert (Hz : scnt_pending k (spending s) = 0%Z /\ cnt_notify k (snotifyq s) = 0%Z).
  { specialize (Id k). unfold dirty_of in Id. rewrite E in Id.
    pose proof (scnt_pending_nonneg k (spending s)). pose proof (cnt_notify_nonneg k (snotifyq s)). lia. }
  destruct Hz as [Hz1 Hz2].
  apply sinv_log_gone with (k := k); auto.
  - intros c x Hc. destruct (batch_op k x c) as [i|] eqn:B; [|reflexivity].
    apply batch_op_wrote in B. rewrite (scnt_pending_zero k _ Hz1 c Hc) in B. discriminate.
  - apply logh_aremove_eq.
  - intros k' Hne. now apply logh_aremove_ne.
  - intros k'. destruct (N.eq_dec k k') as [<-|Hne].
    + unfold dirty_of. rewrite alookup_aremove_eq. lia.
    + unfold dirty_of. rewrite alookup_aremove_ne by exact Hne. apply Id.
  - intros e ks' Hin. now exists ks'.
Qed.

(** * reading *)
Lemma NoDup_app_r {A} (a b : list A) : NoDup (a ++ b) -> NoDup b.
Proof. induction a as [|x r IH]; cbn [app]; [auto|]. intros H. inversion H; auto. Qed.
Lemma log_snapshot_lww k s : log_snapshot true k s = snap_lww (logh k (slogs s)).
Proof. unfold log_snapshot, logh, snapshot. destruct (alookup k (slogs s)) as [[h d]|]; reflexivity. Qed.

Lemma overlay_disjoint h x : In x (fst (snap_lww h)) -> ~ In x (snd (snap_lww h)).
Proof.
  rewrite snap_lww_added, snap_lww_removed. intros (e & He & Hi) (e' & He' & Hi'). rewrite He in He'.
  inversion He'; subst. congruence.
Qed.

(** what every read path computes — (store minus removed) plus added — is the reference set *)
Lemma overlay_correct s m hi k x : SInv s m hi ->
  ((In x (sget k (sstore s)) /\ ~ In x (snd (snap_lww (logh k (slogs s))))) \/ In x (fst (snap_lww (logh k (slogs s)))))
  <-> In x (sget k m).
Proof.
  intros HI. destruct (si_log _ _ _ HI k x) as [L1 L2]. set (h := logh k (slogs s)) in *.
  rewrite snap_lww_added, snap_lww_removed.
  destruct (last_op x h None) as [e|] eqn:E.
  - specialize (L1 e (last_op_some _ _ _ E)). rewrite L1. destruct (e_ins e) eqn:Ei.
    + split; [reflexivity|]. intros _. right. now exists e.
    + split; [|discriminate]. intros [[_ H]|(e' & He' & Hi')]; [|inversion He'; subst; congruence].
      exfalso. apply H. now exists e.
  - rewrite (L2 (last_op_none _ _ E)). split.
    + intros [[H _]|(e' & He' & _)]; [exact H|discriminate].
    + intros H. left. split; [exact H|]. intros (e' & He' & _). discriminate.
Qed.

Lemma sinv_cache_set s m hi c' :
  SInv s m hi ->
  (forall k set, alookup k c' = Some (InMem set) -> forall x, In x set <-> In x (sget k m)) ->
  SInv (SSt (sstore s) c' (slogs s) (snext_epoch s) (sseq s) (spending s) (snotifyq s)) m hi.
Proof. intros [Ic Is Il Iq Ir Ip Id Ia Inq Ih Ind] H. constructor; sproj; auto. Qed.

Lemma sinv_get thr s m hi k c' out :
  SInv s m hi -> sread thr true true s k = (c', out) ->
  SInv (SSt (sstore s) c' (slogs s) (snext_epoch s) (sseq s) (spending s) (snotifyq s)) m hi /\
  forall x, In x out <-> In x (sget k m).
Proof.
  intros HI Hr. unfold sread in Hr. rewrite log_snapshot_lww in Hr.
  set (h := logh k (slogs s)) in *. pose proof (fun x => overlay_correct s m hi k x HI) as Hov. fold h in Hov.
  pose proof (overlay_disjoint h) as Hdis.
  destruct (snap_lww h) as [added removed]. cbn [fst snd] in *.
  pose proof (si_nodup _ _ _ HI k) as Hnd. set (scan := sget k (sstore s)) in *.
  destruct (alookup k (scache s)) as [[set|]|] eqn:C.
  - inversion Hr; subst c' out. split; [destruct s; exact HI|]. exact (si_cache _ _ _ HI k set C).
  - inversion Hr; subst c' out. split; [destruct s; exact HI|].
    intros x. rewrite stream_iter_In by exact Hnd. apply Hov.
  - destruct (thr <? N.of_nat (length scan)) eqn:T.
    2: { inversion Hr; subst c' out; clear Hr.
      set (set := fold_left (fun acc y => del y acc) removed (fold_left (fun acc y => ins y acc) added scan)).
      assert (Hset : forall x, In x set <-> In x (sget k m)).
      { intros x. subst set. rewrite fold_del_In, fold_ins_In. rewrite <- (Hov x). split.
        - intros [[H|H] H2]; [left; now split|now right].
        - intros [[H H2]|H]; [split; [now left|exact H2]|split; [now right|now apply Hdis]]. }
      split; [|exact Hset].
      apply sinv_cache_set; [exact HI|]. intros k' set' H x. destruct (N.eq_dec k k') as [<-|Hne].
      * rewrite alookup_aset_eq in H. inversion H; subst set'. apply Hset.
      * rewrite alookup_aset_ne in H by exact Hne. exact (si_cache _ _ _ HI k' set' H x). }
    set (n := N.to_nat (thr + 1)) in *.
    set (sp := spill_iter true (S (length scan + length added)) (firstn n scan) (skipn n scan) added removed) in Hr.
    inversion Hr; subst c' out; clear Hr.
    + split.
      * apply sinv_cache_set; [exact HI|]. intros k' set H x. destruct (N.eq_dec k k') as [<-|Hne].
        -- rewrite alookup_aset_eq in H. discriminate.
        -- rewrite alookup_aset_ne in H by exact Hne. exact (si_cache _ _ _ HI k' set H x).
      * intros x. subst sp.
        rewrite spill_half.
        -- rewrite in_app_iff, filter_In, stream_iter_In.
           ++ rewrite <- (Hov x). rewrite <- (firstn_skipn n scan) at 3. rewrite in_app_iff.
              rewrite negb_true_iff. split.
              ** intros [[H1 H2]|[[H1 H2]|H]]; [left; split; [now left|]|left; split; [now right|exact H2]|now right].
                 intros H3. apply mem_In in H3. congruence.
              ** intros [[[H1|H1] H2]|H]; [left; split; [exact H1|]|right; left; now split|right; now right].
                 destruct (mem x removed) eqn:M; [apply mem_In in M; contradiction|reflexivity].
           ++ rewrite <- (firstn_skipn n scan) in Hnd. now apply NoDup_app_r in Hnd.
        -- assert (length (firstn n scan) + length (skipn n scan) = length scan)%nat.
           { rewrite <- app_length. now rewrite firstn_skipn. }
           lia.
Qed.

(** * writing *)
Definition new_ops (k : key) (x : N) (i : bool) (b0 : sbatch) : list (N * bool) :=
  (x, i) :: match alookup k (sb_writes b0) with Some l => l | None => [] end.
Definition wbatch (k : key) (x : N) (i : bool) (b0 : sbatch) : sbatch :=
  SBatch (sb_epoch b0) false (aset k (new_ops k x i b0) (sb_writes b0)).

Lemma batch_op_w_eq k x i b0 : batch_op k x (wbatch k x i b0) = Some i.
Proof. unfold batch_op, wbatch, new_ops. cbn [sb_writes]. rewrite alookup_aset_eq. cbn [alookup]. now rewrite N.eqb_refl. Qed.
Lemma batch_op_w_ne_x k x x' i b0 : x <> x' -> batch_op k x' (wbatch k x i b0) = batch_op k x' b0.
Proof.
  intros H. unfold batch_op, wbatch, new_ops. cbn [sb_writes]. rewrite alookup_aset_eq. cbn [alookup].
  destruct (x' =? x) eqn:E; [apply N.eqb_eq in E; congruence|]. destruct (alookup k (sb_writes b0)); reflexivity.
Qed.
Lemma batch_op_w_ne_k k k' x x' i b0 : k <> k' -> batch_op k' x' (wbatch k x i b0) = batch_op k' x' b0.
Proof. intros H. unfold batch_op, wbatch. cbn [sb_writes]. now rewrite alookup_aset_ne. Qed.
Lemma swrote_w_eq k x i b0 : swrote k (wbatch k x i b0) = true.
Proof. unfold swrote, wbatch. cbn [sb_writes]. now rewrite alookup_aset_eq. Qed.
Lemma swrote_w_ne k k' x i b0 : k <> k' -> swrote k' (wbatch k x i b0) = swrote k' b0.
Proof. intros H. unfold swrote, wbatch. cbn [sb_writes]. now rewrite alookup_aset_ne. Qed.

Definition wlogs (k : key) (e : entry) (u : bool) (logs : list (key * (list entry * Z))) :=
  match alookup k logs with
  | Some (h, d) => aset k (push h e, if u then (d + 1)%Z else d) logs
  | None => aset k (push [] e, if u then 1%Z else 0%Z) logs
  end.
Lemma wlogs_spec k e u logs :
  logh k (wlogs k e u logs) = push (logh k logs) e /\
  dirty_of k (wlogs k e u logs) = (dirty_of k logs + b2z u)%Z /\
  forall k', k <> k' -> logh k' (wlogs k e u logs) = logh k' logs /\ dirty_of k' (wlogs k e u logs) = dirty_of k' logs.
Proof.
  unfold wlogs, logh at 2, dirty_of at 2. destruct (alookup k logs) as [[h d]|] eqn:E.
  - rewrite logh_aset_eq, dirty_aset_eq. split; [reflexivity|]. split; [destruct u; cbn; lia|].
    intros k' H. now rewrite logh_aset_ne, dirty_aset_ne.
  - rewrite logh_aset_eq, dirty_aset_eq. split; [reflexivity|]. split; [destruct u; cbn; lia|].
    intros k' H. now rewrite logh_aset_ne, dirty_aset_ne.
Qed.

Definition smap1 (m : list (key * list N)) (k : key) (x : N) (i : bool) : list (key * list N) :=
  aset k (if i then ins x (sget k m) else del x (sget k m)) m.

Lemma smap1_eq_x m k x i : In x (sget k (smap1 m k x i)) <-> i = true.
Proof.
  unfold smap1. rewrite sget_aset_eq. destruct i.
  - rewrite ins_In. intuition.
  - rewrite del_In. split; [intros [_ H]; congruence|discriminate].
Qed.
Lemma smap1_ne_x m k x x' i : x <> x' -> (In x' (sget k (smap1 m k x i)) <-> In x' (sget k m)).
Proof.
  intros H. unfold smap1. rewrite sget_aset_eq. destruct i.
  - rewrite ins_In. split; [intros [E|H1]; [congruence|exact H1]|auto].
  - rewrite del_In. split; [intros [H1 _]; exact H1|intros H1; split; [exact H1|congruence]].
Qed.
Lemma smap1_ne_k m k k' x i : k <> k' -> sget k' (smap1 m k x i) = sget k' m.
Proof. intros H. unfold smap1. now apply sget_aset_ne. Qed.

Lemma sinv_write thr s m hi b k x i s' :
  SInv s m hi -> swrite thr s b k x i = Some s' ->
  match alookup k hi with Some e => e <=? b | None => true end = true ->
  SInv s' (smap1 m k x i) ((k, b) :: hi).
Proof.
  intros HI Hw Hord. pose proof HI as [Ic Is Il Iq Ir Ip Id Ia Inq Ih Ind]. unfold swrite in Hw.
  destruct (sfind_batch b (spending s)) as [bt|] eqn:Hf; [|discriminate].
  destruct (supd_batch b (sadd_write k x i) (spending s)) as [p'|] eqn:Hu; [|discriminate].
  destruct (supd_batch_split _ _ _ _ Hu) as (l1 & b0 & b' & l2 & Hp & Hp' & Hb0 & Hadd & Hfind).
  rewrite Hfind in Hf. inversion Hf; subst bt; clear Hf.
  unfold sadd_write in Hadd. destruct (sb_sub b0); [discriminate|].
  assert (Hb' : b' = wbatch k x i b0) by (inversion Hadd; reflexivity). clear Hadd. subst b'.
  set (u := match alookup k (sb_writes b0) with None => true | Some _ => false end) in Hw.
  set (e := Entry b (sseq s) i x) in Hw.
  fold (wlogs k e u (slogs s)) in Hw.
  destruct (wlogs_spec k e u (slogs s)) as (WL1 & WL2 & WL3).
  set (logs' := wlogs k e u (slogs s)) in *.
  assert (Hu' : b2z (swrote k b0) = (1 - b2z u)%Z).
  { unfold swrote, u. destruct (alookup k (sb_writes b0)); reflexivity. }
  assert (Hl2 : forall y, In y l2 -> swrote k y = false).
  { intros y Hy. destruct (swrote k y) eqn:W; [|reflexivity]. exfalso.
    rewrite Hp in Ia. pose proof (sasc_after _ _ _ _ _ Ia y Hy) as Hafter.
    destruct (Ih y k) as (e0 & He0 & Hle); [rewrite Hp; apply in_or_app; right; now right|exact W|].
    rewrite He0 in Hord. apply N.leb_le in Hord. lia. }
  assert (Hl2' : forall x', pend_op k x' l2 = None).
  { intros x'. apply pend_op_none. intros y Hy. specialize (Hl2 y Hy). unfold batch_op. unfold swrote in Hl2.
    destruct (alookup k (sb_writes y)); [discriminate|reflexivity]. }
  assert (Hin' : forall c, In c p' -> c = wbatch k x i b0 \/ In c (spending s)).
  { intros c Hc. rewrite Hp' in Hc. apply in_app_or in Hc. destruct Hc as [Hc|[<-|Hc]]; [right|now left|right].
    - rewrite Hp. apply in_or_app. now left.
    - rewrite Hp. apply in_or_app. right. now right. }
  assert (Hb0in : In b0 (spending s)) by (rewrite Hp; apply in_or_app; right; now left).
  assert (Hlogin : forall k' e', In e' (logh k' (slogs s)) -> In e' (logh k' logs')).
  { intros k' e' H. destruct (N.eq_dec k k') as [<-|Hne]; [rewrite WL1; apply push_In; now right|].
    now rewrite (proj1 (WL3 k' Hne)). }
  set (cache' := match alookup k (scache s) with
                 | Some (InMem set) =>
                     if thr <? N.of_nat (length (if i then ins x set else del x set))
                     then aset k TooLarge (scache s) else aset k (InMem (if i then ins x set else del x set)) (scache s)
                 | _ => scache s end) in Hw.
  assert (Hc : forall k' set', alookup k' cache' = Some (InMem set') ->
               (k <> k' /\ alookup k' (scache s) = Some (InMem set')) \/
               (k = k' /\ exists set, alookup k (scache s) = Some (InMem set) /\ set' = if i then ins x set else del x set)).
  { intros k' set' H. subst cache'. destruct (N.eq_dec k k') as [<-|Hne].
    - right. split; [reflexivity|]. destruct (alookup k (scache s)) as [[set|]|] eqn:C; try (rewrite C in H; discriminate).
      destruct (thr <? _); rewrite alookup_aset_eq in H; [discriminate|]. inversion H. now exists set.
    - left. split; [exact Hne|]. destruct (alookup k (scache s)) as [[set|]|]; try exact H.
      destruct (thr <? _); now rewrite alookup_aset_ne in H by exact Hne. }
  clearbody cache'. inversion Hw; subst s'; clear Hw. constructor; sproj.
  - (* value cache *)
    intros k' set' H x'. destruct (Hc k' set' H) as [[Hne H1]|[<- (set & H1 & ->)]].
    + rewrite (smap1_ne_k m k k' x i Hne). exact (Ic k' set' H1 x').
    + pose proof (Ic k set H1) as Hs. destruct (N.eq_dec x x') as [<-|Hnx].
      * rewrite smap1_eq_x. destruct i; [rewrite ins_In; intuition|rewrite del_In; split; [intros [_ F]; congruence|discriminate]].
      * rewrite (smap1_ne_x m k x x' i Hnx). rewrite <- (Hs x'). destruct i.
        -- rewrite ins_In. split; [intros [E|H2]; [congruence|exact H2]|auto].
        -- rewrite del_In. split; [intros [H2 _]; exact H2|intros H2; split; [exact H2|congruence]].
  - (* store + pending *)
    intros k' x'. rewrite Hp', pend_op_app. cbn [pend_op].
    specialize (Is k' x'). rewrite Hp, pend_op_app in Is. cbn [pend_op] in Is.
    destruct (N.eq_dec k k') as [<-|Hnk].
    + rewrite Hl2' in *. destruct (N.eq_dec x x') as [<-|Hnx].
      * rewrite smap1_eq_x, batch_op_w_eq. tauto.
      * rewrite (smap1_ne_x m k x x' i Hnx), (batch_op_w_ne_x k x x' i b0 Hnx). exact Is.
    + rewrite (smap1_ne_k m k k' x i Hnk), (batch_op_w_ne_k k k' x x' i b0 Hnk). exact Is.
  - (* log *)
    intros k' x'. destruct (N.eq_dec k k') as [<-|Hnk].
    + rewrite WL1. destruct (Il k x') as [L1 L2]. destruct (N.eq_dec x x') as [<-|Hnx].
      * split.
        -- intros e1 (A & B & C). rewrite smap1_eq_x. apply push_In in A. destruct A as [->|A]; [reflexivity|].
           exfalso. specialize (Iq k e1 A). specialize (C e (proj2 (push_In _ _ _) (or_introl eq_refl)) eq_refl).
           cbn [e_seq e] in C. lia.
        -- intros Hno. exfalso. apply (Hno e); [apply push_In; now left|reflexivity].
      * pose proof (smap1_ne_x m k x x' i Hnx) as Hm. split.
        -- intros e1 (A & B & C). rewrite Hm. apply L1. apply push_In in A. destruct A as [->|A]; [cbn in B; congruence|].
           split; [exact A|]. split; [exact B|]. intros e2 H2 E2. apply C; [apply push_In; now right|exact E2].
        -- intros Hno. rewrite Hm. apply L2. intros e2 H2. apply Hno. apply push_In. now right.
    + rewrite (proj1 (WL3 k' Hnk)), (smap1_ne_k m k k' x i Hnk). apply Il.
  - (* sequence numbers *)
    intros k' e1 H. destruct (N.eq_dec k k') as [<-|Hnk].
    + rewrite WL1 in H. apply push_In in H. destruct H as [->|H]; [cbn; lia|]. specialize (Iq k e1 H). lia.
    + rewrite (proj1 (WL3 k' Hnk)) in H. specialize (Iq k' e1 H). lia.
  - (* heap root *)
    intros k'. destruct (N.eq_dec k k') as [<-|Hnk]; [rewrite WL1; apply push_root_max, Ir|].
    rewrite (proj1 (WL3 k' Hnk)). apply Ir.
  - (* pending operations are logged *)
    intros c k' x' j Hc' B. destruct (Hin' c Hc') as [->|Hold].
    + destruct (N.eq_dec k k') as [<-|Hnk].
      * destruct (N.eq_dec x x') as [<-|Hnx].
        -- exists e. split; [rewrite WL1; apply push_In; now left|]. split; [cbn; now rewrite Hb0|reflexivity].
        -- rewrite (batch_op_w_ne_x k x x' i b0 Hnx) in B. destruct (Ip b0 k x' j Hb0in B) as (e1 & A1 & B1 & C1).
           exists e1. split; [now apply Hlogin|]. split; [exact B1|exact C1].
      * rewrite (batch_op_w_ne_k k k' x x' i b0 Hnk) in B. destruct (Ip b0 k' x' j Hb0in B) as (e1 & A1 & B1 & C1).
        exists e1. split; [now apply Hlogin|]. split; [exact B1|exact C1].
    + destruct (Ip c k' x' j Hold B) as (e1 & A1 & B1 & C1). exists e1. split; [now apply Hlogin|]. split; [exact B1|exact C1].
  - (* dirty counters *)
    intros k'. rewrite Hp', scnt_pending_app. cbn [scnt_pending].
    specialize (Id k'). rewrite Hp, scnt_pending_app in Id. cbn [scnt_pending] in Id.
    destruct (N.eq_dec k k') as [<-|Hnk].
    + rewrite WL2, swrote_w_eq, Id, Hu'. cbn [b2z]. lia.
    + rewrite (proj2 (WL3 k' Hnk)), (swrote_w_ne k k' x i b0 Hnk). exact Id.
  - rewrite Hp'. rewrite Hp in Ia. eapply sasc_replace; [|exact Ia]. reflexivity.
  - intros e1 ks Hin. destruct (Inq e1 ks Hin) as [H1 H2]. split; [exact H1|].
    intros c Hc'. destruct (Hin' c Hc') as [->|Hold]; [cbn [wbatch sb_epoch]; now apply H2|now apply H2].
  - (* epoch order *)
    intros c k' Hc' W. cbn [alookup]. destruct (k' =? k) eqn:E.
    + apply N.eqb_eq in E. subst k'. exists b. split; [reflexivity|].
      destruct (Hin' c Hc') as [->|Hold]; [cbn [wbatch sb_epoch]; lia|].
      destruct (Ih c k Hold W) as (e0 & He0 & Hle). rewrite He0 in Hord. apply N.leb_le in Hord. lia.
    + apply N.eqb_neq in E. destruct (Hin' c Hc') as [->|Hold]; [|now apply (Ih c k')].
      rewrite swrote_w_ne in W by congruence. cbn [wbatch sb_epoch]. now apply (Ih b0 k').
  - exact Ind.
Qed.

(** * one step, all steps *)
Definition smap (m : list (key * list N)) (o : sop) : list (key * list N) :=
  match o with SIns _ k x => smap1 m k x true | SRem _ k x => smap1 m k x false | _ => m end.
Definition shi_upd (hi : list (key * N)) (o : sop) : list (key * N) :=
  match swrite_of o with Some (b, k) => (k, b) :: hi | None => hi end.
Definition sord_ok (hi : list (key * N)) (o : sop) : bool :=
  match swrite_of o with
  | Some (b, k) => match alookup k hi with Some e => e <=? b | None => true end
  | None => true
  end.

Lemma sinv_step thr s m hi o s' out :
  SInv s m hi -> sstep thr true true s o = Some (s', out) -> sord_ok hi o = true ->
  SInv s' (smap m o) (shi_upd hi o) /\
  match o with
  | SGet k => exists l, out = Some l /\ forall x, In x l <-> In x (sget k m)
  | _ => out = None
  end.
Proof.
  intros HI Hs Ho. destruct o as [|b k x|b k x|b|k| |b k|k|k]; cbn [sstep] in Hs.
  - inversion Hs; subst s' out. split; [|reflexivity]. now apply sinv_new.
  - destruct (swrite thr s b k x true) as [s1|] eqn:W; [|discriminate]. inversion Hs; subst s' out.
    split; [|reflexivity]. eapply sinv_write; eauto.
  - destruct (swrite thr s b k x false) as [s1|] eqn:W; [|discriminate]. inversion Hs; subst s' out.
    split; [|reflexivity]. eapply sinv_write; eauto.
  - destruct (supd_batch b smark_sub (spending s)) as [p'|] eqn:U; [|discriminate]. inversion Hs; subst s' out.
    split; [|reflexivity]. eapply sinv_sub; eauto.
  - destruct (sread thr true true s k) as [c' l] eqn:R. inversion Hs; subst s' out.
    destruct (sinv_get _ _ _ _ _ _ _ HI R) as [H1 H2]. split; [exact H1|]. now exists l.
  - destruct (spending s) as [|b r] eqn:P; [discriminate|]. destruct (sb_sub b); [|discriminate].
    inversion Hs; subst s' out. split; [|reflexivity]. now apply sinv_commit.
  - destruct (notify_one b k (snotifyq s)) as [q'|] eqn:Nq; [|discriminate]. inversion Hs; subst s' out.
    split; [|reflexivity]. now apply sinv_notify.
  - destruct (alookup k (scache s)); [|discriminate]. inversion Hs; subst s' out. split; [|reflexivity]. now apply sinv_evict.
  - destruct (alookup k (slogs s)) as [[h d]|] eqn:E; [|discriminate]. destruct (d =? 0)%Z eqn:D; [|discriminate].
    apply Z.eqb_eq in D. subst d. inversion Hs; subst s' out. split; [|reflexivity]. eapply sinv_evictlog; eauto.
Qed.

Lemma sinv_init : SInv sinit [] [].
Proof.
  constructor; cbn; try tauto; try (intros; discriminate); try lia.
  - intros k x. split; [intros e [[] _]|tauto].
  - intros k. apply root_max_nil.
  - intros k. constructor.
Qed.

Lemma set_ryw_gen thr ops : forall s m hi s' outs,
  SInv s m hi -> srun thr true true s ops = Some (s', outs) -> sordered hi ops = true ->
  same_sets outs (sspec m ops) = true.
Proof.
  induction ops as [|o r IH]; intros s m hi s' outs HI Hr Ho; cbn [srun] in Hr.
  - inversion Hr; reflexivity.
  - destruct (sstep thr true true s o) as [[s1 out]|] eqn:Hs; [|discriminate].
    destruct (srun thr true true s1 r) as [[s2 outs2]|] eqn:Hr2; [|discriminate]. inversion Hr; subst s' outs; clear Hr.
    assert (Hok : sord_ok hi o = true /\ sordered (shi_upd hi o) r = true).
    { cbn [sordered] in Ho. unfold sord_ok, shi_upd. destruct (swrite_of o) as [[b k]|]; [|auto].
      apply andb_prop in Ho. exact Ho. }
    destruct Hok as [Hok1 Hok2].
    destruct (sinv_step _ _ _ _ _ _ _ HI Hs Hok1) as [HI' Hout].
    specialize (IH _ _ _ _ _ HI' Hr2 Hok2).
    destruct o; cbn [sspec smap] in *; try (subst out; exact IH).
    destruct Hout as (l & -> & Hl). cbn [same_sets]. rewrite IH, andb_true_r. now apply same_set_iff.
Qed.

(** Read-your-writes for the key→set map with both repairs, any spill threshold: in every
    enabled, epoch-ordered operation sequence every [SGet] yields, as a set, exactly the
    members after all inserts and removes issued before it. *)
Theorem set_ryw : forall thr ops s outs,
  srun thr true true sinit ops = Some (s, outs) -> sordered [] ops = true ->
  same_sets outs (sspec [] ops) = true.
Proof. intros thr ops s outs. apply set_ryw_gen. exact sinv_init. Qed.

(** the hypotheses are satisfiable by a history that spills (threshold 2), evicts and reads
    inside the commit window *)
Definition set_sample : list sop :=
  [SNew; SIns 0 0 1; SIns 0 0 2; SIns 0 0 3; SGet 0; SSub 0; SNew; SRem 1 0 2; SCommit; SEvict 0; SGet 0;
   SNotify 0 0; SNew; SIns 2 0 2; SIns 2 0 9; SEvict 0; SGet 0; SSub 1; SCommit; SGet 0; SNotify 1 0; SGet 0].
Example set_sample_ok :
  exists s outs, srun 2 true true sinit set_sample = Some (s, outs) /\ sordered [] set_sample = true /\
                 length outs = 5%nat.
Proof. eexists. eexists. split; [vm_compute; reflexivity|]. split; reflexivity. Qed.
