(** C09 — the per-key staging log of the key→set cache
    (crates/storage/src/key_of_set_map/cache.rs: [ConcurrentLog], [VersionedOperation],
    [get_snapshot]).  Executable definitions only.

    The code keeps the log in a [std::collections::BinaryHeap] ordered by epoch only (a
    max-heap: no [Reverse]) and reads it with [BinaryHeap::iter], i.e. in the order of the
    underlying array.  The array order is reproduced here: [push] = append + [sift_up],
    [pop] = move the last element to the root, [sift_down_to_bottom], [sift_up]; the
    comparisons are those of the standard library ([<=] on the epoch; equal epochs do
    not move). *)
From QV Require Import Common.Prelude.
Open Scope N_scope.

(** one logged operation: epoch of the batch, issue number (ghost in the code as it is;
    used by the repaired overlay), insert/remove, element *)
Record entry := Entry { e_epoch : N; e_seq : N; e_ins : bool; e_elem : N }.
Definition dflt : entry := Entry 0 0 false 0.

Fixpoint upd {A} (l : list A) (i : nat) (a : A) : list A :=
  match l, i with
  | [], _ => []
  | _ :: r, O => a :: r
  | x :: r, S j => x :: upd r j a
  end.
Definition swap (h : list entry) (i j : nat) : list entry :=
  upd (upd h i (nth j h dflt)) j (nth i h dflt).

(** [sift_up(0, pos)] *)
Fixpoint sift_up (fuel : nat) (h : list entry) (pos : nat) : list entry :=
  match fuel with
  | O => h
  | S f =>
      match pos with
      | O => h
      | S _ =>
          let parent := Nat.div (pos - 1) 2 in
          if e_epoch (nth pos h dflt) <=? e_epoch (nth parent h dflt) then h
          else sift_up f (swap h pos parent) parent
      end
  end.
Definition push (h : list entry) (x : entry) : list entry :=
  sift_up (S (length h)) (h ++ [x]) (length h).

(** [sift_down_to_bottom(0)]: the hole goes down along the greater child to the bottom;
    returns the array and the final position *)
Fixpoint sift_down (fuel : nat) (h : list entry) (pos : nat) : list entry * nat :=
  match fuel with
  | O => (h, pos)
  | S f =>
      let child := (2 * pos + 1)%nat in
      if (child + 2 <=? length h)%nat then
        let c := if e_epoch (nth child h dflt) <=? e_epoch (nth (child + 1) h dflt)
                 then (child + 1)%nat else child in
        sift_down f (swap h pos c) c
      else if (child + 1 =? length h)%nat then (swap h pos child, child)
      else (h, pos)
  end.
Definition pop (h : list entry) : list entry :=
  match removelast h with
  | [] => []
  | r => let h1 := upd r 0 (last h dflt) in
         let '(h2, pos) := sift_down (length h1) h1 0 in
         sift_up (S pos) h2 pos
  end.
Definition peek (h : list entry) : option entry := match h with [] => None | x :: _ => Some x end.

(** [ConcurrentLogMessage::FlushUpTo(epoch)]: pop while the root's epoch is <= epoch *)
Fixpoint flush_up_to_f (fuel : nat) (e : N) (h : list entry) : list entry :=
  match fuel with
  | O => h
  | S f =>
      match h with
      | [] => []
      | r :: _ => if e_epoch r <=? e then flush_up_to_f f e (pop h) else h
      end
  end.
Definition flush_up_to (e : N) (h : list entry) : list entry := flush_up_to_f (length h) e h.

(** small sets of elements kept as duplicate-free lists *)
Definition mem (x : N) (l : list N) : bool := existsb (N.eqb x) l.
Definition del (x : N) (l : list N) : list N := filter (fun y => negb (x =? y)) l.
Definition add (x : N) (l : list N) : list N := if mem x l then l else l ++ [x].

(** [get_snapshot] as in the code: one pass over the array, an Insert cancels an earlier
    Remove of the same element and vice versa *)
Fixpoint snap_code (h : list entry) (added removed : list N) : list N * list N :=
  match h with
  | [] => (added, removed)
  | x :: r =>
      let v := e_elem x in
      if e_ins x
      then if mem v removed then snap_code r added (del v removed) else snap_code r (add v added) removed
      else if mem v added then snap_code r (del v added) removed else snap_code r added (add v removed)
  end.

(** repaired overlay: for every element the operation issued last decides
    (last writer wins, by issue number) *)
Fixpoint last_op (v : N) (h : list entry) (best : option entry) : option entry :=
  match h with
  | [] => best
  | x :: r =>
      if e_elem x =? v then
        match best with
        | Some y => if e_seq y <? e_seq x then last_op v r (Some x) else last_op v r best
        | None => last_op v r (Some x)
        end
      else last_op v r best
  end.
Fixpoint elems_of (h : list entry) : list N :=
  match h with [] => [] | x :: r => add (e_elem x) (elems_of r) end.
Definition decides (ins : bool) (h : list entry) (v : N) : bool :=
  match last_op v h None with Some x => Bool.eqb (e_ins x) ins | None => false end.
Definition snap_lww (h : list entry) : list N * list N :=
  (filter (decides true h) (elems_of h), filter (decides false h) (elems_of h)).

Definition snapshot (fix_overlay : bool) (h : list entry) : list N * list N :=
  if fix_overlay then snap_lww h else snap_code h [] [].
