#!/bin/bash
# confirm.sh <id>: demo must fail with the change, pass without; the suite must pass with it
id=$1; wt=/tmp/mut/$id; cd $wt || exit 9
export CARGO_TARGET_DIR=$wt/_target CARGO_NET_OFFLINE=true
git status --short | grep -v "^??" | head -5
# establish: change applied?
if git apply --check -R _mutation/patch.diff 2>/dev/null; then applied=1; else applied=0; fi
echo "applied at start: $applied"
[ $applied = 1 ] || git apply _mutation/patch.diff || exit 8
bash _mutation/run_demo.sh > _mutation/confirm_with.log 2>&1; with=$?
(cargo nextest run --workspace --no-fail-fast --test-threads 8 --offline > _mutation/confirm_suite.log 2>&1); suite=$?
git apply -R _mutation/patch.diff || exit 7
bash _mutation/run_demo.sh > _mutation/confirm_without.log 2>&1; without=$?
echo "RESULT $id demo_with_rc=$with demo_without_rc=$without suite_with_rc=$suite"
grep -E "Summary|FAIL " _mutation/confirm_suite.log | head -8
