#!/usr/bin/env python3
"""engdiff.py <shard.txt> <index>: show where the engine model and the real engine differ on one case"""
import sys, subprocess, re, os
path, idx = sys.argv[1], int(sys.argv[2])
line = [l for l in open(path).read().splitlines() if l.strip()][idx]
v = "/verif/run/eng/diff_case.v"
open(v, "w").write(f"""From QV Require Import Common.Prelude Engine.Model Engine.Check.
Open Scope Z_scope.
Definition c := {line}.
Definition modelres := match c with mkCase p ops real => run_history p init_state ops end.
Definition realres := match c with mkCase p ops real => real end.
Eval vm_compute in (first_diff 0 modelres realres).
Eval vm_compute in (match first_diff 0 modelres realres with Some i => (nth_error modelres (N.to_nat i), nth_error realres (N.to_nat i)) | None => (None, None) end).
""")
out = subprocess.run(["coqc", "-noglob", "-Q", "/verif/coq/theories", "QV", "-o", v + "o", v], capture_output=True, text=True)
print(out.stdout[-3000:], out.stderr[-2000:])
