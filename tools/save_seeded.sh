#!/bin/sh
# usage: tools/save_seeded.sh <worktree id dir under /tmp/mut> <seeded name> "<what I ran / result>"
# copies patch, demo and meta of a confirmed seeded change into /verif/seeded/<name>/
set -e
src=/tmp/mut/$1/_mutation
dst=/verif/seeded/$2
mkdir -p "$dst"
cp "$src/patch.diff" "$dst/patch.diff"
[ -f "$src/demo.rs" ] && cp "$src/demo.rs" "$dst/demo.rs"
[ -f "$src/run_demo.sh" ] && cp "$src/run_demo.sh" "$dst/run_demo.sh"
python3 - "$src/meta.json" "$dst/meta.json" "$3" <<'PY'
import json, sys
m = json.load(open(sys.argv[1]))
m["confirmed_by_coordinator"] = sys.argv[3]
json.dump(m, open(sys.argv[2], "w"), indent=1)
PY
echo saved $dst
