#!/usr/bin/env python3
"""engdiff_state.py <shard.txt> <index>: first op after which model state and real state differ, and the differing nodes"""
import sys, subprocess
path, idx = sys.argv[1], int(sys.argv[2])
line = [l for l in open(path).read().splitlines() if l.strip()][idx]
v = "/verif/run/eng/diff_state.v"
open(v, "w").write(f"""From QV Require Import Common.Prelude Engine.Model Engine.Check.
Open Scope Z_scope.
Definition c := {line}.
Definition P := match c with mkCaseS _ p _ _ _ => p | mkCase p _ _ => p end.
Definition OPS := match c with mkCaseS _ _ o _ _ => o | mkCase _ o _ => o end.
Definition REAL := match c with mkCaseS _ _ _ r _ => r | mkCase _ _ r => r end.
Definition STATES := match c with mkCaseS _ _ _ _ s => s | _ => [] end.
Definition where_ := states_diff true P 0 true init_state OPS REAL STATES.
Fixpoint state_after (s : state) (ops : list op) (k : nat) : state :=
  match k, ops with O, _ => s | S k', o :: r => state_after (fst (step P s o)) r k' | _, [] => s end.
Definition k := match where_ with Some i => N.to_nat i | None => O end.
Definition sm := state_after init_state OPS (S k).
Definition real_k := nth k STATES [].
Eval vm_compute in where_.
Eval vm_compute in (nth_error OPS k).
Eval vm_compute in (filter (fun '(n, d) => negb (ndump_eqb true (model_dump sm n) d)) real_k).
Eval vm_compute in (map (fun '(n, d) => (n, model_dump sm n)) (filter (fun '(n, d) => negb (ndump_eqb true (model_dump sm n) d)) real_k)).
""")
out = subprocess.run(["coqc", "-noglob", "-Q", "/verif/coq/theories", "QV", "-o", v + "o", v], capture_output=True, text=True)
import re
t = (out.stdout + out.stderr)
t = re.sub(r"\{\| nkind := K([A-Za-z]*); nidx := (\d+) \|\}", lambda m: m.group(1)[0] + m.group(2), t)
print(re.sub(r"\s+", " ", t)[:3000])
