#!/usr/bin/env python3
"""Regenerates /verif/MANIFEST.json from the table below (one entry per claimed property)."""
import json, os
V = os.path.dirname(os.path.dirname(os.path.abspath(__file__)))
props = [json.loads(l) for l in open(os.path.join(V, "properties.jsonl"))]

TECH = "machine-checked proof in Coq (Rocq) + differential correspondence check model vs code"
CLAIMS = {
 "C12": dict(
  text="Round trip with exact consumption proved in Coq for every type term of the model's constructor-closed universe and every well-typed value (unbounded sizes and nesting, interned handles with sharing); model tied to the code by byte-exact differential runs over ~115 concrete Rust types plus mutated streams on every run.",
  note="Trusted: Coq kernel; hand-written model Codec/Model.v (tie = correspondence run, bounded by generator quality); 128-bit hash collision freedom on interned contents in play (hypothesis, not axiom); maps/sets as entry lists; Path/BitVec not modelled.",
  tech="machine-checked proof in Coq (induction over the nested type universe, size-indexed session invariant) + differential correspondence check"),
 "C13": dict(
  text="Unique decodability (injectivity + prefix-freeness) of the byte stream fed to the hasher, invariance under every permutation of unordered-collection entries and under pointer wrappers, equality of the 128-bit fingerprint for equal values for every hash function, and stability under the codec's round trip for types without skipped fields, proved in Coq for every type term of a constructor-closed universe; 'equal fingerprints => equal values' proved from the explicit hypothesis H-hash; model tied to the code on every run by exact comparison of recorded StableHasher calls and bytes over 147 concrete Rust types, plus real-hash oracles (construction histories, separate processes, decode-encode, unequal pairs, fingerprint-model replay).",
  note="Trusted: Coq kernel; hand-written Hash/Model.v (tie = correspondence run); H-hash = SipHash-128 collision freedom and injectivity of the wrapping sum of sub-hashes on streams in play (hypothesis, never axiom); mem::discriminant = 8-byte variant index and usize = 8 bytes (checked on this compiler); value identity ignores NaN payloads and distinguishes +-0; the type is not hashed; FlexStr, CStr, BitVec, 32-bit targets not modelled.",
  tech="machine-checked proof in Coq (unique-decodability by induction over the nested type universe) + call- and byte-level differential correspondence + property oracle on the real hasher"),
 "C10": dict(
  text="For every list of batches, every arrival order that is a permutation of creation order and every grouping oracle, the model of the reorder pipeline commits every batch exactly once, in creation order, in groups of consecutive epochs, independent of arrival order, and the folded store equals sequential application; every intermediate log is a prefix cut at batch boundaries; a never-submitted epoch stalls all later ones. Proved in Coq; model tied to the real WriteBehind by multi-threaded differential runs against a logging in-memory KvDatabase.",
  note="Trusted: Coq kernel; hand-written WriteBehind/Model.v (tie = correspondence run); channels, thread joins and Drop ordering of the real pipeline are exercised, not proved (H-atomic).",
  tech="machine-checked proof in Coq (reorder-buffer invariant by induction over arrivals) + differential correspondence with 1-8 submitting threads and 1-4 serializer workers"),
 "C09": dict(
  text="Read-your-writes proved in Coq by refinement to a last-write-wins map for the single-value/multi-type cached map (all op sequences x arbitrary placement of commits, per-key un-pin notifications and evictions of unpinned entries, under 'writes to one key are issued in epoch order', shown necessary) and for the key-to-set map (any spill threshold, staging log modelled as a binary max-heap array) in the variant the tree now implements after the two fix: commits; the pre-fix code is refuted by machine-checked witnesses that are replayed on the real code on every run to decide which variant applies. Fill races (F8 and a set variant) are refuted in the model, reproduced deterministically on the real code and recorded as known findings.",
  note="Trusted: Coq kernel; hand-written models (tie = correspondence run with background steps placed by a gated in-memory database, capacities 1/2/8, real set sizes across 1024); eviction policy abstracted to 'any unpinned entry may vanish' (C16); commit in epoch order taken from C10; intra-call interleavings covered only by the two-step fill model and a stress run (H-atomic).",
  tech="machine-checked proof in Coq (inductive invariant / refinement, vm_compute refutations) + differential correspondence + deterministic witness replay"),
 "C11": dict(
  text="Proved in Coq: the physical key scheme of both backends is injective (both layouts, Fjall's empty-key padding) given prefix-free part codes, which the serializer's codes are (derived from the C12 round-trip theorem); member keys isolate set keys for arbitrary byte strings; the RocksDB scan bound selects exactly the keys with the prefix (the all-0xFF branch proved unreachable); over an ordered byte-map store, point reads, member scans (exact, duplicate-free), batch atomicity and invisibility of uncommitted batches refine a last-write-wins reference for every session. Real RocksDB and Fjall are validated differentially on every run: every read against a reference map and the model, and the raw on-disk keys/values byte for byte against the model, including close+reopen and a concurrent-reader atomicity probe.",
  note="Trusted: Coq kernel; hand-written Kv/Model.v (tie = read results + raw directory dump on both backends); the third-party engines themselves (atomic batch write, bytewise order, prefix extractor/bloom filters, durability across close with WAL off) are H-backend: tested, not proved; column kind assumed a function of column id; keys beyond Fjall's 64 KiB key limit excluded; prefix-freeness inherits the C12 model and its hash hypothesis for interned handles.",
  tech="machine-checked proof in Coq (algebraic injectivity/isolation lemmas + refinement of an ordered byte map to a reference map) + differential validation of RocksDB/Fjall against the model and a reference map"),
 "C16": dict(
  text="Pinned-never-evicted, readable-until-evicted (refinement to a reference map with eviction events), residency bound max_capacity + |Pinned region| + 32, region accounting and totality proved in Coq for all operation sequences, every capacity/strategy, any pin predicate and any frequency sketch. Totality is refuted for the original Policy::unpin (F4, witness replayed on the code on every run) and proved for the repair now committed. Lock-table corollary for pin = 'refcount > 1'. The model is tied to the code on every run by an exact differential (per-op result + evicted set, final resident map; exact sketch with FxHash) over ~10^5 (quick) / ~2*10^6 (thorough) ops. Multi-threaded use and the lock-table pattern are judged by the property oracle only.",
  note="Trusted: Coq kernel; hand-written Lfu/Model.v (single-threaded Piggyback semantics); scc entry_sync exclusivity. The bound uses the Pinned region length (entries wait there until notified or trimmed). The +32 slack is single-threaded only. QueryLockManager is private, so its exact pattern is exercised on TinyLFU directly.",
  tech="machine-checked proof in Coq (invariant by induction over operation sequences, oracle-parametric) + exact differential check of model vs code + property oracle + multi-threaded stress"),
 "C01": dict(
  text="Soundness proved in Coq for the core fragment of the engine model (inputs + Normal queries with data-dependent and conditional dependencies, unchanged writes, reverts, early cut-off, pedantic repair of new dependencies): for every well-formed program, every history and every fuel, every answer equals the from-scratch value under the inputs committed so far; no panic once inputs are set (3200 lines, invariant over the persisted columns). PARTIAL for firewalls, projections, external inputs and unordered groups: the full model Engine/Model.v is tied to the code exactly (answers, SetInputResults, multiset of executions, statistic) and judged by the from-scratch oracle on every run (in-memory and db-backed with cache capacities 1 and 64, restarts, 8-thread runs), but its soundness is not proved.",
  note="Trusted: Coq kernel; hand-written engine models (tie = correspondence on this run's random histories); H-hash (fingerprints = values); parallel tasks inside a request sequentialised in the model; the fuel hypothesis of C01_core_sound (no earlier session ran out of fuel) is a model artefact, shown necessary and dischargeable (session_fuel_enough).",
  tech="machine-checked proof in Coq (state invariant over the persisted columns, induction on fuel over the mutual repair/execute functions) + exact differential correspondence + from-scratch oracle"),
 "C03": dict(
  text="For the core fragment of the engine model: an executor runs at most once per request and per epoch (C03_core_once, for every program) and a re-execution is justified by a dependency of the previous run whose from-scratch value changed (C03_core_justified), proved in Coq for all programs/histories/fuel. PARTIAL for firewalls/projections/external inputs: every executor invocation of the real engine is judged by the harness from its own record of previous reads and compared (multiset per operation) with the full model. One recorded finding (backward projection re-runs a projection after its dependency changed and changed back).",
  note="Trusted: as C01. The judge's notion of 'previous run' is the last completed executor invocation observed by the harness.",
  tech="machine-checked proof in Coq (monotonicity of verification stamps, justification record per execution) + differential correspondence + per-invocation oracle"),
 "C06": dict(
  text="Proved in Coq: the cycle search over the computing graph terminates on every graph for the shape the source has now (read from computing.rs on every run), the previous shape is refuted (and its witness is replayed on the real code: two concurrent roots), and in the engine model a request for a computing query is answered with the cyclic error at once, marking exactly the computing queries in between. That cyclic programs terminate with defaults and follow input edits is validated, not proved: the model with cycles equals the real engine exactly on random cyclic programs without unordered groups; with groups the oracle (progress, no panic, acyclic sub-queries equal from-scratch) judges. Two recorded hangs for cycles through firewalls/projections.",
  note="Trusted: Coq kernel; scanner tools/gen_sources.py (fixed code shape); hand-written engine model; termination of whole programs is by fuel in the model (not a theorem).",
  tech="machine-checked proof in Coq (termination measure = queries not yet in the memo table; source-derived instance) + differential correspondence on cyclic programs + witness replay"),
 "C14": dict(
  text="Structural injectivity of the id expression for all well-formed type terms (C14_structural) with the necessity of its hypothesis refuted-and-replayed (C14_structural_unrestricted_refuted); pairwise distinctness of the model's ids on an explicit universe of 5010 terms of depth <= 3 by kernel computation (C14_universe_distinct); as_u128 faithful; QueryID injective up to the named key-hash hypothesis; model tied to the real constants of 5010 concrete Rust types + 320 run-time cases on every run.",
  note="Uniqueness over all Rust types is not claimed (128-bit hash). Key-hash collision freeness is a Section hypothesis. Known finding block_scoped_twin_ids (derive names block-scoped types identically). Cross-process stability is tested (two processes), not proved; cross-version stability is excluded by design (version is in the name).",
  tech="machine-checked proof in Coq (u64 mask/shift arithmetic proved = mod 2^64; induction over nested terms; vm_compute NoDup decision with soundness lemma) + differential check of real STABLE_TYPE_ID constants + real-id oracle"),
 "C04": dict(
  text="Protocol model of the phase lock (writer: lock / create batch / bump timestamp / stage timestamp, then write and commit or drop; readers: lock / load timestamp, compute with own write batches, drop; arbitrary scheduler, any number of readers). Proved in Coq: every order of these calls accepted by order_ok is safe under every schedule (a tracked engine that was handed out holds the timestamp of exactly the committed sessions, never sees a half-written session; the session batch is younger than every earlier reader batch), every other order has a violating schedule (finite check lifted), and the order the source has NOW (scanned from database/sync.rs on every run) is accepted. The pre-fix order (F6/F9) is one of the refuted ones. PARTIAL: that the futures take exactly these steps and always make progress is validated by stress runs on the real engine, not proved.",
  note="Trusted: Coq kernel; scanner tools/gen_sources.py (fixed code shape); H-atomic (tokio RwLock mutual exclusion, SeqCst atomics); liveness under tokio's scheduler not proved.",
  tech="machine-checked proof in Coq (inductive invariant over arbitrary schedules; finite case analysis over the 48 orders) instantiated by a source-derived order + stress oracle on the real engine"),
 "C05": dict(
  text="Core fragment of the engine model: cancelled work modelled as completed sub-requests with arbitrary caller kind / pedantic flag / frame / computing stack interleaved anywhere in a history; proved in Coq that every later answer is still the from-scratch value, no panic, and nothing is executed twice in an epoch (side condition on the stack shown necessary and satisfied by every real stack). PARTIAL: dropping real futures at real suspension points, executor panics and dropped commit futures are exercised on the real engine (yielding at every query, futures dropped after 0..24 polls) and judged by the from-scratch oracle and a progress timeout, not proved; firewalls/projections only through that oracle.",
  note="Trusted: Coq kernel; hand-written core model; the identification 'cancellation leaves exactly the completed sub-requests behind' (publications are the last action of a sub-request and run in guarded sections) is by reading slow_path.rs/computing.rs/guard.rs, validated by the runs.",
  tech="machine-checked proof in Coq (invariant preserved by requests with arbitrary callers and stacks) + cancellation/panic injection on the real engine judged by the from-scratch oracle"),
 "C07": dict(
  text="Core fragment: a restart resets only volatile fields, the soundness invariant mentions persisted columns only, C01_core_sound therefore covers histories with restarts anywhere, and an answer that was up to date is served again without any execution (C07_core_no_reexecution); full model: which columns a restart keeps. PARTIAL: that the store holds exactly those columns after a clean shutdown is validated by random histories with restarts on the db-backed engine (cache capacities 1/2/64 and more, grouping policies) compared exactly with the model and judged by the oracles; C09/C10/C12 prove the layers underneath separately.",
  note="Trusted: Coq kernel; hand-written models; in-memory KvDatabase implementation of the harness (public traits) instead of RocksDB/Fjall for these runs (C11 validates the real backends separately).",
  tech="machine-checked proof in Coq (invariant over persisted columns; no-re-execution theorem) + differential correspondence with restarts + oracles"),
 "C08": dict(
  text="Store layer: every intermediate commit log is a prefix of the final one at whole-batch boundaries in creation order and folds into the store like sequential application (C10's theorems in the crash reading). Engine layer (core fragment): the state at a batch boundary = completed sub-requests of the request in flight; after restart every answer is the from-scratch value for the inputs in the prefix (C08_core_sound_after_crash). PARTIAL: H-backend, and 'store content = model columns', validated by reopening the real engine on EVERY prefix of the physical commit log of random histories (all query kinds) and judging it with the from-scratch oracle.",
  note="Trusted: Coq kernel; C10's pipeline model; H-backend (atomic physical batch, crash keeps a prefix) holds by construction for the harness store and is NOT crash-tested on RocksDB/Fjall here (no SIGKILL runs).",
  tech="machine-checked proof in Coq (prefix theorems of the reorder pipeline + cancellation theorem with restart) + fault enumeration: reopen at every physical commit boundary"),
}

def entry(pid, c):
    return {
        "property_id": pid,
        "quick_cmd": f"./check {pid} --tier quick",
        "thorough_cmd": f"./check {pid} --tier thorough",
        "evidence_file": f"evidence/{pid}.json",
        "replay_cmd_template": f"./check {pid} --replay {{path}}",
        "engine": "coq",
        "level_claimed": {"category": c.get("cat", "proof"), "text": c["text"], "design_ref": f"DESIGN.md section 4, {pid}"},
        "level_note": c["note"],
        "technique": c.get("tech", TECH),
    }

claimed = sorted(CLAIMS)
m = {
 "version": 1,
 "setup_cmd": "./setup.sh",
 "hooks": {"guard": "verif_hooks", "enable": "cargo feature `verif_hooks` of the qbice crate (off by default; the harness depends on qbice with features = [\"verif_hooks\"]); it only adds qbice::verif_hooks::BackwardEdgeSet, a wrapper around the crate-private tiered backward-edge set (used by check C02); every other check drives the public API",
           "baseline_off_cmd": "cd /repo && (cargo nextest run --workspace --no-fail-fast --test-threads 8 --offline || cargo test --workspace --no-fail-fast --offline)",
           "source_commits": ["fe8d8d6"], "add_only": True},
 "engines": [
  {"name": "coq", "path": "coq", "serves_properties": claimed, "kind_free_text": "Coq 8.16.1 development: hand-written executable models + theorems; Properties/Cxx.v pin the statements"},
  {"name": "harness", "path": "harness", "serves_properties": claimed, "kind_free_text": "Rust correspondence harness with path dependencies into /repo/crates (rebuilt from the working tree on every run)"},
 ],
 "checks": [entry(p, CLAIMS[p]) for p in claimed],
 "not_applicable": [{"property_id": p["id"], "reason": "check not registered yet in this round (being built; see DESIGN.md section 8 for the order of work) - not a claim that the technique cannot apply"} for p in props if p["id"] not in CLAIMS],
 "notes": "Family: machine-checked proof in Rocq/Coq 8.16.1. ./check <id> runs prove + correspond + decide; known_findings.txt lists recorded and repaired defects; see DESIGN.md.",
}
json.dump(m, open(os.path.join(V, "MANIFEST.json"), "w"), indent=1)
print("claimed:", claimed)
