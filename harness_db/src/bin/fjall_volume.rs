//! Volume scenario for the Fjall backend (C11): see `main`.
use std::{
    collections::BTreeSet,
    path::Path,
    time::{Duration, Instant},
};

use qbice_serialize::Plugin;
use qbice_stable_type_id::Identifiable;
use qbice_storage::kv_database::{
    KeyOfSetColumn, KvDatabase, WriteBatch, fjall::Fjall,
};

#[derive(
    Debug, Clone, Copy, PartialEq, Eq, PartialOrd, Ord, Hash, Identifiable,
)]
#[stable_type_id_crate(qbice_stable_type_id)]
struct Tags;

impl KeyOfSetColumn for Tags {
    type Key = u32;
    type Element = String;
}

fn scan(db: &Fjall, key: u32) -> BTreeSet<String> {
    db.scan_members::<Tags>(&key).collect()
}

fn set(items: &[&str]) -> BTreeSet<String> {
    items.iter().map(|x| (*x).to_string()).collect()
}

/// Number of on-disk table files of all partitions of the store.
fn table_files(dir: &Path, inside_tables: bool) -> usize {
    let mut n = 0;
    if let Ok(rd) = std::fs::read_dir(dir) {
        for e in rd.flatten() {
            let p = e.path();
            if p.is_dir() {
                let is_tables = p.file_name().is_some_and(|x| x == "tables");
                n += table_files(&p, inside_tables || is_tables);
            } else if inside_tables {
                n += 1;
            }
        }
    }
    n
}

/// Writes about 70 MiB of unrelated members (under another key of the same
/// column) in ordinary committed batches and waits until the store has turned
/// its full write buffer into an on-disk table.
fn write_filler(db: &Fjall, dir: &Path, filler_key: u32) {
    const ELEMENT_LEN: usize = 60_000;
    const ELEMENTS: usize = 1_250;
    const PER_BATCH: usize = 25;

    let before = table_files(dir, false);

    let mut i = 0;
    while i < ELEMENTS {
        let mut batch = db.write_batch();
        for _ in 0..PER_BATCH {
            let mut element = format!("filler-{filler_key}-{i:08}-");
            while element.len() < ELEMENT_LEN {
                element.push('x');
            }
            batch.insert_member::<Tags>(&filler_key, &element);
            i += 1;
        }
        batch.commit();
    }

    let start = Instant::now();
    while table_files(dir, false) <= before {
        if start.elapsed() > Duration::from_secs(90) { return; }
        std::thread::sleep(Duration::from_millis(50));
    }
    // let the store finish and publish the new table(s)
    let mut last = table_files(dir, false);
    let mut stable_since = Instant::now();
    while stable_since.elapsed() < Duration::from_millis(1_500) {
        std::thread::sleep(Duration::from_millis(50));
        let now = table_files(dir, false);
        if now != last {
            last = now;
            stable_since = Instant::now();
        }
    }
}


/// `fjall_volume <workdir>`: members deleted by committed batches must stay deleted when the column
/// grows beyond one in-memory write buffer of the store (64 MiB) twice - the buffers become on-disk
/// tables in between - and after closing and reopening.  Prints one JSON line.
fn main() {
    let work = std::env::args().nth(1).expect("workdir");
    let dir_buf = std::path::PathBuf::from(work).join("fjall_volume");
    let _ = std::fs::remove_dir_all(&dir_buf);
    std::fs::create_dir_all(&dir_buf).unwrap();
    let dir = dir_buf.as_path();
    let t0 = Instant::now();
    let mut fails: Vec<String> = Vec::new();
    {
        let db = Fjall::open(dir, Plugin::default()).unwrap();
        let mut batch = db.write_batch();
        batch.insert_member::<Tags>(&7, &"keep".to_string());
        batch.insert_member::<Tags>(&7, &"a".to_string());
        batch.insert_member::<Tags>(&8, &"keep".to_string());
        batch.insert_member::<Tags>(&8, &"b".to_string());
        batch.commit();
        write_filler(&db, dir, 1000);
        if scan(&db, 7) != set(&["keep", "a"]) || scan(&db, 8) != set(&["keep", "b"]) { fails.push("members lost after the first flush".into()); }
        let mut batch = db.write_batch(); batch.insert_member::<Tags>(&7, &"a".to_string()); batch.commit();
        let mut batch = db.write_batch(); batch.delete_member::<Tags>(&7, &"a".to_string()); batch.commit();
        let mut batch = db.write_batch(); batch.delete_member::<Tags>(&8, &"b".to_string()); batch.commit();
        let mut batch = db.write_batch(); batch.insert_member::<Tags>(&8, &"b".to_string()); batch.commit();
        let mut batch = db.write_batch(); batch.delete_member::<Tags>(&8, &"b".to_string()); batch.commit();
        if scan(&db, 7) != set(&["keep"]) || scan(&db, 8) != set(&["keep"]) { fails.push("a committed delete is not visible at once".into()); }
        write_filler(&db, dir, 1001);
        if scan(&db, 7) != set(&["keep"]) || scan(&db, 8) != set(&["keep"]) { fails.push(format!("after the second flush (same session): key 7 = {:?}, key 8 = {:?}, expected {{keep}} twice", scan(&db, 7), scan(&db, 8))); }
    }
    let db = Fjall::open(dir, Plugin::default()).unwrap();
    if scan(&db, 7) != set(&["keep"]) || scan(&db, 8) != set(&["keep"]) { fails.push(format!("after reopening: key 7 = {:?}, key 8 = {:?}, expected {{keep}} twice (members deleted by a committed batch are back)", scan(&db, 7), scan(&db, 8))); }
    let (f0, f1) = (scan(&db, 1000).len(), scan(&db, 1001).len());
    if f0 != 1_250 || f1 != 1_250 { fails.push(format!("filler members: {f0} and {f1} of 1250 and 1250 are there after reopening")); }
    drop(db);
    let tables = table_files(dir, false);
    let _ = std::fs::remove_dir_all(&dir_buf);
    println!("{{\"ok\":{},\"bytes_written\":{},\"table_files\":{},\"seconds\":{:.1},\"fails\":{:?}}}", fails.is_empty(), 2 * 1_250 * 60_000u64, tables, t0.elapsed().as_secs_f64(), fails);
}
