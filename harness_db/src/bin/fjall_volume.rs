//! Volume scenario for the Fjall backend (C11): see `main`.
use std::{
    collections::BTreeSet,
    path::Path,
    time::{Duration, Instant},
};

use qbice_serialize::Plugin;
use qbice_stable_type_id::Identifiable;
use qbice_storage::kv_database::{
    KeyOfSetColumn, KvDatabase, WriteBatch, fjall::Fjall, rocksdb::RocksDB,
};

#[derive(
    Debug, Clone, Copy, PartialEq, Eq, PartialOrd, Ord, Hash, Identifiable,
)]
#[stable_type_id_crate(qbice_stable_type_id)]
struct Tags;

impl KeyOfSetColumn for Tags {
    type Key = u32;
    type Element = String;
}

fn scan<D: KvDatabase>(db: &D, key: u32) -> BTreeSet<String> {
    db.scan_members::<Tags>(&key).collect()
}

fn set(items: &[&str]) -> BTreeSet<String> {
    items.iter().map(|x| (*x).to_string()).collect()
}

/// Number of on-disk table files of all partitions of the store.
fn table_files(dir: &Path, inside_tables: bool) -> usize {
    let mut n = 0;
    if let Ok(rd) = std::fs::read_dir(dir) {
        for e in rd.flatten() {
            let p = e.path();
            if p.is_dir() {
                let is_tables = p.file_name().is_some_and(|x| x == "tables");
                n += table_files(&p, inside_tables || is_tables);
            } else if inside_tables || p.extension().is_some_and(|x| x == "sst") {
                n += 1;
            }
        }
    }
    n
}

/// Writes about 70 MiB of unrelated members (under another key of the same
/// column) in ordinary committed batches and waits until the store has turned
/// its full write buffer into an on-disk table.
fn write_filler<D: KvDatabase>(db: &D, dir: &Path, filler_key: u32) {
    const ELEMENT_LEN: usize = 60_000;
    const ELEMENTS: usize = 1_250;
    const PER_BATCH: usize = 25;

    let before = table_files(dir, false);

    let mut i = 0;
    while i < ELEMENTS {
        let mut batch = db.write_batch();
        for _ in 0..PER_BATCH {
            let mut element = format!("filler-{filler_key}-{i:08}-");
            while element.len() < ELEMENT_LEN {
                element.push('x');
            }
            batch.insert_member::<Tags>(&filler_key, &element);
            i += 1;
        }
        batch.commit();
    }

    let start = Instant::now();
    while table_files(dir, false) <= before {
        if start.elapsed() > Duration::from_secs(90) { return; }
        std::thread::sleep(Duration::from_millis(50));
    }
    // let the store finish and publish the new table(s)
    let mut last = table_files(dir, false);
    let mut stable_since = Instant::now();
    while stable_since.elapsed() < Duration::from_millis(1_500) {
        std::thread::sleep(Duration::from_millis(50));
        let now = table_files(dir, false);
        if now != last {
            last = now;
            stable_since = Instant::now();
        }
    }
}


/// `fjall_volume <workdir>`: members deleted by committed batches must stay deleted when the column
/// grows beyond one in-memory write buffer of the store (64 MiB) twice - the buffers become on-disk
/// tables in between - and after closing and reopening.  Run on both shipped backends; prints one
/// JSON line.
fn scenario<D: KvDatabase>(name: &str, open: &dyn Fn(&Path) -> D, dir: &Path, fails: &mut Vec<String>) -> usize {
    {
        let db = open(dir);
        let mut batch = db.write_batch();
        batch.insert_member::<Tags>(&7, &"keep".to_string());
        batch.insert_member::<Tags>(&7, &"a".to_string());
        batch.insert_member::<Tags>(&8, &"keep".to_string());
        batch.insert_member::<Tags>(&8, &"b".to_string());
        batch.commit();
        write_filler(&db, dir, 1000);
        if scan(&db, 7) != set(&["keep", "a"]) || scan(&db, 8) != set(&["keep", "b"]) { fails.push(format!("{name}: members lost after the first flush")); }
        let mut batch = db.write_batch(); batch.insert_member::<Tags>(&7, &"a".to_string()); batch.commit();
        let mut batch = db.write_batch(); batch.delete_member::<Tags>(&7, &"a".to_string()); batch.commit();
        let mut batch = db.write_batch(); batch.delete_member::<Tags>(&8, &"b".to_string()); batch.commit();
        let mut batch = db.write_batch(); batch.insert_member::<Tags>(&8, &"b".to_string()); batch.commit();
        let mut batch = db.write_batch(); batch.delete_member::<Tags>(&8, &"b".to_string()); batch.commit();
        if scan(&db, 7) != set(&["keep"]) || scan(&db, 8) != set(&["keep"]) { fails.push(format!("{name}: a committed delete is not visible at once")); }
        write_filler(&db, dir, 1001);
        if scan(&db, 7) != set(&["keep"]) || scan(&db, 8) != set(&["keep"]) { fails.push(format!("{name}: after the second flush (same session): key 7 = {:?}, key 8 = {:?}, expected {{keep}} twice", scan(&db, 7), scan(&db, 8))); }
    }
    let db = open(dir);
    if scan(&db, 7) != set(&["keep"]) || scan(&db, 8) != set(&["keep"]) { fails.push(format!("{name}: after reopening: key 7 = {:?}, key 8 = {:?}, expected {{keep}} twice (members deleted by a committed batch are back)", scan(&db, 7), scan(&db, 8))); }
    let (f0, f1) = (scan(&db, 1000).len(), scan(&db, 1001).len());
    if f0 != 1_250 || f1 != 1_250 { fails.push(format!("{name}: filler members: {f0} and {f1} of 1250 and 1250 are there after reopening")); }
    drop(db);
    table_files(dir, false)
}

fn main() {
    let work = std::env::args().nth(1).expect("workdir");
    let t0 = Instant::now();
    let mut fails: Vec<String> = Vec::new();
    let mut tables = Vec::new();
    for name in ["fjall", "rocksdb"] {
        let dir_buf = std::path::PathBuf::from(&work).join(format!("{name}_volume"));
        let _ = std::fs::remove_dir_all(&dir_buf);
        std::fs::create_dir_all(&dir_buf).unwrap();
        let n = if name == "fjall" {
            scenario(name, &|d: &Path| Fjall::open(d, Plugin::default()).unwrap(), &dir_buf, &mut fails)
        } else {
            scenario(name, &|d: &Path| RocksDB::open(d, Plugin::default()).unwrap(), &dir_buf, &mut fails)
        };
        tables.push(n);
        let _ = std::fs::remove_dir_all(&dir_buf);
    }
    println!("{{\"ok\":{},\"bytes_written_per_backend\":{},\"table_files\":{:?},\"seconds\":{:.1},\"fails\":{:?}}}", fails.is_empty(), 2 * 1_250 * 60_000u64, tables, t0.elapsed().as_secs_f64(), fails);
}
