//! C11 correspondence: drive the two shipped store backends (RocksDB, Fjall) through the
//! public `KvDatabase` API with random histories of put / delete / insert-member /
//! delete-member batches over ten columns (two or three value types per wide column),
//! interleaved with reads (before commit, after commit, after close + reopen), and
//!   * judge every read against a plain reference map (the property's own oracle),
//!   * emit the history with the observed read results as a Coq term `Hist backend steps
//!     dump` for `Kv/Check.v`, where `dump` is the raw physical content (column family /
//!     keyspace name, key bytes, value bytes) read back from the closed directory with
//!     the store's own crate, so that the model's physical keys are compared byte for
//!     byte with what the backend wrote;
//!   * run a concurrent reader against alternating whole-set batches (a scan must see
//!     one generation or the other, never a mixture).
//!
//! usage: kvdb run <out_dir> <work_dir> <seed> <histories_per_backend> <shards> <atomic_rounds>
//!        kvdb one <work_dir> <backend> <history_seed>
use std::{
    collections::{BTreeMap, BTreeSet},
    path::{Path, PathBuf},
    sync::{Arc, atomic::{AtomicBool, Ordering}},
    time::Instant,
};

use qbice_serialize::{Decode, Encode, Plugin, postcard};
use qbice_stable_type_id::Identifiable;
use qbice_storage::kv_database::{
    DiscriminantEncoding, KeyOfSetColumn, KvDatabase, SerializationBuffer, WideColumn, WideColumnValue,
    WriteBatch, fjall::Fjall, rocksdb::RocksDB,
};

// ------------------------------------------------------------------ prng + printing
#[derive(Clone)]
struct Rng(u64);
impl Rng {
    fn new(seed: u64) -> Self { Rng(seed ^ 0x9E37_79B9_7F4A_7C15) }
    fn next(&mut self) -> u64 {
        self.0 = self.0.wrapping_add(0x9E37_79B9_7F4A_7C15);
        let mut z = self.0;
        z = (z ^ (z >> 30)).wrapping_mul(0xBF58_476D_1CE4_E5B9);
        z = (z ^ (z >> 27)).wrapping_mul(0x94D0_49BB_1331_11EB);
        z ^ (z >> 31)
    }
    fn below(&mut self, n: u64) -> u64 { if n == 0 { 0 } else { self.next() % n } }
    fn range(&mut self, lo: u64, hi: u64) -> u64 { lo + self.below(hi - lo + 1) }
    fn chance(&mut self, num: u64, den: u64) -> bool { self.below(den) < num }
    fn pick<'a, T>(&mut self, xs: &'a [T]) -> &'a T { &xs[self.below(xs.len() as u64) as usize] }
}
/// Coq term for a byte string; runs of 8 or more equal bytes are written `rp n b`
/// (Kv/Check.v: `rp n b = repeat b n`) so that multi-kilobyte keys stay cheap to parse
fn coq_bytes(bs: &[u8]) -> String {
    let mut parts: Vec<String> = Vec::new();
    let mut lit: Vec<String> = Vec::new();
    let mut i = 0;
    while i < bs.len() {
        let mut j = i;
        while j < bs.len() && bs[j] == bs[i] { j += 1; }
        if j - i >= 8 {
            if !lit.is_empty() { parts.push(format!("[{}]", lit.join(";"))); lit.clear(); }
            parts.push(format!("rp {} {}", j - i, bs[i]));
        } else {
            for b in &bs[i..j] { lit.push(b.to_string()); }
        }
        i = j;
    }
    if !lit.is_empty() || parts.is_empty() { parts.push(format!("[{}]", lit.join(";"))); }
    if parts.len() == 1 && parts[0].starts_with('[') { parts.pop().unwrap() } else { format!("({})", parts.join(" ++ ")) }
}
fn enc<T: Encode>(v: &T) -> Vec<u8> { postcard::encode(v, &Plugin::default()).expect("encode") }

// ------------------------------------------------------------------ columns
macro_rules! ident {
    ($($n:ident),*) => { $(
        #[derive(Debug, Clone, Copy, PartialEq, Eq, Hash, Identifiable)]
        #[stable_type_id_crate(qbice_stable_type_id)]
        pub struct $n;
    )* };
}
ident!(WA, WB, WC, WU, WE, WS, SA, SB, SU, SV);
macro_rules! wide { ($w:ident, $k:ty, $d:ty, $l:ident) => {
    impl WideColumn for $w { type Discriminant = $d; type Key = $k; fn discriminant_encoding() -> DiscriminantEncoding { DiscriminantEncoding::$l } }
}; }
wide!(WA, Vec<u8>, u8, Prefixed);
wide!(WB, Vec<u8>, u16, Suffixed);
wide!(WC, (Vec<u8>, Vec<u8>), bool, Suffixed);
wide!(WU, (), u8, Prefixed);
wide!(WE, (), (), Prefixed);
wide!(WS, (), u8, Suffixed);
impl KeyOfSetColumn for SA { type Key = Vec<u8>; type Element = Vec<u8>; }
impl KeyOfSetColumn for SB { type Key = (Vec<u8>, Vec<u8>); type Element = (u8, Vec<u8>); }
impl KeyOfSetColumn for SU { type Key = (); type Element = (); }
impl KeyOfSetColumn for SV { type Key = Vec<u8>; type Element = (); }

macro_rules! value { ($v:ident, $w:ident, $d:expr) => {
    #[derive(Debug, Clone, PartialEq, Eq, Encode, Decode)]
    #[serialize_crate(qbice_serialize)]
    pub struct $v(Vec<u8>);
    impl WideColumnValue<$w> for $v { fn discriminant() -> <$w as WideColumn>::Discriminant { $d } }
    impl FromV for $v { fn from_v(v: Vec<u8>) -> Self { $v(v) } }
}; }
trait FromV { fn from_v(v: Vec<u8>) -> Self; }
value!(A0, WA, 0);
value!(A1, WA, 1);
value!(A2, WA, 255);
value!(B0, WB, 127);
value!(B1, WB, 128);     // two-byte varint 0x80 0x01: discriminants of different length
value!(B2, WB, 16384);   // three bytes
value!(C0, WC, false);
value!(C1, WC, true);
value!(U0, WU, 0);
value!(U1, WU, 7);
value!(S0, WS, 0);
value!(S1, WS, 200);
/// a value with an empty encoding, in the column whose key and discriminant are empty too
#[derive(Debug, Clone, PartialEq, Eq, Encode, Decode)]
#[serialize_crate(qbice_serialize)]
pub struct E0;
impl WideColumnValue<WE> for E0 { fn discriminant() {} }
impl FromV for E0 { fn from_v(_: Vec<u8>) -> Self { E0 } }

/// logical keys / elements before typing
#[derive(Clone, Debug, PartialEq, Eq, PartialOrd, Ord)]
enum K { B(Vec<u8>), P(Vec<u8>, Vec<u8>), U }
#[derive(Clone, Debug, PartialEq, Eq, PartialOrd, Ord)]
enum El { B(Vec<u8>), T(u8, Vec<u8>), U }
trait FromK { fn from_k(k: &K) -> Self; }
impl FromK for Vec<u8> { fn from_k(k: &K) -> Self { match k { K::B(b) => b.clone(), _ => panic!("key kind") } } }
impl FromK for (Vec<u8>, Vec<u8>) { fn from_k(k: &K) -> Self { match k { K::P(a, b) => (a.clone(), b.clone()), _ => panic!("key kind") } } }
impl FromK for () { fn from_k(_: &K) -> Self {} }
trait FromE { fn from_e(e: &El) -> Self; }
impl FromE for Vec<u8> { fn from_e(e: &El) -> Self { match e { El::B(b) => b.clone(), _ => panic!("elem kind") } } }
impl FromE for (u8, Vec<u8>) { fn from_e(e: &El) -> Self { match e { El::T(a, b) => (*a, b.clone()), _ => panic!("elem kind") } } }
impl FromE for () { fn from_e(_: &El) -> Self {} }

/// static description of the columns: (key kind, number of value types, layout name)
const WIDE: &[(u8, usize, &str)] = &[(0, 3, "Prefixed"), (0, 3, "Suffixed"), (1, 2, "Suffixed"), (2, 2, "Prefixed"), (2, 1, "Prefixed"), (2, 2, "Suffixed")];
/// (key kind, element kind)
const SETS: &[(u8, u8)] = &[(0, 0), (1, 1), (2, 2), (0, 2)];

macro_rules! wide_dispatch {
    ($c:expr, $v:expr, $f:ident ( $($a:expr),* )) => {
        match ($c, $v) {
            (0, 0) => $f::<_, WA, A0>($($a),*), (0, 1) => $f::<_, WA, A1>($($a),*), (0, 2) => $f::<_, WA, A2>($($a),*),
            (1, 0) => $f::<_, WB, B0>($($a),*), (1, 1) => $f::<_, WB, B1>($($a),*), (1, 2) => $f::<_, WB, B2>($($a),*),
            (2, 0) => $f::<_, WC, C0>($($a),*), (2, 1) => $f::<_, WC, C1>($($a),*),
            (3, 0) => $f::<_, WU, U0>($($a),*), (3, 1) => $f::<_, WU, U1>($($a),*),
            (4, 0) => $f::<_, WE, E0>($($a),*),
            (5, 0) => $f::<_, WS, S0>($($a),*), (5, 1) => $f::<_, WS, S1>($($a),*),
            _ => panic!("no such wide cell type"),
        }
    };
}
macro_rules! set_dispatch {
    ($s:expr, $f:ident ( $($a:expr),* )) => {
        match $s { 0 => $f::<_, SA>($($a),*), 1 => $f::<_, SB>($($a),*), 2 => $f::<_, SU>($($a),*), 3 => $f::<_, SV>($($a),*), _ => panic!("no such set column") }
    };
}

/// where a staged operation goes: straight into the physical batch, or into a
/// serialization buffer that is consumed at commit time (the write-behind path)
enum Tgt<'a, Db: KvDatabase> { Batch(&'a mut Db::WriteBatch), Buf(&'a mut Db::SerializationBuffer) }

fn w_put<Db: KvDatabase, W: WideColumn, V: WideColumnValue<W> + FromV>(t: Tgt<'_, Db>, key: &K, val: &[u8]) where W::Key: FromK {
    let (k, v) = (W::Key::from_k(key), V::from_v(val.to_vec()));
    match t { Tgt::Batch(b) => b.put::<W, V>(&k, &v), Tgt::Buf(b) => b.put::<W, V>(&k, &v) }
}
fn w_del<Db: KvDatabase, W: WideColumn, V: WideColumnValue<W> + FromV>(t: Tgt<'_, Db>, key: &K) where W::Key: FromK {
    let k = W::Key::from_k(key);
    match t { Tgt::Batch(b) => b.delete::<W, V>(&k), Tgt::Buf(b) => b.delete::<W, V>(&k) }
}
fn w_get<Db: KvDatabase, W: WideColumn, V: WideColumnValue<W> + FromV>(db: &Db, key: &K) -> Option<Vec<u8>> where W::Key: FromK {
    db.get_wide_column::<W, V>(&W::Key::from_k(key)).map(|v| enc(&v))
}
/// (discriminant bytes, key bytes, value bytes) as the serializer produces them
fn w_parts<Db, W: WideColumn, V: WideColumnValue<W> + FromV>(key: &K, val: &[u8], _: std::marker::PhantomData<Db>) -> (Vec<u8>, Vec<u8>, Vec<u8>) where W::Key: FromK {
    (enc(&V::discriminant()), enc(&W::Key::from_k(key)), enc(&V::from_v(val.to_vec())))
}
fn s_ins<Db: KvDatabase, S: KeyOfSetColumn>(t: Tgt<'_, Db>, key: &K, e: &El) where S::Key: FromK, S::Element: FromE {
    let (k, e) = (S::Key::from_k(key), S::Element::from_e(e));
    match t { Tgt::Batch(b) => b.insert_member::<S>(&k, &e), Tgt::Buf(b) => b.insert_member::<S>(&k, &e) }
}
fn s_rem<Db: KvDatabase, S: KeyOfSetColumn>(t: Tgt<'_, Db>, key: &K, e: &El) where S::Key: FromK, S::Element: FromE {
    let (k, e) = (S::Key::from_k(key), S::Element::from_e(e));
    match t { Tgt::Batch(b) => b.delete_member::<S>(&k, &e), Tgt::Buf(b) => b.delete_member::<S>(&k, &e) }
}
fn s_scan<Db: KvDatabase, S: KeyOfSetColumn>(db: &Db, key: &K) -> Vec<Vec<u8>> where S::Key: FromK {
    db.scan_members::<S>(&S::Key::from_k(key)).map(|e| enc(&e)).collect()
}
fn s_parts<Db, S: KeyOfSetColumn>(key: &K, e: &El, _: std::marker::PhantomData<Db>) -> (Vec<u8>, Vec<u8>) where S::Key: FromK, S::Element: FromE {
    (enc(&S::Key::from_k(key)), enc(&S::Element::from_e(e)))
}
fn s_id<Db, S: KeyOfSetColumn>(_: std::marker::PhantomData<Db>) -> u128 { S::STABLE_TYPE_ID.as_u128() }
fn w_id<Db, W: WideColumn, V: WideColumnValue<W> + FromV>(_: std::marker::PhantomData<Db>) -> u128 { W::STABLE_TYPE_ID.as_u128() }

// ------------------------------------------------------------------ histories
#[derive(Clone, Debug)]
enum LOp {
    Put { c: usize, v: usize, key: K, val: Vec<u8> },
    Del { c: usize, v: usize, key: K },
    Ins { s: usize, key: K, e: El },
    Rem { s: usize, key: K, e: El },
}
#[derive(Clone, Debug)]
enum Step {
    Stage(usize, LOp),
    Commit(usize),
    Discard(usize),
    Reopen,
    Get { c: usize, v: usize, key: K },
    Scan { s: usize, key: K },
}

fn gen_bytes(r: &mut Rng, pool: &[Vec<u8>], big: bool) -> Vec<u8> {
    match r.below(12) {
        0..=5 => r.pick(pool).clone(),
        6 => { let mut b = r.pick(pool).clone(); b.push(*r.pick(&[0u8, 1, 0xFF])); b }          // extension of a pool key
        7 => { let mut b = r.pick(pool).clone(); b.pop(); b }                                    // prefix of a pool key
        8 => vec![0xFF; r.range(1, 12) as usize],
        9 => (0..r.range(0, 6)).map(|_| *r.pick(&[0u8, 1, 0x7F, 0x80, 0xFE, 0xFF])).collect(),
        10 if big => { let n = r.range(1500, 6000) as usize; let f = *r.pick(&[0xFFu8, 0, 0xAB]); (0..n).map(|i| if i % 97 == 96 { (r.next() & 0xFF) as u8 } else { f }).collect() }
        _ => { // looks like a length prefix followed by bytes: aims at the member-key layout
            let mut b = (r.range(0, 3)).to_le_bytes().to_vec(); b.extend_from_slice(&r.pick(pool).clone()); b }
    }
}
fn gen_key(r: &mut Rng, kind: u8, pool: &[Vec<u8>]) -> K {
    match kind {
        0 => K::B(gen_bytes(r, pool, true)),
        1 => {
            // nested tuple keys; ([1],[2,3]) vs ([1,2],[3]) and friends come from the shared pool
            let big = r.chance(1, 8);
            K::P(gen_bytes(r, pool, false), gen_bytes(r, pool, big))
        }
        _ => K::U,
    }
}
fn gen_elem(r: &mut Rng, kind: u8, pool: &[Vec<u8>]) -> El {
    match kind { 0 => El::B(gen_bytes(r, pool, true)), 1 => El::T(*r.pick(&[0u8, 1, 0xFF]), gen_bytes(r, pool, false)), _ => El::U }
}
fn gen_history(seed: u64, steps: usize) -> Vec<Step> {
    let mut r = Rng::new(seed);
    // a small pool of prefix-related byte strings shared by keys, elements and values
    let mut pool: Vec<Vec<u8>> = vec![vec![], vec![0], vec![1], vec![1, 2], vec![1, 2, 3], vec![2, 3], vec![3], vec![0xFF], vec![0xFF, 0xFF], vec![0xFF, 0], vec![0, 0xFF]];
    for _ in 0..3 { let n = r.range(1, 9) as usize; pool.push((0..n).map(|_| (r.next() & 0xFF) as u8).collect()); }
    // neighbours across the scan bound: base ++ [b, 0xFF..] and its successor base ++ [b+1, x..] (same length)
    for _ in 0..2 {
        let mut base: Vec<u8> = (0..r.range(0, 2)).map(|_| (r.next() & 0xFF) as u8).collect();
        let b = r.below(255) as u8;
        let tail = r.range(1, 3) as usize;
        let mut k1 = base.clone(); k1.push(b); k1.extend(std::iter::repeat(0xFF).take(tail));
        base.push(b + 1); base.extend((0..tail).map(|_| (r.next() & 0xFF) as u8));
        pool.push(k1); pool.push(base);
    }
    let mut out = Vec::new();
    let mut touched_w: Vec<(usize, K)> = Vec::new();
    let mut touched_s: Vec<(usize, K)> = Vec::new();
    let mut staged = [0usize; 3];
    let reads = |r: &mut Rng, out: &mut Vec<Step>, tw: &Vec<(usize, K)>, ts: &Vec<(usize, K)>, pool: &Vec<Vec<u8>>, n: usize| {
        for _ in 0..n {
            if r.chance(1, 2) {
                let (c, key) = if !tw.is_empty() && r.chance(4, 5) { r.pick(tw).clone() } else { let c = r.below(WIDE.len() as u64) as usize; (c, gen_key(r, WIDE[c].0, pool)) };
                // every value type of the cell: "different value types under one key"
                for v in 0..WIDE[c].1 { out.push(Step::Get { c, v, key: key.clone() }); }
            } else {
                let (s, key) = if !ts.is_empty() && r.chance(4, 5) { r.pick(ts).clone() } else { let s = r.below(SETS.len() as u64) as usize; (s, gen_key(r, SETS[s].0, pool)) };
                out.push(Step::Scan { s, key });
            }
        }
    };
    if r.chance(1, 2) {
        // directed opening: members under keys that are neighbours across the scan bound,
        // prefixes and extensions of one another, in one set column; then scan each
        let s = *r.pick(&[0usize, 3, 1]);
        let n = pool.len();
        let mut keys: Vec<K> = Vec::new();
        for j in (n - 4)..n { keys.push(match SETS[s].0 { 0 => K::B(pool[j].clone()), _ => K::P(pool[j].clone(), pool[(j + 1) % n].clone()) }); }
        for j in [1usize, 3, 4, 7] { keys.push(match SETS[s].0 { 0 => K::B(pool[j].clone()), _ => K::P(pool[j].clone(), pool[j - 1].clone()) }); }
        for key in &keys {
            for _ in 0..r.range(1, 3) {
                let e = gen_elem(&mut r, SETS[s].1, &pool);
                out.push(Step::Stage(2, LOp::Ins { s, key: key.clone(), e }));
                touched_s.push((s, key.clone()));
            }
        }
        out.push(Step::Commit(2));
        for key in &keys { out.push(Step::Scan { s, key: key.clone() }); }
    }
    while out.len() < steps {
        match r.below(20) {
            0..=11 => {
                let i = r.below(3) as usize;
                let op = if r.chance(1, 2) {
                    let (c, key) = if !touched_w.is_empty() && r.chance(1, 2) { r.pick(&touched_w).clone() } else { let c = r.below(WIDE.len() as u64) as usize; (c, gen_key(&mut r, WIDE[c].0, &pool)) };
                    let v = r.below(WIDE[c].1 as u64) as usize;
                    touched_w.push((c, key.clone()));
                    if r.chance(3, 4) { LOp::Put { c, v, key, val: gen_bytes(&mut r, &pool, true) } } else { LOp::Del { c, v, key } }
                } else {
                    let (s, key) = if !touched_s.is_empty() && r.chance(2, 3) { r.pick(&touched_s).clone() } else { let s = r.below(SETS.len() as u64) as usize; (s, gen_key(&mut r, SETS[s].0, &pool)) };
                    let e = gen_elem(&mut r, SETS[s].1, &pool);
                    touched_s.push((s, key.clone()));
                    if r.chance(3, 4) { LOp::Ins { s, key, e } } else { LOp::Rem { s, key, e } }
                };
                staged[i] += 1;
                out.push(Step::Stage(i, op));
            }
            12..=14 => {
                let i = r.below(3) as usize;
                // read what is staged but not committed (must be invisible), commit, read again
                reads(&mut r, &mut out, &touched_w, &touched_s, &pool, 2);
                out.push(Step::Commit(i));
                staged[i] = 0;
                reads(&mut r, &mut out, &touched_w, &touched_s, &pool, 3);
            }
            15 => { let i = r.below(3) as usize; out.push(Step::Discard(i)); staged[i] = 0; }
            16 => { out.push(Step::Reopen); staged = [0; 3]; reads(&mut r, &mut out, &touched_w, &touched_s, &pool, 4); }
            _ => reads(&mut r, &mut out, &touched_w, &touched_s, &pool, 2),
        }
    }
    // final: commit something, reopen, read everything touched
    out.push(Step::Commit(0));
    out.push(Step::Reopen);
    let mut tw = touched_w.clone(); tw.sort(); tw.dedup();
    let mut ts = touched_s.clone(); ts.sort(); ts.dedup();
    for (c, key) in tw { for v in 0..WIDE[c].1 { out.push(Step::Get { c, v, key: key.clone() }); } }
    for (s, key) in ts { out.push(Step::Scan { s, key }); }
    out
}

// ------------------------------------------------------------------ running a history
#[derive(Default)]
struct Reference {
    wide: BTreeMap<(usize, Vec<u8>, Vec<u8>), Vec<u8>>, // (column, discriminant bytes, key bytes) -> value bytes
    sets: BTreeMap<(usize, Vec<u8>), BTreeSet<Vec<u8>>>,
}
struct Pending<Db: KvDatabase> { batch: Db::WriteBatch, bufs: Vec<Db::SerializationBuffer>, ops: Vec<LOp>, via_buf: bool }

#[derive(Default)]
struct HistStats { stages: u64, commits: u64, reopens: u64, gets: u64, gets_some: u64, scans: u64, scans_nonempty: u64, members_seen: u64, reads_with_uncommitted: u64, big_parts: u64, empty_key_cells: u64, via_buf_batches: u64, max_key_len: usize }

struct RunOut { coq_steps: Vec<String>, fails: Vec<String>, stats: HistStats }

fn lop_parts<Db: KvDatabase>(op: &LOp) -> (Vec<u8>, Vec<u8>, Vec<u8>) {
    let ph = std::marker::PhantomData::<Db>;
    match op {
        LOp::Put { c, v, key, val } => wide_dispatch!(*c, *v, w_parts(key, val, ph)),
        LOp::Del { c, v, key } => wide_dispatch!(*c, *v, w_parts(key, &[], ph)),
        LOp::Ins { s, key, e } | LOp::Rem { s, key, e } => { let (k, e) = set_dispatch!(*s, s_parts(key, e, ph)); (Vec::new(), k, e) }
    }
}
fn coq_lop<Db: KvDatabase>(op: &LOp) -> String {
    let (d, k, x) = lop_parts::<Db>(op);
    match op {
        LOp::Put { c, .. } => format!("LPut (W {c} {}) {} {} {}", WIDE[*c].2, coq_bytes(&d), coq_bytes(&k), coq_bytes(&x)),
        LOp::Del { c, .. } => format!("LDel (W {c} {}) {} {}", WIDE[*c].2, coq_bytes(&d), coq_bytes(&k)),
        LOp::Ins { s, .. } => format!("LIns {s} {} {}", coq_bytes(&k), coq_bytes(&x)),
        LOp::Rem { s, .. } => format!("LRem {s} {} {}", coq_bytes(&k), coq_bytes(&x)),
    }
}

fn run_history<Db: KvDatabase>(open: &dyn Fn() -> Db, steps: &[Step], seed: u64) -> RunOut {
    let mut r = Rng::new(seed ^ 0xABCD);
    let mut db = Some(open());
    let mut reference = Reference::default();
    let mut pend: BTreeMap<usize, Pending<Db>> = BTreeMap::new();
    let mut out = RunOut { coq_steps: Vec::new(), fails: Vec::new(), stats: HistStats::default() };
    let ph = std::marker::PhantomData::<Db>;
    for (n, st) in steps.iter().enumerate() {
        let d = db.as_ref().unwrap();
        match st {
            Step::Stage(i, op) => {
                let p = pend.entry(*i).or_insert_with(|| Pending { batch: d.write_batch(), bufs: Vec::new(), ops: Vec::new(), via_buf: r.chance(1, 2) });
                let tgt = if p.via_buf {
                    if p.bufs.is_empty() || r.chance(1, 4) { p.bufs.push(d.serialization_buffer()); }
                    Tgt::<Db>::Buf(p.bufs.last_mut().unwrap())
                } else { Tgt::<Db>::Batch(&mut p.batch) };
                match op {
                    LOp::Put { c, v, key, val } => wide_dispatch!(*c, *v, w_put(tgt, key, val)),
                    LOp::Del { c, v, key } => wide_dispatch!(*c, *v, w_del(tgt, key)),
                    LOp::Ins { s, key, e } => set_dispatch!(*s, s_ins(tgt, key, e)),
                    LOp::Rem { s, key, e } => set_dispatch!(*s, s_rem(tgt, key, e)),
                }
                p.ops.push(op.clone());
                let (dd, k, x) = lop_parts::<Db>(op);
                out.stats.stages += 1;
                if k.len() > 1000 || x.len() > 1000 { out.stats.big_parts += 1; }
                if k.is_empty() { out.stats.empty_key_cells += 1; }
                out.stats.max_key_len = out.stats.max_key_len.max(dd.len() + k.len() + x.len() + 8);
                out.coq_steps.push(format!("S (Stage {i} ({}))", coq_lop::<Db>(op)));
            }
            Step::Commit(i) => {
                if let Some(mut p) = pend.remove(i) {
                    if p.via_buf { out.stats.via_buf_batches += 1; }
                    for b in p.bufs.drain(..) { p.batch.consume_serialization_buffer(b); }
                    p.batch.commit();
                    for op in &p.ops {
                        let (dd, k, x) = lop_parts::<Db>(op);
                        match op {
                            LOp::Put { c, .. } => { reference.wide.insert((*c, dd, k), x); }
                            LOp::Del { c, .. } => { reference.wide.remove(&(*c, dd, k)); }
                            LOp::Ins { s, .. } => { reference.sets.entry((*s, k)).or_default().insert(x); }
                            LOp::Rem { s, .. } => { if let Some(m) = reference.sets.get_mut(&(*s, k)) { m.remove(&x); } }
                        }
                    }
                }
                out.stats.commits += 1;
                out.coq_steps.push(format!("S (Commit {i})"));
            }
            Step::Discard(i) => { pend.remove(i); out.coq_steps.push(format!("S (Discard {i})")); }
            Step::Reopen => {
                pend.clear();           // batches hold a handle on the store
                drop(db.take());
                db = Some(open());
                out.stats.reopens += 1;
                out.coq_steps.push("S Reopen".into());
            }
            Step::Get { c, v, key } => {
                let got = wide_dispatch!(*c, *v, w_get(d, key));
                let (dd, k, _) = wide_dispatch!(*c, *v, w_parts(key, &[], ph));
                let want = reference.wide.get(&(*c, dd.clone(), k.clone())).cloned();
                out.stats.gets += 1;
                if got.is_some() { out.stats.gets_some += 1; }
                if pend.values().any(|p| !p.ops.is_empty()) { out.stats.reads_with_uncommitted += 1; }
                if got != want && out.fails.len() < 4 {
                    out.fails.push(format!("step {n}: get column {c} value type {v} key {:?}: store returned {:?}, reference {:?}", key, got.as_ref().map(|b| coq_bytes(b)), want.as_ref().map(|b| coq_bytes(b))));
                }
                let res = match &got { Some(b) => format!("(Some {})", coq_bytes(b)), None => "None".into() };
                out.coq_steps.push(format!("RGet (W {c} {}) {} {} {res}", WIDE[*c].2, coq_bytes(&dd), coq_bytes(&k)));
            }
            Step::Scan { s, key } => {
                let got: Vec<Vec<u8>> = set_dispatch!(*s, s_scan(d, key));
                let (k, _) = set_dispatch!(*s, s_parts(key, &match SETS[*s].1 { 0 => El::B(vec![]), 1 => El::T(0, vec![]), _ => El::U }, ph));
                let want: Vec<Vec<u8>> = reference.sets.get(&(*s, k.clone())).map(|m| m.iter().cloned().collect()).unwrap_or_default();
                out.stats.scans += 1;
                if !got.is_empty() { out.stats.scans_nonempty += 1; out.stats.members_seen += got.len() as u64; }
                if pend.values().any(|p| !p.ops.is_empty()) { out.stats.reads_with_uncommitted += 1; }
                let mut sorted = got.clone(); sorted.sort();
                if sorted != want && out.fails.len() < 4 {
                    out.fails.push(format!("step {n}: scan set column {s} key {:?}: store returned {} members, reference {}: got {:?} want {:?}", key, got.len(), want.len(), got.iter().take(4).map(|b| coq_bytes(b)).collect::<Vec<_>>(), want.iter().take(4).map(|b| coq_bytes(b)).collect::<Vec<_>>()));
                }
                out.coq_steps.push(format!("RScan {s} {} [{}]", coq_bytes(&k), got.iter().map(|b| coq_bytes(b)).collect::<Vec<_>>().join("; ")));
            }
        }
    }
    pend.clear();
    drop(db.take());
    out
}

// ------------------------------------------------------------------ raw dumps of the closed directory
type Dump = Vec<(String, Vec<(Vec<u8>, Vec<u8>)>)>;
fn dump_rocks(path: &Path) -> Result<Dump, String> {
    use rust_rocksdb::{DB, IteratorMode, Options, ReadOptions};
    let opts = Options::default();
    let cfs = DB::list_cf(&opts, path).map_err(|e| e.to_string())?;
    let db = DB::open_cf_for_read_only(&opts, path, &cfs, false).map_err(|e| e.to_string())?;
    let mut out = Vec::new();
    for name in &cfs {
        let cf = db.cf_handle(name).ok_or("cf handle")?;
        let mut ro = ReadOptions::default();
        ro.set_total_order_seek(true);
        let mut kvs = Vec::new();
        for item in db.iterator_cf_opt(cf, ro, IteratorMode::Start) { let (k, v) = item.map_err(|e| e.to_string())?; kvs.push((k.to_vec(), v.to_vec())); }
        out.push((name.clone(), kvs));
    }
    Ok(out)
}
fn dump_fjall(path: &Path) -> Result<Dump, String> {
    let db = fjall::Database::builder(path).open().map_err(|e| e.to_string())?;
    let mut out = Vec::new();
    let mut names: Vec<String> = db.list_keyspace_names().iter().map(|n| n.to_string()).collect();
    names.sort();
    for name in names {
        let ks = db.keyspace(&name, fjall::KeyspaceCreateOptions::default).map_err(|e| e.to_string())?;
        let mut kvs = Vec::new();
        for g in ks.iter() { let (k, v) = g.into_inner().map_err(|e| e.to_string())?; kvs.push((k.to_vec(), v.to_vec())); }
        out.push((name, kvs));
    }
    Ok(out)
}
/// physical column name -> model column `(kind, id)`
fn cf_table(prefix: &str) -> BTreeMap<String, String> {
    let ph = std::marker::PhantomData::<RocksDB>;
    let mut m = BTreeMap::new();
    for c in 0..WIDE.len() { let id = wide_dispatch!(c, 0, w_id(ph)); m.insert(format!("{prefix}_wide_column_{:#X}", id), format!("(KWide, {c})")); }
    for s in 0..SETS.len() { let id = set_dispatch!(s, s_id(ph)); m.insert(format!("{prefix}_key_of_set_{:#X}", id), format!("(KSet, {s})")); }
    m
}
fn coq_dump(d: &Dump, table: &BTreeMap<String, String>, fails: &mut Vec<String>) -> String {
    let mut cols = Vec::new();
    for (name, kvs) in d {
        if name == "default" { if !kvs.is_empty() { fails.push("the default column family holds data".into()); } continue; }
        let Some(cf) = table.get(name) else { fails.push(format!("unexpected physical column {name}")); continue };
        cols.push(format!("({cf}, [{}])", kvs.iter().map(|(k, v)| format!("({}, {})", coq_bytes(k), coq_bytes(v))).collect::<Vec<_>>().join("; ")));
    }
    format!("[{}]", cols.join("; "))
}

// ------------------------------------------------------------------ atomicity under a concurrent reader
/// batches replace the whole membership of one set key (generation A <-> generation B) and
/// rewrite a wide cell in the same batch; a concurrent scan must return exactly A or exactly B
fn atomic_probe<Db: KvDatabase>(db: Db, rounds: u64) -> (u64, u64, Vec<String>) {
    let key = vec![7u8, 7];
    let gen_a: Vec<Vec<u8>> = (0..40u8).map(|i| vec![0xA0, i]).collect();
    let gen_b: Vec<Vec<u8>> = (0..40u8).map(|i| vec![0xB0, i, 0xFF]).collect();
    let stop = Arc::new(AtomicBool::new(false));
    let reader = {
        let (db, stop, key, a, b) = (db.clone(), stop.clone(), key.clone(), gen_a.clone(), gen_b.clone());
        std::thread::spawn(move || {
            let (mut scans, mut mixed, mut fails) = (0u64, 0u64, Vec::new());
            let (sa, sb): (BTreeSet<Vec<u8>>, BTreeSet<Vec<u8>>) = (a.into_iter().collect(), b.into_iter().collect());
            while !stop.load(Ordering::SeqCst) {
                let got: BTreeSet<Vec<u8>> = db.scan_members::<SA>(&key).collect();
                scans += 1;
                if !(got.is_empty() || got == sa || got == sb) {
                    mixed += 1;
                    if fails.len() < 2 { fails.push(format!("a scan concurrent with a commit saw {} members: {} of generation A and {} of generation B (each has 40)", got.len(), got.intersection(&sa).count(), got.intersection(&sb).count())); }
                }
            }
            (scans, mixed, fails)
        })
    };
    for i in 0..rounds {
        let mut b = db.write_batch();
        let (ins, del) = if i % 2 == 0 { (&gen_a, &gen_b) } else { (&gen_b, &gen_a) };
        for e in del { b.delete_member::<SA>(&key, e); }
        for e in ins { b.insert_member::<SA>(&key, e); }
        b.put::<WA, A0>(&key, &A0(vec![(i % 2) as u8]));
        b.commit();
    }
    stop.store(true, Ordering::SeqCst);
    let (scans, mixed, fails) = reader.join().unwrap();
    (scans, mixed, fails)
}

// ------------------------------------------------------------------ main
fn fresh_dir(work: &Path, name: &str) -> PathBuf {
    let p = work.join(name);
    let _ = std::fs::remove_dir_all(&p);
    std::fs::create_dir_all(&p).unwrap();
    p
}
/// a panic inside a backend (e.g. a store that rejects a key) is a failure of that history
fn one_history(work: &Path, backend: &str, hseed: u64, steps: usize) -> (String, Vec<String>, HistStats, f64) {
    let res = std::panic::catch_unwind(std::panic::AssertUnwindSafe(|| one_history_inner(work, backend, hseed, steps)));
    match res {
        Ok(x) => x,
        Err(e) => {
            let msg = e.downcast_ref::<String>().cloned().or_else(|| e.downcast_ref::<&str>().map(|s| s.to_string())).unwrap_or_else(|| "?".into());
            let _ = std::fs::remove_dir_all(work.join(format!("{backend}_{hseed}")));
            ("Hist Rocks [] []".into(), vec![format!("the backend panicked: {msg}")], HistStats::default(), 0.0)
        }
    }
}
fn one_history_inner(work: &Path, backend: &str, hseed: u64, steps: usize) -> (String, Vec<String>, HistStats, f64) {
    let hist = gen_history(hseed, steps);
    let dir = fresh_dir(work, &format!("{backend}_{hseed}"));
    let t0 = Instant::now();
    let (run, dump, table) = if backend == "Rocks" {
        let d = dir.clone();
        let run = run_history(&move || RocksDB::open(&d, Plugin::default()).expect("open rocksdb"), &hist, hseed);
        (run, dump_rocks(&dir), cf_table("cf"))
    } else {
        let d = dir.clone();
        let run = run_history(&move || Fjall::open(&d, Plugin::default()).expect("open fjall"), &hist, hseed);
        (run, dump_fjall(&dir), cf_table("ks"))
    };
    let wall = t0.elapsed().as_secs_f64();
    let mut fails = run.fails;
    let dump_s = match dump { Ok(d) => coq_dump(&d, &table, &mut fails), Err(e) => { fails.push(format!("raw dump failed: {e}")); "[]".into() } };
    let _ = std::fs::remove_dir_all(&dir);
    (format!("Hist {backend} [{}] {dump_s}", run.coq_steps.join("; ")), fails, run.stats, wall)
}

fn main() {
    let args: Vec<String> = std::env::args().collect();
    match args[1].as_str() {
        "one" => {
            let work = PathBuf::from(&args[2]);
            let (line, fails, _, wall) = one_history(&work, &args[3], args[4].parse().unwrap(), args.get(5).map(|s| s.parse().unwrap()).unwrap_or(60));
            println!("{} chars of Coq term, {:.2}s", line.len(), wall);
            for f in &fails { println!("FAIL {f}"); }
            std::process::exit(if fails.is_empty() { 0 } else { 1 });
        }
        "run" => {
            if std::env::var("QV_PANIC_TRACE").is_err() { std::panic::set_hook(Box::new(|_| {})); }
            let out_dir = PathBuf::from(&args[2]);
            let work = PathBuf::from(&args[3]);
            let seed: u64 = args[4].parse().unwrap();
            let n: u64 = args[5].parse().unwrap();
            let shards: usize = args[6].parse().unwrap();
            let rounds: u64 = args[7].parse().unwrap();
            std::fs::create_dir_all(&out_dir).unwrap();
            std::fs::create_dir_all(&work).unwrap();
            let mut r = Rng::new(seed);
            let mut lines: Vec<Vec<String>> = vec![Vec::new(); shards];
            let mut fails: Vec<String> = Vec::new();
            let mut per_backend = BTreeMap::new();
            let mut tot = HistStats::default();
            let mut idx = 0usize;
            let hseeds: Vec<u64> = (0..n).map(|_| r.next() >> 1).collect();
            for backend in ["Rocks", "Fjall"] {
                let t0 = Instant::now();
                for hs in &hseeds {
                    let steps = 30 + (hs % 50) as usize;
                    let (line, f, st, _) = one_history(&work, backend, *hs, steps);
                    for x in f { if fails.len() < 8 { fails.push(format!("backend={backend} history_seed={hs} steps={steps}: {x}")); } }
                    lines[idx % shards].push(line);
                    idx += 1;
                    tot.stages += st.stages; tot.commits += st.commits; tot.reopens += st.reopens; tot.gets += st.gets; tot.gets_some += st.gets_some;
                    tot.scans += st.scans; tot.scans_nonempty += st.scans_nonempty; tot.members_seen += st.members_seen;
                    tot.reads_with_uncommitted += st.reads_with_uncommitted; tot.big_parts += st.big_parts; tot.empty_key_cells += st.empty_key_cells;
                    tot.via_buf_batches += st.via_buf_batches; tot.max_key_len = tot.max_key_len.max(st.max_key_len);
                }
                per_backend.insert(backend, t0.elapsed().as_secs_f64());
            }
            // atomicity probes
            let mut probe = Vec::new();
            if rounds > 0 {
                let d = fresh_dir(&work, "atomic_rocks");
                let (scans, mixed, f) = atomic_probe(RocksDB::open(&d, Plugin::default()).unwrap(), rounds);
                for x in f { fails.push(format!("backend=Rocks atomic probe: {x}")); }
                probe.push(format!("\"rocks\":{{\"rounds\":{rounds},\"concurrent_scans\":{scans},\"mixed\":{mixed}}}"));
                let _ = std::fs::remove_dir_all(&d);
                let d = fresh_dir(&work, "atomic_fjall");
                let (scans, mixed, f) = atomic_probe(Fjall::open(&d, Plugin::default()).unwrap(), rounds);
                for x in f { fails.push(format!("backend=Fjall atomic probe: {x}")); }
                probe.push(format!("\"fjall\":{{\"rounds\":{rounds},\"concurrent_scans\":{scans},\"mixed\":{mixed}}}"));
                let _ = std::fs::remove_dir_all(&d);
            }
            for (k, l) in lines.iter().enumerate() { std::fs::write(out_dir.join(format!("shard_{k}.txt")), l.join("\n") + "\n").unwrap(); }
            println!(
                "{{\"histories_per_backend\":{n},\"backends\":2,\"stages\":{},\"commits\":{},\"reopens\":{},\"gets\":{},\"gets_some\":{},\"scans\":{},\"scans_nonempty\":{},\"members_returned\":{},\"reads_while_uncommitted_staged\":{},\"parts_over_1000_bytes\":{},\"ops_with_empty_key_encoding\":{},\"batches_via_serialization_buffer\":{},\"longest_physical_key\":{},\"seconds_rocks\":{:.1},\"seconds_fjall\":{:.1},\"atomic_probe\":{{{}}},\"rust_fail\":{:?}}}",
                tot.stages, tot.commits, tot.reopens, tot.gets, tot.gets_some, tot.scans, tot.scans_nonempty, tot.members_seen, tot.reads_with_uncommitted, tot.big_parts, tot.empty_key_cells, tot.via_buf_batches, tot.max_key_len,
                per_backend["Rocks"], per_backend["Fjall"], probe.join(","), fails
            );
        }
        _ => panic!("usage"),
    }
}
